"""cycle tags with different item lists share one iterator when the items' hashes collide."""
import sys
from liquid2 import Environment

env = Environment()
CASES = [
    # string literals 'a', 'b' versus variables a, b
    ("{% cycle 'a', 'b' %}{% cycle a, b %}", {"a": "X", "b": "Y"}, "aX"),
    ("{% for i in (1..2) %}{% cycle 'odd', 'even' %}:{% cycle odd, even %} {% endfor %}", {"odd": 1, "even": 2}, "odd:1 even:2 "),
    # 1 / 1.0 / true, and -1 / -2 (hash(-1) == hash(-2) in CPython)
    ("{% cycle 1, 2 %}{% cycle 1.0, 2.0 %}", {}, "11.0"),
    ("{% cycle 1, 'z' %}{% cycle true, 'z' %}", {}, "1true"),
    ("{% cycle -1, 5 %}{% cycle -2, 5 %}", {}, "-1-2"),
    # control: identical tags do share, named groups do not
    ("{% cycle 'a', 'b' %}{% cycle 'a', 'b' %}{% cycle g: 'a', 'b' %}", {}, "aba"),
]
failed = False
for source, data, want in CASES:
    got = env.from_string(source).render(**data)
    if got != want:
        failed = True
        print(f"{source!r}: want {want!r}, got {got!r}")
print("FAIL" if failed else "PASS")
sys.exit(1 if failed else 0)
