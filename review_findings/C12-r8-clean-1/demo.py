"""Unmodified library: str() of an output statement whose variable name starts
with a Unicode space character reparses to a different variable."""

import sys

from liquid2 import Environment

env = Environment()
failures = []

# U+00A0 (no-break space), U+2028 (line separator), U+3000 (ideographic space)
# and U+0085 (next line) are all legal in a variable name: the lexer's WORD
# pattern is [\\u0080-\\uFFFFa-zA-Z_][...]*.
for ch in ("\u00a0", "\u2028", "\u3000", "\u0085"):
    name = ch + "price"
    data = {name: "RIGHT", "price": "WRONG"}
    for source in (
        "{{ ['%s'] }}" % name,  # bracket notation
        "{%% assign v = %s %%}{{ v }}" % name,  # bare, inside a tag: fine
        "{{ %s.size }}" % name,  # a longer path
    ):
        original = env.from_string(source)
        expected = original.render(**data)
        text = str(original)
        reparsed = env.from_string(text)
        got = reparsed.render(**data)
        if got != expected:
            failures.append(
                f"{source!r} renders {expected!r}; str() is {text!r}, "
                f"which renders {got!r} (and str() again: {str(reparsed)!r})"
            )

if failures:
    print("FAIL")
    for f in failures:
        print("  " + f)
    sys.exit(1)
print("PASS")
