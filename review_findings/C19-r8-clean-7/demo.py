"""String-key and arrow-function forms disagree on arrays that mix hashes and scalars."""
import json, sys
from liquid2 import Environment
from liquid2.exceptions import LiquidError

env = Environment()
ok = True
a = [{"id": 1, "k": 1}, 7, None, {"id": 2}, {"id": 3, "k": 1}]

PAIRS = [
    ("where: 'k'", "where: x => x.k"),
    ("reject: 'k'", "reject: x => x.k"),
    ("map: 'k'", "map: x => x.k"),
    ("compact: 'k'", "compact: x => x.k"),
    ("uniq: 'k'", "uniq: x => x.k"),
    ("sum: 'k'", "sum: x => x.k"),
    ("find: 'k'", "find: x => x.k"),
    ("has: 'k'", "has: x => x.k"),
]

def run(f):
    try:
        return json.loads(env.from_string("{{ a | %s | json }}" % f).render(a=a))
    except LiquidError as err:
        return "ERROR " + str(err).splitlines()[0]

for s, l in PAIRS:
    rs, rl = run(s), run(l)
    if rs != rl:
        ok = False
        print(f"{s:14} -> {rs}\n{l:14} -> {rl}")

print("PASS" if ok else "FAIL")
sys.exit(0 if ok else 1)
