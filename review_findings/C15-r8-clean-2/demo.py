"""Clean tree: a message context written as a literal that is not a string
(an integer, a float, true) is used for the catalog lookup but is not
extracted."""

import sys

from liquid2 import parse
from liquid2.messages import extract_from_template


class Catalog:
    def __init__(self):
        self.lookups = []

    def gettext(self, message):
        self.lookups.append(("gettext", str(message)))
        return message

    def ngettext(self, singular, plural, n):
        self.lookups.append(("ngettext", str(singular), str(plural)))
        return singular if n == 1 else plural

    def pgettext(self, ctx, message):
        self.lookups.append(("pgettext", str(ctx), str(message)))
        return message

    def npgettext(self, ctx, singular, plural, n):
        self.lookups.append(("npgettext", str(ctx), str(singular), str(plural)))
        return singular if n == 1 else plural


def reported(template):
    return [
        (funcname, *(p[0] if isinstance(p, tuple) else p for p in message))
        for _lineno, funcname, message, _comments in extract_from_template(template)
    ]


SOURCES = [
    "{% translate context: 2024 %}Season{% endtranslate %}",
    "{% translate context: 1.5, count: 2 %}One{% plural %}Many{% endtranslate %}",
    "{% translate context: true %}On{% endtranslate %}",
    "{{ 'Season' | t: 2024 }}",
    "{{ 'One' | t: 2024, plural: 'Many', count: 2 }}",
    "{{ 'Season' | pgettext: 2024 }}",
    "{{ 'One' | npgettext: 2024, 'Many', 2 }}",
]


def main():
    ok = True
    for source in SOURCES:
        template = parse(source)
        catalog = Catalog()
        template.render(translations=catalog)
        extracted = reported(template)
        for lookup in catalog.lookups:
            if lookup not in extracted:
                ok = False
                print(f"{source}\n  render:    {lookup!r}\n  extracted: {extracted!r}")
    print("PASS" if ok else "FAIL")
    return 0 if ok else 1


if __name__ == "__main__":
    sys.exit(main())
