"""round is binary-float banker's rounding, unlike the decimal arithmetic of plus/minus/times."""
import sys
from decimal import Decimal, ROUND_HALF_EVEN, ROUND_HALF_UP
from liquid2 import Environment

env = Environment()
ok = True
t0 = env.from_string("{{ x | round }}")
tn = env.from_string("{{ x | round: n }}")

def q(x, n, mode):
    return Decimal(str(x)).quantize(Decimal(1).scaleb(-n), rounding=mode)

# The library treats a float as the decimal it prints as: 0.1 | plus: 0.2 is 0.3.
assert env.from_string("{{ 0.1 | plus: 0.2 }}").render() == "0.3"

for x, n in [(2.675, 2), (1.115, 2), (1.005, 2), (0.285, 2), (1.45, 1), (2.5, 0), (0.5, 0), (-2.5, 0), (15, -1), (1234, -2)]:
    got = Decimal((t0 if n == 0 else tn).render(x=x, n=n))
    half_up, half_even = q(x, n, ROUND_HALF_UP), q(x, n, ROUND_HALF_EVEN)
    if got not in (half_up, half_even):
        ok = False
        print(f"{x} | round: {n} -> {got}; decimal half-up {half_up}, half-even {half_even}")
    elif got != half_up:
        print(f"note: {x} | round: {n} -> {got} (half-even); the reference engine gives {half_up}")

print("PASS" if ok else "FAIL")
sys.exit(0 if ok else 1)
