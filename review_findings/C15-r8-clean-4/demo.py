"""Clean tree: a translation filter in the tail position of an inline
conditional (`a if c else b || t`) is applied to whichever string literal is
chosen, but none of the literals is extracted. Same for a `t` filter whose
`plural` argument is the literal nil."""

CASES = [
    ("{{ 'Yes' if ok else 'No' || t }}", {"ok": True}),
    ("{{ 'Yes' if ok else 'No' || t }}", {"ok": False}),
    ("{{ 'Yes' if ok || t: 'answers' }}", {"ok": True}),
    ("{% assign label = 'Yes' if ok else 'No' || gettext %}{{ label }}", {"ok": False}),
    ("{{ 'Item' | t: plural: nil }}", {}),
    ("{{ 'Item' | t: 'cart', plural: nil, count: 2 }}", {}),
]

import sys

from liquid2 import parse
from liquid2.messages import extract_from_template


class Catalog:
    def __init__(self):
        self.lookups = []

    def gettext(self, message):
        self.lookups.append(("gettext", str(message)))
        return message

    def ngettext(self, singular, plural, n):
        self.lookups.append(("ngettext", str(singular), str(plural)))
        return singular if n == 1 else plural

    def pgettext(self, ctx, message):
        self.lookups.append(("pgettext", str(ctx), str(message)))
        return message

    def npgettext(self, ctx, singular, plural, n):
        self.lookups.append(("npgettext", str(ctx), str(singular), str(plural)))
        return singular if n == 1 else plural


def reported(template):
    return [
        (funcname, *(p[0] if isinstance(p, tuple) else p for p in message))
        for _lineno, funcname, message, _comments in extract_from_template(template)
    ]


def main():
    ok = True
    for source, data in CASES:
        template = parse(source)
        catalog = Catalog()
        template.render(translations=catalog, **data)
        extracted = reported(template)
        for lookup in catalog.lookups:
            if lookup not in extracted:
                ok = False
                print(f"{source}\n  render:    {lookup!r}\n  extracted: {extracted!r}")
    print("PASS" if ok else "FAIL")
    return 0 if ok else 1


if __name__ == "__main__":
    sys.exit(main())

