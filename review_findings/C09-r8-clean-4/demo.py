"""CachingChoiceLoader keeps serving a template after an earlier loader in the list starts to provide it."""

from __future__ import annotations

import shutil
import sys
import tempfile
from pathlib import Path

from liquid2 import CachingChoiceLoader
from liquid2 import Environment
from liquid2 import FileSystemLoader


def main() -> int:
    root = Path(tempfile.mkdtemp(prefix="c09_clean4_", dir=Path(__file__).parent))
    try:
        overlay, base = root / "overlay", root / "base"
        overlay.mkdir()
        base.mkdir()
        (base / "t").write_text("from base")

        def fresh_env() -> Environment:
            return Environment(
                loader=CachingChoiceLoader(
                    [FileSystemLoader(overlay), FileSystemLoader(base)],
                    auto_reload=True,
                )
            )

        env = fresh_env()
        first = env.get_template("t").render()
        (overlay / "t").write_text("from overlay")  # now shadows base/t
        got = env.get_template("t").render()
        want = fresh_env().get_template("t").render()

        print(f"before: {first!r}; after overlay/t was added: {got!r}; fresh objects: {want!r}")
        if got != want:
            print("FAIL")
            return 1
        print("PASS")
        return 0
    finally:
        shutil.rmtree(root, ignore_errors=True)


if __name__ == "__main__":
    sys.exit(main())
