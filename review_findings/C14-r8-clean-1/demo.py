"""Clean tree: a cache hit rebinds the globals of a template another caller still holds."""

import asyncio
import sys

from liquid2 import CachingDictLoader
from liquid2 import DictLoader
from liquid2 import Environment

SOURCES = {"invoice": "invoice for {{ customer }}"}


def sync_history(env: Environment) -> list[str]:
    alice = env.get_template("invoice", globals={"customer": "alice"})
    bob = env.get_template("invoice", globals={"customer": "bob"})
    return [alice.render(), bob.render()]


def async_history(env: Environment) -> list[str]:
    async def request(customer: str) -> str:
        t = await env.get_template_async("invoice", globals={"customer": customer})
        await asyncio.sleep(0)  # any await between loading and rendering
        return await t.render_async()

    async def main() -> list[str]:
        return list(await asyncio.gather(request("alice"), request("bob")))

    return asyncio.run(main())


ok = True
for history in (sync_history, async_history):
    want = history(Environment(loader=DictLoader(SOURCES)))
    got = history(Environment(loader=CachingDictLoader(SOURCES)))
    if got != want:
        ok = False
        print(f"{history.__name__}: caching loader {got}, plain loader {want}")

print("PASS" if ok else "FAIL")
sys.exit(0 if ok else 1)
