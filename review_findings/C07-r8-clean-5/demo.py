"""Static analysis does not know that a macro body is an isolated scope.

At render time `x` inside the macro is the GLOBAL x (the caller's assignment is
invisible, as C07 demands). Template.analyze() resolves it against the
template's locals instead and reports that the template needs no global data.
"""

import sys

from liquid2 import DictLoader
from liquid2 import Environment

env = Environment(loader=DictLoader({"p": "[{{ x }}]"}))

macro = env.from_string(
    "{% assign x = 'local' %}{% macro m %}[{{ x }}]{% endmacro %}{% call m %}"
)
partial = env.from_string("{% assign x = 'local' %}{% render 'p' %}")

print("macro  rendered with x='global':", macro.render(x="global"))
print("render rendered with x='global':", partial.render(x="global"))

macro_globals = sorted(macro.analyze().globals)
partial_globals = sorted(partial.analyze().globals)
print("macro  analysis globals:", macro_globals)
print("render analysis globals:", partial_globals)

problems = []
if macro.render(x="global") == "[global]" and "x" not in macro_globals:
    problems.append("the macro body reads the global x, analysis reports no global x")

# names bound FOR the isolated scope are reported as globals
args = env.from_string("{% macro m a %}{{ a }}{{ args }}{{ kwargs }}{% endmacro %}{% call m 1, 2, k: 3 %}")
if {"args", "kwargs"} & set(args.analyze().globals):
    problems.append("`args` / `kwargs` inside a macro are reported as global variables")

env.loader.templates["row"] = "{{ row }}{{ forloop.index }}"  # type: ignore[attr-defined]
rf = env.from_string("{% render 'row' for xs %}")
if "forloop" in rf.analyze().globals:
    problems.append("`forloop` inside a `render ... for` partial is reported as a global variable")

if problems:
    print("FAIL")
    for problem in problems:
        print("  -", problem)
    sys.exit(1)

print("PASS")
