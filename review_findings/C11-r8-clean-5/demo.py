"""An arrow function's third and later parameters are never bound at render time."""

import sys
from collections.abc import Mapping
from io import StringIO

from liquid2 import Environment
from liquid2 import RenderContext


class Recording(Mapping):
    def __init__(self, data):
        self.data = data
        self.seen = []

    def __getitem__(self, key):
        self.seen.append(key)
        return self.data[key]

    def __iter__(self):
        return iter(self.data)

    def __len__(self):
        return len(self.data)


env = Environment()
template = env.from_string("{{ items | map: (item, index, total) => total | join: ',' }}")

globals_ = Recording({"items": ["a", "b"], "total": "GLOBAL"})
out = StringIO()
template.render_with_context(RenderContext(template, global_data=globals_), out)
analysis = template.analyze()

print("output            :", out.getvalue())
print("globals looked up :", list(dict.fromkeys(globals_.seen)))
print("analyze().globals :", sorted(analysis.globals))

missing = [n for n in dict.fromkeys(globals_.seen) if n not in analysis.globals]
if missing:
    print(f"FAIL: looked up in the global namespace but not reported as global: {missing}")
    sys.exit(1)

print("PASS")
