"""A partial is analysed once, in the scope of the first tag that loads it."""

import sys
from collections.abc import Mapping
from io import StringIO

from liquid2 import DictLoader
from liquid2 import Environment
from liquid2 import RenderContext


class Recording(Mapping):
    def __init__(self, data):
        self.data = data
        self.seen = []

    def __getitem__(self, key):
        self.seen.append(key)
        return self.data[key]

    def __iter__(self):
        return iter(self.data)

    def __len__(self):
        return len(self.data)


env = Environment(loader=DictLoader({"badge": "[{{ label }}]"}))
template = env.from_string("{% render 'badge', label: 'new' %}{% render 'badge' %}")

globals_ = Recording({"label": "GLOBAL"})
out = StringIO()
template.render_with_context(RenderContext(template, global_data=globals_), out)
analysis = template.analyze()

print("output               :", out.getvalue())
print("globals looked up    :", globals_.seen)
print("analyze().globals    :", sorted(analysis.globals))
print("analyze().locals     :", sorted(analysis.locals))
print("global_variables()   :", template.global_variables())

missing = [
    name
    for name in globals_.seen
    if name not in analysis.globals and name not in analysis.locals
]
if missing:
    print(f"FAIL: looked up in the global namespace but not reported as global: {missing}")
    sys.exit(1)

print("PASS")
