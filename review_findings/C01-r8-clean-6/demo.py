"""`render ... for` renders every item in ONE shared scope: variables, counters and cycles
leak from one iteration into the next."""
import sys
from liquid2 import DictLoader, Environment

env = Environment(
    loader=DictLoader(
        {
            "row": "[{{ seen }}{% assign seen = i %}]",
            "count": "[{% increment c %}{% cycle 'x', 'y' %}]",
            "flag": "{% if warned %}(again){% endif %}{% if i > 1 %}{% assign warned = true %}!{% endif %}{{ i }} ",
        }
    )
)
CASES = [
    ("{% render 'row' for (1..3) as i %}", "[][][]"),
    ("{% render 'count' for (1..3) as i %}", "[0x][0x][0x]"),
    ("{% render 'flag' for (1..3) as i %}", "1 !2 !3 "),
    # the same thing spelled with a for tag: every render gets its own scope
    ("{% for i in (1..3) %}{% render 'row', i: i %}{% endfor %}", "[][][]"),
    ("{% for i in (1..3) %}{% render 'count', i: i %}{% endfor %}", "[0x][0x][0x]"),
    ("{% for i in (1..3) %}{% render 'flag', i: i %}{% endfor %}", "1 !2 !3 "),
]
failed = False
for source, want in CASES:
    got = env.from_string(source).render()
    if got != want:
        failed = True
        print(f"{source!r}: want {want!r}, got {got!r}")
print("FAIL" if failed else "PASS")
sys.exit(1 if failed else 0)
