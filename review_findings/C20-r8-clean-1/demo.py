"""Unmodified library, auto_escape=True: the literal text of a template string
is HTML-escaped on output, the same text in any other string literal is not.

docs/migration.md ("String interpolation") says a template string is "a
shorthand alternative to capture tags or chains of append filters" and that
the two forms "are equivalent".
"""

import asyncio
import sys

from liquid2 import Environment

env = Environment(auto_escape=True)
DATA = {"x": "&"}

# (what, template, expected): the literal text `<b>`/`</b>` is written by the
# template author and comes out as written; only the value of `x` is escaped.
WANT = "<b>&amp;</b>"
CASES = [
    ("plain literals, append", "{{ '<b>' | append: x | append: '</b>' }}"),
    ("capture", "{% capture s %}<b>{{ x }}</b>{% endcapture %}{{ s }}"),
    ("template string", "{{ '<b>${x}</b>' }}"),
    ("template string, assign", "{% assign s = '<b>${x}</b>' %}{{ s }}"),
    ("template string, echo", "{% echo \"<b>${x}</b>\" %}"),
]

failed = False
for what, source in CASES:
    template = env.from_string(source)
    got = template.render(**DATA)
    got_async = asyncio.run(template.render_async(**DATA))
    ok = got == WANT and got_async == WANT
    print(f"{'ok  ' if ok else 'BAD '} {what:28} {source!r} -> {got!r}")
    failed = failed or not ok

# The same literal, with and without an (escaped, so inactive) interpolation.
a = env.from_string("{{ '<i>' }}").render()
b = env.from_string("{{ '<i>${y}' }}").render(y="")
print(f"'<i>' -> {a!r}   '<i>${{y}}' with y='' -> {b!r}")
failed = failed or a != b

if failed:
    print("FAIL")
    sys.exit(1)
print("PASS")
