"""capture (and macro/call) of whitespace-only text loses the text when
suppress_blank_control_flow_blocks is on (the default)."""
import sys
from liquid2 import Environment


class Loose(Environment):
    suppress_blank_control_flow_blocks = False


CASES = [
    ("{% capture x %}   {% endcapture %}[{{ x }}]", "[   ]"),
    ("{% capture sep %}\n{% endcapture %}{{ 'a,b' | split: ',' | join: sep }}", "a\nb"),
    ("{% capture x %} {% if true %} {% endif %} {% endcapture %}[{{ x }}]", "[   ]"),
    ("{% macro gap %}  {% endmacro %}[{% call gap %}]", "[  ]"),
    # control: one printing character and everything is kept
    ("{% capture x %} . {% endcapture %}[{{ x }}]", "[ . ]"),
]

failed = False
for env in (Environment(), Loose()):
    for source, want in CASES:
        got = env.from_string(source).render()
        if got != want:
            failed = True
            print(f"suppress={env.suppress_blank_control_flow_blocks} {source!r}: want {want!r}, got {got!r}")

print("FAIL" if failed else "PASS")
sys.exit(1 if failed else 0)
