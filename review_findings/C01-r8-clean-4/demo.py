"""uniq, contains and in use Python equality: 1 is true, 0 is false - Liquid equality says otherwise."""
import sys
from liquid2 import Environment

env = Environment()
CASES = [
    # what Liquid equality says
    ("{% if 1 == true %}T{% else %}F{% endif %}{% if 0 == false %}T{% else %}F{% endif %}", {}, "FF"),
    ("{% case 1 %}{% when true %}T{% else %}F{% endcase %}", {}, "F"),
    ("{{ x | where: 'v', true | size }}", {"x": [{"v": 1}, {"v": True}]}, "1"),
    # and what uniq / contains / in do
    ("{{ x | uniq | join: ',' }}", {"x": [1, True, 0, False]}, "1,true,0,false"),
    ("{{ x | uniq | join: ',' }}", {"x": [True, 1, 2]}, "true,1,2"),
    ("{% if x contains true %}T{% else %}F{% endif %}", {"x": [1, 2]}, "F"),
    ("{% if 0 in x %}T{% else %}F{% endif %}", {"x": [False]}, "F"),
    ("{% if x == y %}T{% else %}F{% endif %}", {"x": [1], "y": [True]}, "F"),
]
failed = False
for source, data, want in CASES:
    got = env.from_string(source).render(**data)
    if got != want:
        failed = True
        print(f"{source!r} {data!r}: want {want!r}, got {got!r}")
print("FAIL" if failed else "PASS")
sys.exit(1 if failed else 0)
