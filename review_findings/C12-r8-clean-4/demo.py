"""Unmodified library (borderline, interpreter dependent): a template nested
deeply enough parses and renders, but str() and pickle.dumps() raise
RecursionError - the serialisers need more stack per nesting level than the
parser and the renderer do."""

import pickle
import sys

from liquid2 import Environment

env = Environment()


def attempt(func):
    try:
        func()
        return "ok"
    except RecursionError:
        return "RecursionError"


bad = []
for depth in (120, 150, 180):
    source = "{% if x %}" * depth + "y" + "{% endif %}" * depth
    template = env.from_string(source)
    rendered = attempt(lambda: template.render(x=True))
    as_text = attempt(lambda: str(template))
    pickled = attempt(lambda: pickle.dumps(template))
    print(f"{depth} nested if tags: render {rendered}, str() {as_text}, pickle {pickled}")
    if rendered == "ok" and (as_text != "ok" or pickled != "ok"):
        bad.append(depth)

if bad:
    print(f"FAIL: renders but cannot be serialised at depth {bad}")
    sys.exit(1)
print("PASS")
