"""Unmodified library: text captured with {% capture %} and never written out
is charged against output_stream_limit - but only sometimes.

Output so far 60 bytes, limit 100, a capture of 50 bytes that is never output.
The unrestricted render returns 60 bytes, within the limit.
"""

import sys

from liquid2 import DictLoader
from liquid2 import Environment
from liquid2.exceptions import LiquidError

A = "A" * 60
B = "B" * 50


class Limited(Environment):
    output_stream_limit = 100


def outcome(env_class, templates):
    env = env_class(loader=DictLoader(templates))
    try:
        return ("ok", env.get_template("main").render())
    except LiquidError as err:
        return (type(err).__name__,)


def main() -> int:
    cases = {
        "capture": {"main": A + "{% capture x %}" + B + "{% endcapture %}"},
        "capture in if": {
            "main": A + "{% if true %}{% capture x %}" + B + "{% endcapture %}{% endif %}"
        },
        "capture in capture": {
            "main": A + "{% capture y %}{% capture x %}" + B + "{% endcapture %}{% endcapture %}"
        },
        "capture before output": {"main": "{% capture x %}" + B + "{% endcapture %}" + A},
    }

    failures = []
    results = {}
    for label, templates in cases.items():
        want = outcome(Environment, templates)
        assert want == ("ok", A), want
        got = outcome(Limited, templates)
        results[label] = got[0]
        if got != want:
            failures.append(
                f"{label}: unrestricted output is {len(A)} bytes, limit 100, got {got[0]}"
            )

    if failures:
        print("FAIL")
        for failure in failures:
            print("  ", failure)
        print("   all four variants:", results)
        return 1
    print("PASS")
    return 0


if __name__ == "__main__":
    sys.exit(main())
