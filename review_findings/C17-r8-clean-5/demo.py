"""The last line statement of a liquid tag spans the tag's closing delimiter."""
import sys

from liquid2 import Environment

env = Environment()
failures = []
for source in (
    "{% liquid\n  assign x = 1\n  echo x %}",
    "{% liquid assign x = 1 -%}tail",
):
    lines = env.tokenize(source)[0]
    last = lines.statements[-1]
    text = source[last.start : last.stop]
    if text.rstrip().endswith("%}"):
        failures.append(f"{source!r}: statement {last.name!r} spans {text!r}")
    spans = env.from_string(source).analyze().tags[last.name]
    text = source[spans[-1].start : spans[-1].end]
    if text.rstrip().endswith("%}"):
        failures.append(f"{source!r}: analyze().tags[{last.name!r}] is {text!r}")
# control: the same statement terminated by a newline
source = "{% liquid\n  assign x = 1\n  echo x\n%}"
last = env.tokenize(source)[0].statements[-1]
assert source[last.start : last.stop] == "echo x"
if failures:
    print("FAIL")
    for f in failures:
        print("  ", f)
    sys.exit(1)
print("PASS")
