"""TemplateStringToken's span excludes the opening quote but includes the closing one."""
import sys

from liquid2 import Environment
from liquid2.token import TemplateStringToken

env = Environment()
failures = []
for source in ("{{ 'x${a}y' }}", '{% assign s = "${a} and ${b}" %}'):
    markup = env.tokenize(source)[0]
    tok = next(t for t in markup.expression if isinstance(t, TemplateStringToken))
    text = source[tok.start : tok.stop]
    quote = source[tok.start - 1]
    with_quotes = text[0] == quote and text[-1] == quote
    content_only = text[0] != quote and text[-1] != quote
    if not (with_quotes or content_only):
        failures.append(
            f"{source!r}: template string span {tok.start}:{tok.stop} = {text!r} "
            "(opening quote excluded, closing quote included)"
        )
if failures:
    print("FAIL")
    for f in failures:
        print("  ", f)
    sys.exit(1)
print("PASS")
