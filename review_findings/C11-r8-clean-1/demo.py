"""Filters on the left of an inline `if` are applied but never reported."""

import asyncio
import sys

from liquid2 import Environment

calls = []


def shout(value):
    calls.append("shout")
    return str(value).upper() + "!"


env = Environment()
env.filters["shout"] = shout

SOURCE = "{{ name | shout if loud else name | downcase }}"
template = env.from_string(SOURCE)

out = template.render(name="Sue", loud=True)
analysis = template.analyze()
names = template.filter_names()
names_async = asyncio.run(template.filter_names_async())

print("output          :", out)
print("filters applied :", calls)
print("filter_names()  :", names)
print("analyze().filters:", analysis.filters)

if "shout" in calls and (
    "shout" not in names or "shout" not in names_async or "shout" not in analysis.filters
):
    print("FAIL: the render applied 'shout', static analysis does not report it")
    sys.exit(1)

print("PASS")
