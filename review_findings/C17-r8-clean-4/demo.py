"""A stray `..` leaves Lexer.in_range set; the error surfaces at a later, valid construct."""
import sys

from liquid2 import Environment
from liquid2.exceptions import LiquidSyntaxError

env = Environment()
bad = "{{ a..b }}"
good = "{{ c | map: (x, i) => x.y }}"
env.from_string(good)  # valid on its own

source = bad + "\n\n\n" + good
try:
    env.from_string(source)
except LiquidSyntaxError as err:
    line, col, *_ = err.context()
    inside_bad = 0 <= err.token.start < len(bad)
    if not inside_bad:
        print("FAIL")
        print(
            f"   {err.message!r} reported at {line}:{col} "
            f"({source[err.token.start:err.token.start + 8]!r}...), "
            "inside the valid arrow function on line 4; the malformed `a..b` is on line 1"
        )
        sys.exit(1)
    print("PASS")
else:
    print("FAIL\n   expected a syntax error")
    sys.exit(1)
