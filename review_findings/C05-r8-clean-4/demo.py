"""Clean tree (minor): with DebugUndefined the Python class name of a context
object, read from obj.__class__.__name__, is written to the output."""

import sys

from liquid2 import Environment
from liquid2.undefined import DebugUndefined


class InternalBillingAccountV2:
    def __str__(self) -> str:
        return "account"


def main() -> int:
    env = Environment(undefined=DebugUndefined)
    out = env.from_string("{{ [acct] }}").render(acct=InternalBillingAccountV2())
    if "InternalBillingAccountV2" in out:
        print("FAIL")
        print(f" - '{{{{ [acct] }}}}' rendered {out!r}")
        return 1
    print("PASS")
    return 0


if __name__ == "__main__":
    sys.exit(main())
