"""An extends tag nested in a capture tag gives an empty page without any error;
nested in a block of its own template it recurses up to the context depth limit."""
import asyncio
import sys

from liquid2 import Environment
from liquid2.builtin import DictLoader
from liquid2.exceptions import TemplateInheritanceError

TEMPLATES = {
    "base": "<{% block a %}base{% endblock %}>",
    # reference: the same leaf with extends nested in an if tag renders the chain
    "leaf_if": "{% if true %}{% extends 'base' %}{% endif %}{% block a %}leaf{% endblock %}",
    "leaf_capture": (
        "{% capture page %}{% extends 'base' %}{% endcapture %}"
        "{% block a %}leaf{% endblock %}{{ page }}"
    ),
    "leaf_in_block": "{% block a %}{% extends 'base' %}leaf{% endblock %}",
}
env = Environment(loader=DictLoader(TEMPLATES))


def outcome(name, mode):
    try:
        t = env.get_template(name)
        return repr(t.render() if mode == "sync" else asyncio.run(t.render_async()))
    except TemplateInheritanceError:
        return "TemplateInheritanceError"
    except Exception as err:  # noqa: BLE001
        return type(err).__name__


failures = []
for mode in ("sync", "async"):
    ref = outcome("leaf_if", mode)
    print(f"{mode:5} leaf_if       -> {ref}")
    for name in ("leaf_capture", "leaf_in_block"):
        got = outcome(name, mode)
        print(f"{mode:5} {name:13} -> {got}")
        # Either the chain is rendered, or the template is rejected with an
        # inheritance error. Anything else is a silently wrong page / wrong error.
        if got not in (ref, "TemplateInheritanceError"):
            failures.append((mode, name, got))

if failures:
    print("FAIL")
    sys.exit(1)
print("PASS")
