"""Unmodified library: a template pickled by one process and unpickled by
another no longer shares its cycle groups with the partial templates it
includes, because CycleNode.cycle_hash is a string hash taken at parse time."""

import os
import pickle
import subprocess
import sys

from liquid2 import DictLoader
from liquid2 import Environment

PARTIAL = "{% cycle 'odd', 'even' %}"
SOURCE = "{% cycle 'odd', 'even' %} {% include 'row' %} {% cycle 'odd', 'even' %}"


def make():
    env = Environment(loader=DictLoader({"row": PARTIAL}))
    return env.from_string(SOURCE)


if len(sys.argv) > 1 and sys.argv[1] == "--dump":
    sys.stdout.buffer.write(pickle.dumps(make()))
    sys.exit(0)

template = make()
expected = template.render()  # 'odd even odd': one cycle group, shared with the partial

failures = []

same_process = pickle.loads(pickle.dumps(template)).render()
if same_process != expected:
    failures.append(f"same process: {expected!r} != {same_process!r}")

# The usual reason to pickle a template: another process (a cache on disk, a
# worker pool). String hashes are randomised per process unless PYTHONHASHSEED
# is pinned, and the loader's partial is parsed afresh in the reading process.
for seed in ("1", "2", "3"):
    blob = subprocess.run(
        [sys.executable, os.path.abspath(__file__), "--dump"],
        env=dict(os.environ, PYTHONHASHSEED=seed),
        capture_output=True,
        check=True,
    ).stdout
    got = pickle.loads(blob).render()
    if got != expected:
        failures.append(
            f"pickled by a process with PYTHONHASHSEED={seed}: {expected!r} != {got!r}"
        )

if failures:
    print("FAIL")
    for f in failures:
        print("  " + f)
    sys.exit(1)
print("PASS")
