"""Clean-tree C18 violation 2: a caching loader shared by two environments
hands environment B a template that was parsed by (and is bound to)
environment A. With no trimming in force in B, literal text of the partial is
not reproduced character for character; blank-block suppression of A is applied
to a template of B's."""
import sys

from liquid2 import CachingDictLoader
from liquid2 import Environment
from liquid2 import WhitespaceControl

PARTIAL = "  <p> {{ x }} </p>\n"
PAGE = "[{% include 'p' %}]"

loader = CachingDictLoader({"p": PARTIAL})
trimming = Environment(loader=loader, default_trim=WhitespaceControl.MINUS)
plain = Environment(loader=loader)  # default_trim '+', no markers anywhere

first = trimming.from_string(PAGE).render(x=1)  # fills the loader's cache
shared = plain.from_string(PAGE).render(x=1)

# The same environment with a loader of its own is the reference.
alone = Environment(loader=CachingDictLoader({"p": PARTIAL})).from_string(PAGE).render(x=1)

print("trimming env       :", repr(first))
print("plain env, shared  :", repr(shared))
print("plain env, alone   :", repr(alone))
print("template bound to the other environment:", plain.get_template("p").env is trimming)

if shared != alone:
    print("FAIL: with no trimming in force, literal text was not reproduced")
    sys.exit(1)
print("PASS")
