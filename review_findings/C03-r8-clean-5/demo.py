"""C03 on the UNMODIFIED tree (resource boundary): for block nesting depths in a
window just below Python's recursion limit, render() dies with RecursionError
while render_async() of the same template produces the output.

The sync twin of BlockNode.render_to_output sums a generator expression (one
extra Python frame per nesting level); the async twin uses a list comprehension,
which is inlined on Python 3.12. So sync needs more stack per level than async.
"""
import asyncio
import sys

from liquid2 import Environment

env = Environment()


def outcome(fn):
    try:
        return ("ok", fn())
    except RecursionError:
        return ("RecursionError",)


window = []
for depth in range(150, 260, 5):
    source = "{% if true %}" * depth + "x" + "{% endif %}" * depth
    try:
        template = env.from_string(source)
    except RecursionError:
        break  # the parser gives up: same for both
    s = outcome(lambda: template.render())
    a = outcome(lambda: asyncio.run(template.render_async()))
    if s != a:
        window.append((depth, s, a))

for depth, s, a in window:
    print(f"depth {depth}: sync={s} async={a}")

if window:
    print("FAIL")
    sys.exit(1)
print("PASS")
sys.exit(0)
