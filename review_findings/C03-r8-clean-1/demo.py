"""C03 on the UNMODIFIED tree: the condition of an `elsif` branch is evaluated
twice by render_async() and once by render().

IfNode.render_to_output        -> alternative.block.render(...)
IfNode.render_to_output_async  -> alternative.render_async(...)   (the ConditionalBlockNode,
                                  which evaluates its expression again before rendering)

Any drop whose look-up is not idempotent (a one-shot token, a cursor, a counter,
a rate-limited lazily awaited resource) makes the two outputs differ.
"""
import asyncio
import sys
from collections.abc import Mapping

from liquid2 import Environment


class OneShot(Mapping):
    """`ticket.take` is true the first time it is asked for, false afterwards."""

    def __init__(self):
        self.reads = 0

    def __getitem__(self, key):
        if key == "take":
            self.reads += 1
            return self.reads == 1
        raise KeyError(key)

    def __len__(self):
        return 1

    def __iter__(self):
        return iter(["take"])


SOURCE = "{% if false %}a{% elsif ticket.take %}b{% else %}c{% endif %}"
env = Environment()
template = env.from_string(SOURCE)

d1, d2 = OneShot(), OneShot()
sync_out = template.render(ticket=d1)
async_out = asyncio.run(template.render_async(ticket=d2))

print(f"sync : {sync_out!r} (condition read {d1.reads}x)")
print(f"async: {async_out!r} (condition read {d2.reads}x)")

if sync_out == async_out and d1.reads == d2.reads:
    print("PASS")
    sys.exit(0)
print("FAIL")
sys.exit(1)
