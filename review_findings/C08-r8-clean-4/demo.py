"""`{% block name <any token> %}` is accepted; a misspelt or quoted `required` is
dropped silently, so the required-block check is switched off without notice."""
import sys

from liquid2 import Environment
from liquid2.builtin import DictLoader
from liquid2.exceptions import LiquidError

failures = []
for tag in (
    "{% block content requierd %}",  # typo
    "{% block content 'required' %}",  # quoted
    "{% block content Required %}",  # capitalised
    "{% block content 42 %}",
    "{% block content foo.bar %}",
):
    env = Environment(
        loader=DictLoader(
            {"base": f"<{tag}{{% endblock %}}>", "leaf": "{% extends 'base' %}"}
        )
    )
    try:
        got = repr(env.get_template("leaf").render())
    except LiquidError as err:
        got = type(err).__name__
    print(f"{tag:34} -> {got}")
    if not got[0].isupper():  # rendered instead of raising
        failures.append(tag)

if failures:
    print("FAIL")
    sys.exit(1)
print("PASS")
