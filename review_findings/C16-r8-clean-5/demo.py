"""clean-5: under the DEFAULT policy a missing variable does not behave as
nil/empty for the json filter and for the key argument of uniq / compact: the
render fails (with LiquidTypeError) only because the variable is absent."""

import sys

from liquid2 import Environment
from liquid2 import StrictUndefined
from liquid2.exceptions import LiquidError
from liquid2.exceptions import UndefinedError

CASES = [
    ("{{ x | json }}", {}),
    ("{{ arr | uniq: x | join: ',' }}", {"arr": ["a", "b", "a"]}),
    ("{{ arr | compact: x | join: ',' }}", {"arr": ["a", None, "b"]}),
]


def render(env, source, data):
    try:
        return "ok", env.from_string(source).render(**data)
    except UndefinedError:
        return "UndefinedError", ""
    except LiquidError as err:
        return type(err).__name__, str(err).splitlines()[0]


failed = False
lax = Environment()
strict = Environment(undefined=StrictUndefined)
for source, data in CASES:
    with_nil = render(lax, source, {**data, "x": None})
    missing = render(lax, source, data)
    missing_strict = render(strict, source, data)
    print(source)
    print("   default policy, x = nil  :", with_nil)
    print("   default policy, x missing:", missing)
    print("   strict policy,  x missing:", missing_strict)
    if missing[0] != "ok" or missing != with_nil:
        failed = True
    if missing_strict[0] not in ("ok", "UndefinedError"):
        failed = True

if failed:
    print("FAIL: a missing variable is not nil/empty under the default policy")
    sys.exit(1)
print("PASS")
