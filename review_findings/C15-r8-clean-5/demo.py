"""Clean tree: the positional parameters of the translation filters are
written `__plural`, `__count`, `__message_context` inside a class body, so
Python mangles them to `_NGetText__plural` etc. - and they stay
positional-or-keyword. A template can pass them by keyword. The render then
looks up exactly what a positional call would, but extraction (which only
knows positional arguments) reports nothing or the wrong family."""

CASES = [
    ("{{ 'Save' | t: _Translate__message_context: 'menu' }}", {}),
    ("{{ 'Save' | pgettext: _PGetText__message_context: 'menu' }}", {}),
    ("{{ 'One' | ngettext: _NGetText__plural: 'Many', _NGetText__count: 2 }}", {}),
    (
        "{{ 'One' | npgettext: 'cart', _NPGetText__plural: 'Many', _NPGetText__count: 2 }}",
        {},
    ),
]

import sys

from liquid2 import parse
from liquid2.messages import extract_from_template


class Catalog:
    def __init__(self):
        self.lookups = []

    def gettext(self, message):
        self.lookups.append(("gettext", str(message)))
        return message

    def ngettext(self, singular, plural, n):
        self.lookups.append(("ngettext", str(singular), str(plural)))
        return singular if n == 1 else plural

    def pgettext(self, ctx, message):
        self.lookups.append(("pgettext", str(ctx), str(message)))
        return message

    def npgettext(self, ctx, singular, plural, n):
        self.lookups.append(("npgettext", str(ctx), str(singular), str(plural)))
        return singular if n == 1 else plural


def reported(template):
    return [
        (funcname, *(p[0] if isinstance(p, tuple) else p for p in message))
        for _lineno, funcname, message, _comments in extract_from_template(template)
    ]


def main():
    ok = True
    for source, data in CASES:
        template = parse(source)
        catalog = Catalog()
        template.render(translations=catalog, **data)
        extracted = reported(template)
        for lookup in catalog.lookups:
            if lookup not in extracted:
                ok = False
                print(f"{source}\n  render:    {lookup!r}\n  extracted: {extracted!r}")
    print("PASS" if ok else "FAIL")
    return 0 if ok else 1


if __name__ == "__main__":
    sys.exit(main())

