"""Unmodified library: a recursive partial nested in a few ordinary blocks dies
with RecursionError, not ContextDepthError, under the DEFAULT context_depth_limit.

    main: {% for a in (1..1) %}{% if true %}
          {% for b in (1..1) %}{% if true %}
          {% for c in (1..1) %}{% if true %}{% render 'main' %}
          {% endif %}{% endfor %}{% endif %}{% endfor %}{% endif %}{% endfor %}
"""

import asyncio
import sys

from liquid2 import DictLoader
from liquid2 import Environment
from liquid2.exceptions import ContextDepthError
from liquid2.exceptions import LiquidError


def nest(levels, inner):
    pre = "".join("{%% for v%d in (1..1) %%}{%% if true %%}" % i for i in range(levels))
    post = "{% endif %}{% endfor %}" * levels
    return pre + inner + post


def outcome(render):
    try:
        return ("ok", render())
    except ContextDepthError:
        return ("ContextDepthError",)
    except LiquidError as err:
        return (type(err).__name__,)
    except RecursionError:
        return ("RecursionError",)


def main() -> int:
    failures = []

    cases = [
        ("self-render in 3 for+if levels", Environment, {"main": nest(3, "{% render 'main' %}")}),
        ("self-render in 4 for+if levels", Environment, {"main": nest(4, "{% render 'main' %}")}),
        (
            "two mutually recursive partials, 3 and 4 levels",
            Environment,
            {"main": nest(3, "{% render 'other' %}"), "other": nest(4, "{% render 'main' %}")},
        ),
        # control: without the surrounding blocks the guard works
        ("control: plain self-render", Environment, {"main": "{% render 'main' %}"}),
    ]

    for label, env_class, templates in cases:
        env = env_class(loader=DictLoader(templates))
        template = env.get_template("main")
        for mode, render in (
            ("sync", template.render),
            ("async", lambda t=template: asyncio.run(t.render_async())),
        ):
            got = outcome(render)
            if got != ("ContextDepthError",):
                failures.append((label, mode, got[0]))

    if failures:
        print("FAIL")
        for failure in failures:
            print("  ", failure)
        return 1
    print("PASS")
    return 0


if __name__ == "__main__":
    sys.exit(main())
