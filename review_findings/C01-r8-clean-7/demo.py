"""escape and escape_once write an apostrophe as &#x27;, the documentation (and Liquid) say &#39;."""
import sys
from liquid2 import Environment

env = Environment()
CASES = [
    # the two examples of docs/filter_reference.md, verbatim
    (
        """{{ "Have you read 'James & the Giant Peach'?" | escape }}""",
        "Have you read &#39;James &amp; the Giant Peach&#39;?",
    ),
    (
        """{{ "Have you read 'James &amp; the Giant Peach'?" | escape_once }}""",
        "Have you read &#39;James &amp; the Giant Peach&#39;?",
    ),
    ("{{ \"it's\" | escape }}", "it&#39;s"),
]
failed = False
for source, want in CASES:
    got = env.from_string(source).render()
    if got != want:
        failed = True
        print(f"{source!r}: want {want!r}, got {got!r}")
print("FAIL" if failed else "PASS")
sys.exit(1 if failed else 0)
