"""clean-3: with a caching loader, a later get_template() call for the same
name strips the globals off a Template object handed out earlier."""

import sys

from liquid2 import CachingDictLoader
from liquid2 import DictLoader
from liquid2 import Environment
from liquid2 import StrictUndefined
from liquid2.exceptions import UndefinedError

TEMPLATES = {"greeting": "Hello {{ you }}!"}


def run(loader):
    env = Environment(loader=loader, undefined=StrictUndefined)
    mine = env.get_template("greeting", globals={"you": "World"})
    env.get_template("greeting")  # someone else, no globals
    try:
        return mine.render()
    except UndefinedError as err:
        return f"UndefinedError: {str(err).splitlines()[0]}"


reference = run(DictLoader(TEMPLATES))
cached = run(CachingDictLoader(TEMPLATES))
print("DictLoader       :", reference)
print("CachingDictLoader:", cached)
if cached != reference:
    print("FAIL: 'you' was supplied as a template global, yet it is undefined")
    sys.exit(1)
print("PASS")
