"""uniq drops `true` next to 1 (and `false` next to 0): Python ==, not Liquid equality."""
import json, sys
from liquid2 import Environment

env = Environment()
ok = True

def check(src, data, want):
    global ok
    got = json.loads(env.from_string(src).render(**data))
    if got != want:
        ok = False
        print(f"{src} {data} -> {got}, expected {want}")

# Liquid says 1 != true and 0 != false ...
assert env.from_string("{% if 1 == true or 0 == false %}eq{% else %}ne{% endif %}").render() == "ne"
# ... and where/find/has follow that (fix 7f20adc), so no element equals another here:
check("{{ a | uniq | json }}", {"a": [1, True, 0, False]}, [1, True, 0, False])
check("{{ a | uniq | json }}", {"a": [True, 1, False, 0]}, [True, 1, False, 0])
check(
    "{{ a | uniq: 'k' | map: 'id' | json }}",
    {"a": [{"id": 1, "k": 1}, {"id": 2, "k": True}]},
    [1, 2],
)
check(
    "{{ a | uniq: x => x.k | map: 'id' | json }}",
    {"a": [{"id": 1, "k": 1}, {"id": 2, "k": True}]},
    [1, 2],
)
# order dependence: which of the two survives depends on which came first
print("PASS" if ok else "FAIL")
sys.exit(0 if ok else 1)
