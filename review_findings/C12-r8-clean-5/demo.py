"""Unmodified library: a string literal that contains a lone surrogate code
point parses and renders, but str() writes it as a \\uXXXX escape that the
parser rejects."""

import sys

from liquid2 import Environment
from liquid2.exceptions import LiquidError

env = Environment()
failures = []

# Lone surrogates are what open(..., errors="surrogateescape") / os.fsdecode()
# produce for undecodable bytes; the library handles them in output elsewhere
# (fix 0c26948: "output stream limit raised UnicodeEncodeError for lone surrogates").
SOURCES = [
    "{{ 'caf\udce9' | size }}",  # b"caf\xe9" decoded with surrogateescape
    "{% assign s = '\ud800' %}{{ s | size }}",
    "{{ x | append: \"\udfff\" | size }}",
    "{% cycle 'a \udc80': 1, 2 %}",  # a quoted name goes the same way
]

for source in SOURCES:
    original = env.from_string(source)
    expected = original.render(x="q")
    text = str(original)
    try:
        got = env.from_string(text).render(x="q")
    except LiquidError as err:
        failures.append(
            f"{source!r} renders {expected!r}, but str() gives {text!r}: "
            f"{type(err).__name__}: {str(err).splitlines()[0]}"
        )
        continue
    if got != expected:
        failures.append(f"{source!r}: {expected!r} != {got!r}")

if failures:
    print("FAIL")
    for f in failures:
        print("  " + f)
    sys.exit(1)
print("PASS")
