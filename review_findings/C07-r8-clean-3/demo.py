"""`break` / `continue` inside a macro body act on the CALLER's loop."""

import sys

from liquid2 import DictLoader
from liquid2 import Environment
from liquid2.exceptions import LiquidError

env = Environment(loader=DictLoader({"brk": "{% break %}", "cnt": "{% continue %}"}))


def render(source: str) -> str:
    try:
        return env.from_string(source).render()
    except LiquidError as err:
        return f"{type(err).__name__}"


loop = "{% for i in (1..3) %}{{ i }}{% call m %}.{% endfor %}"

with_break = render("{% macro m %}{% break %}{% endmacro %}" + loop)
with_continue = render("{% macro m %}{% continue %}{% endmacro %}" + loop)
harmless = render("{% macro m %}{% endmacro %}" + loop)

# The twin: a rendered template may not do this.
rendered = render("{% for i in (1..3) %}{{ i }}{% render 'brk' %}.{% endfor %}")
# Outside a loop the macro is refused too.
outside = render("{% macro m %}{% break %}{% endmacro %}{% call m %}")

print("macro with break    :", with_break)
print("macro with continue :", with_continue)
print("macro without either:", harmless)
print("render 'brk' in loop:", rendered)
print("call outside a loop :", outside)

ok = {harmless, "LiquidSyntaxError"}
if with_break not in ok or with_continue not in ok:
    print("FAIL: a macro body ended / skipped iterations of the caller's for loop")
    sys.exit(1)

print("PASS")
