"""Unmodified library: the json filter applied to a float literal that is too
big for a double emits `Infinity`, which is not JSON (RFC 8259 has no such
token; JavaScript's JSON.parse and every strict decoder reject it).
"""

import json
import sys

from liquid2 import Environment

env = Environment()


def strict(text: str) -> object:
    def refuse(name: str) -> object:
        raise ValueError(f"{name} is not JSON")

    return json.loads(text, parse_constant=refuse)


failed = False
for source in ["{{ 1.5e300 | json }}", "{{ 1.0e999 | json }}", "{{ -2.5e400 | json }}",
               "{% assign v = 17.0e308 %}{{ v | json: 2 }}"]:
    text = env.from_string(source).render()
    try:
        value = strict(text)
        print(f"{source!r} -> {text!r} decodes to {value!r}")
    except ValueError as err:
        failed = True
        print(f"{source!r} -> {text!r}: {err}")

if failed:
    print("FAIL")
    sys.exit(1)
print("PASS")
