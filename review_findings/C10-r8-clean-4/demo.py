"""clean-4: with a caching loader, the template globals of a Template a caller
already holds are replaced by any later get_template() for the same name.
"""

import sys

from liquid2 import CachingDictLoader
from liquid2 import DictLoader
from liquid2 import Environment

failures = []

for loader_class in (DictLoader, CachingDictLoader):
    env = Environment(loader=loader_class({"t": "{{ x }}"}), globals={"x": "env"})

    mine = env.get_template("t", globals={"x": "mine"})
    first = mine.render()

    # Someone else asks for the same template, with other globals or none.
    env.get_template("t", globals={"x": "theirs"})
    second = mine.render()
    env.get_template("t")
    third = mine.render()

    if (first, second, third) != ("mine", "mine", "mine"):
        failures.append(
            f"{loader_class.__name__}: my template rendered {first!r}, then "
            f"{second!r}, then {third!r}; want 'mine' three times"
        )

if failures:
    print("FAIL")
    for failure in failures:
        print("  " + failure)
    sys.exit(1)
print("PASS")
