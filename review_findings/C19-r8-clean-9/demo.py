"""split/join is not an inverse pair when the string IS the separator; split: 0 splits chars."""
import json, sys
from liquid2 import Environment

env = Environment()
ok = True
rt = env.from_string("{{ s | split: sep | join: sep }}")
sp = env.from_string("{{ s | split: sep | json }}")

for s, sep in [("a,b", ","), (",a", ","), ("a,", ","), (",,", ","), (",", ","), ("ab", "ab"), ("--", "--")]:
    got = rt.render(s=s, sep=sep)
    if got != s:
        ok = False
        print(f"{s!r} | split: {sep!r} | join: {sep!r} -> {got!r} (pieces {sp.render(s=s, sep=sep)})")

# a separator that is the number 0 is "falsy" in Python and is taken for "no separator"
got = json.loads(sp.render(s="a0b0c", sep=0))
want = json.loads(sp.render(s="a1b1c", sep=1))
if got != want:
    ok = False
    print(f"'a0b0c' | split: 0 -> {got}, but 'a1b1c' | split: 1 -> {want}")

print("PASS" if ok else "FAIL")
sys.exit(0 if ok else 1)
