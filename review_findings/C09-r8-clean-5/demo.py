"""CachingDictLoader(auto_reload=True) never notices that a template's source changed."""

import sys

from liquid2 import CachingDictLoader
from liquid2 import Environment


def main() -> int:
    sources = {"t": "old text"}
    env = Environment(loader=CachingDictLoader(sources, auto_reload=True))

    env.get_template("t").render()
    sources["t"] = "new text"
    got = env.get_template("t").render()

    want = (
        Environment(loader=CachingDictLoader(sources, auto_reload=True))
        .get_template("t")
        .render()
    )

    print(f"after the source changed: {got!r}; freshly built objects: {want!r}")
    if got != want:
        print("FAIL")
        return 1
    print("PASS")
    return 0


if __name__ == "__main__":
    sys.exit(main())
