"""Clean tree (minor): a path segment applied to a context value that is a class
calls the class's Python method __class_getitem__ with the template's segment."""

import sys
from typing import Generic
from typing import TypeVar

from liquid2 import Environment

T = TypeVar("T")
CALLS: list[object] = []


class Page(Generic[T]):
    """A generic model class handed to the template, e.g. as `model`."""


class Registry:
    """A class with its own __class_getitem__ (registries, ORMs, pydantic)."""

    _entries = {"admin_token": "S3CR3T"}

    def __class_getitem__(cls, key: object) -> object:
        CALLS.append(key)
        return cls._entries.get(str(key))


def main() -> int:
    env = Environment()
    failures: list[str] = []

    out = env.from_string("{{ model.anything }}|{{ seq.size }}").render(
        model=Page, seq=list
    )
    if out != "|":
        failures.append(f"class objects answered item access: {out!r}")

    out = env.from_string("{{ reg.admin_token }}{{ reg['__class__'] }}").render(
        reg=Registry
    )
    if CALLS:
        failures.append(f"Registry.__class_getitem__ was called with {CALLS}: {out!r}")

    if failures:
        print("FAIL")
        for failure in failures:
            print(" -", failure)
        return 1
    print("PASS")
    return 0


if __name__ == "__main__":
    sys.exit(main())
