"""slice with a negative start that reaches before the beginning returns the wrong items."""
import json, sys
from liquid2 import Environment

env = Environment()
ok = True
a = [1, 2, 3, 4]

def sl(start, length):
    return json.loads(
        env.from_string("{{ a | slice: s, n | json }}").render(a=a, s=start, n=length)
    )

def reference(seq, start, length):
    """Ruby's Array#slice(start, length), which the reference engine uses."""
    if length < 0:
        return []
    if start < 0:
        start += len(seq)
        if start < 0:
            return []  # Ruby returns nil, Liquid renders that as empty
    return seq[start : start + length]

def clamped(seq, start, length):
    """The other possible reading: a start before the beginning means the beginning."""
    if length < 0:
        return []
    start = max(0, start + len(seq)) if start < 0 else start
    return seq[start : start + length]

for start in range(-8, 6):
    for length in range(0, 9):
        got = sl(start, length)
        ruby, clamp = reference(a, start, length), clamped(a, start, length)
        if got not in (ruby, clamp):
            ok = False
            print(
                f"[1,2,3,4] | slice: {start}, {length} -> {got}, "
                f"expected {ruby} (reference engine) or {clamp} (start clamped to 0)"
            )

got = env.from_string("{{ 'abcd' | slice: -6, 3 }}").render()
if got not in ("", "abc"):
    ok = False
    print(f"'abcd' | slice: -6, 3 -> {got!r}, expected '' or 'abc'")

# Independent of the reference: whatever "start before the beginning" means, the result
# can not be a run that neither starts at the beginning nor has the requested length.
big = 10**23
got = sl(-big, big)
if got not in ([], a):
    ok = False
    print(f"[1,2,3,4] | slice: -1e23, 1e23 -> {got}")

print("PASS" if ok else "FAIL")
sys.exit(0 if ok else 1)
