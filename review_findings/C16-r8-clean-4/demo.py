"""clean-4: a macro can not call another macro (or itself): inside a macro
body every macro of the template is undefined."""

import sys

from liquid2 import Environment
from liquid2 import StrictUndefined
from liquid2.exceptions import UndefinedError

SOURCE = (
    "{% macro cell x %}<td>{{ x }}</td>{% endmacro %}"
    "{% macro row a, b %}<tr>{% call cell a %}{% call cell b %}</tr>{% endmacro %}"
    "{% call row 1, 2 %}"
)
EXPECT = "<tr><td>1</td><td>2</td></tr>"

failed = False
for policy in (None, StrictUndefined):
    kwargs = {"undefined": policy} if policy else {}
    template = Environment(**kwargs).from_string(SOURCE)
    try:
        got = template.render()
    except UndefinedError as err:
        got = f"UndefinedError: {str(err).splitlines()[0]}"
    print((policy.__name__ if policy else "Undefined") + ":", repr(got))
    if got != EXPECT:
        failed = True

if failed:
    print("FAIL: macro 'cell' is defined in this template, yet it is undefined")
    sys.exit(1)
print("PASS")
