"""clean-2: `forloop.parentloop` of a loop inside a {% block %} is lost as soon
as the template is rendered through an {% extends %} chain."""

import sys

from liquid2 import DictLoader
from liquid2 import Environment
from liquid2 import StrictUndefined
from liquid2.exceptions import UndefinedError

BASE = (
    "{% for row in (1..2) %}"
    "{% block cells %}"
    "{% for col in (1..2) %}{{ forloop.parentloop.index }}.{{ forloop.index }} {% endfor %}"
    "{% endblock %}"
    "{% endfor %}"
)
TEMPLATES = {"base": BASE, "leaf": "{% extends 'base' %}"}

failed = False
for policy in (None, StrictUndefined):
    kwargs = {"undefined": policy} if policy else {}
    env = Environment(loader=DictLoader(TEMPLATES), **kwargs)
    direct = env.get_template("base").render()
    try:
        inherited = env.get_template("leaf").render()
    except UndefinedError as err:
        inherited = f"UndefinedError: {str(err).splitlines()[0]}"
    name = policy.__name__ if policy else "Undefined"
    print(f"{name}: base rendered directly  -> {direct!r}")
    print(f"{name}: base through 'leaf'     -> {inherited!r}")
    if inherited != direct:
        failed = True

if failed:
    print("FAIL: nothing is missing from the data, yet parentloop is undefined")
    sys.exit(1)
print("PASS")
