"""Unmodified library: str() of a template writes a quoted path segment that
starts with Unicode whitespace (U+00A0, U+2028, U+0085, U+3000 ...) as a bare
word. At the start of an output statement the lexer's `{{\\s*` swallows that
character, so the reparsed template names a different variable (or does not
parse at all).
"""

import sys

from liquid2 import Environment

env = Environment()

NBSP = chr(0xA0)
LSEP = chr(0x2028)
DATA = {NBSP + "x": "right", "x": "WRONG", LSEP: {"a": "right"}}

CASES = [
    '{{ ["\\u00a0x"] }}',  # escaped
    "{{ ['" + NBSP + "x'] }}",  # raw character
    '{{ ["\\u2028"].a }}',
    # controls: not the first token of an output statement
    '{{ "" | default: ["\\u00a0x"] }}',
    '{% echo ["\\u00a0x"] %}',
]

failed = False
for source in CASES:
    template = env.from_string(source)
    first = template.render(**DATA)
    text = str(template)
    try:
        second = env.from_string(text).render(**DATA)
    except Exception as err:  # noqa: BLE001
        second = f"{err.__class__.__name__}: {str(err).splitlines()[0]}"
    if first != "right" or second != first:
        failed = True
        print(
            f"{ascii(source)} renders {first!r}; str() is {ascii(text)}, "
            f"which renders {second!r}"
        )

if failed:
    print("FAIL")
    sys.exit(1)
print("PASS")
