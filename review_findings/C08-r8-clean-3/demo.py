"""Duplicate block names are only rejected when the template is part of a chain of
two or more templates; rendered on its own the template is accepted."""
import asyncio
import sys

from liquid2 import Environment
from liquid2.builtin import DictLoader
from liquid2.exceptions import TemplateInheritanceError

TEMPLATES = {
    "dup": "{% block a %}1{% endblock %}{% block a %}2{% endblock %}",
    "dup_nested": "{% block a %}1{% block a %}2{% endblock %}{% endblock %}",
    "child": "{% extends 'dup' %}",
    "page": "{% include 'dup' %}",
}
env = Environment(loader=DictLoader(TEMPLATES))
failures = []


def outcome(name, mode):
    try:
        t = env.get_template(name)
        return repr(t.render() if mode == "sync" else asyncio.run(t.render_async()))
    except TemplateInheritanceError:
        return "TemplateInheritanceError"
    except Exception as err:  # noqa: BLE001
        return type(err).__name__


for name in ("child", "dup", "dup_nested", "page"):
    for mode in ("sync", "async"):
        got = outcome(name, mode)
        print(f"{name:10} {mode:5} -> {got}")
        if got != "TemplateInheritanceError":
            failures.append(f"{name} ({mode}) was not rejected: {got}")

if failures:
    print("FAIL")
    sys.exit(1)
print("PASS")
