"""A block whose (most derived) body is white space only is replaced by nothing."""
import asyncio
import sys

from liquid2 import Environment
from liquid2.builtin import DictLoader

TEMPLATES = {
    "base": "<b>a</b>{% block sep %}, {% endblock %}<b>b</b>",
    "leaf": "{% extends 'base' %}{% block sep %} {% endblock %}",
    "base_nl": "line 1{% block gap %}\n{% endblock %}line 2",
    "leaf_nl": "{% extends 'base_nl' %}",
    "super": "{% extends 'base_nl' %}{% block gap %}[{{ block.super }}]{% endblock %}",
}
CASES = [
    ("leaf", "<b>a</b> <b>b</b>"),
    ("base_nl", "line 1\nline 2"),
    ("leaf_nl", "line 1\nline 2"),
    ("super", "line 1[\n]line 2"),
]
env = Environment(loader=DictLoader(TEMPLATES))
failures = []
for name, want in CASES:
    for mode in ("sync", "async"):
        t = env.get_template(name)
        got = t.render() if mode == "sync" else asyncio.run(t.render_async())
        print(f"{name:8} {mode:5} want {want!r:24} got {got!r}")
        if got != want:
            failures.append((name, mode))
if failures:
    print("FAIL")
    sys.exit(1)
print("PASS")
