"""Clean tree: one caching loader shared by two environments defeats auto_escape.

A loader is not bound to an environment (`loader.load(env, name, ...)` takes the
environment per call), and a plain DictLoader / FileSystemLoader works fine when
shared. The caching loaders key their cache by template name only, so the second
environment is handed a Template that was parsed by, and is bound to, the first.
"""
import sys

from liquid2 import CachingDictLoader
from liquid2 import DictLoader
from liquid2 import Environment

PARTIALS = {"card": "[{{ user.name }}]"}
DATA = {"user": {"name": "<script>alert('x')</script>&\""}}


def run(loader_class: type) -> list[str]:
    loader = loader_class(PARTIALS)
    text_env = Environment(loader=loader)  # plain text mails, no escaping
    html_env = Environment(loader=loader, auto_escape=True)  # web pages

    # The plain text environment happens to use the partial first.
    text_env.get_template("card").render(**DATA)

    return [
        html_env.get_template("card").render(**DATA),
        html_env.from_string("{% render 'card', user: user %}").render(**DATA),
        html_env.from_string(
            "{% capture c %}{% render 'card', user: user %}{% endcapture %}{{ c }}"
        ).render(**DATA),
    ]


bad = []
for loader_class in (DictLoader, CachingDictLoader):
    for out in run(loader_class):
        if any(ch in out for ch in "<>'\""):
            bad.append((loader_class.__name__, out))

if bad:
    for name, out in bad:
        print(f"{name}: {out!r}")
    print("FAIL")
    sys.exit(1)

print("PASS")
