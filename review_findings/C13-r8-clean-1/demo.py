"""C13, clean tree: a template name that is too long for the file system makes
the file-system and package loaders raise OSError (ENAMETOOLONG) instead of
TemplateNotFoundError - from get_template, from include/render/extends in an
untrusted template, sync and async - and stops a ChoiceLoader from trying its
remaining loaders."""

import asyncio
import sys
import tempfile
from pathlib import Path

tmp = Path(tempfile.mkdtemp()).resolve()
root = tmp / "templates"
root.mkdir()
(root / "index.liquid").write_text("hello")
pkg = tmp / "demo_c13_long_pkg"
(pkg / "templates").mkdir(parents=True)
(pkg / "__init__.py").write_text("")
(pkg / "templates" / "index.liquid").write_text("hello")
sys.path.insert(0, str(tmp))

from liquid2 import CachingFileSystemLoader  # noqa: E402
from liquid2 import ChoiceLoader  # noqa: E402
from liquid2 import DictLoader  # noqa: E402
from liquid2 import Environment  # noqa: E402
from liquid2 import FileSystemLoader  # noqa: E402
from liquid2 import PackageLoader  # noqa: E402
from liquid2.exceptions import LiquidError  # noqa: E402
from liquid2.exceptions import TemplateNotFoundError  # noqa: E402

LONG = "x" * 256  # one component longer than NAME_MAX (255)
ALMOST = "x" * 250  # fine as given, too long once the default extension is added
DEEP = "a/" * 2100 + "a"  # every component fine, whole path longer than PATH_MAX

failures: list[str] = []


def expect_not_found(label: str, fn) -> None:  # noqa: ANN001
    try:
        out = fn()
    except TemplateNotFoundError:
        return
    except LiquidError as err:
        failures.append(f"{label}: {type(err).__name__}")
    except Exception as err:  # noqa: BLE001
        failures.append(f"{label}: {type(err).__name__}: {str(err)[:40]}...")
    else:
        failures.append(f"{label}: served {out!r}")


loaders = {
    "FileSystemLoader": lambda: FileSystemLoader(root, ext=".liquid"),
    "CachingFileSystemLoader": lambda: CachingFileSystemLoader(root, ext=".liquid"),
    "PackageLoader": lambda: PackageLoader("demo_c13_long_pkg"),
}

for label, make in loaders.items():
    env = Environment(loader=make())
    assert env.get_template("index").render() == "hello"
    for what, name in (("256", LONG), ("250+ext", ALMOST), ("deep", DEEP)):
        expect_not_found(f"{label} get_template({what})", lambda: env.get_template(name))
        expect_not_found(
            f"{label} get_template_async({what})",
            lambda: asyncio.run(env.get_template_async(name)),
        )
        for tag in ("include", "render", "extends"):
            expect_not_found(
                f"{label} {tag} {what}",
                lambda: env.from_string("{% " + tag + " '" + name + "' %}").render(),
            )
            expect_not_found(
                f"{label} {tag} {what} async",
                lambda: asyncio.run(
                    env.from_string("{% " + tag + " '" + name + "' %}").render_async()
                ),
            )

# The documented ChoiceLoader set-up: file system first, a DictLoader as fall-back.
env = Environment(
    loader=ChoiceLoader([FileSystemLoader(root), DictLoader({LONG: "from dict"})])
)
try:
    if env.get_template(LONG).render() != "from dict":
        failures.append("ChoiceLoader: wrong template")
except Exception as err:  # noqa: BLE001
    failures.append(
        f"ChoiceLoader fall-back not reached: {type(err).__name__}: {str(err)[:40]}..."
    )

if failures:
    print("FAIL")
    for f in failures:
        print("  " + f)
    sys.exit(1)

print("PASS")
