"""'expected a primitive expression, found X' points at the token AFTER X (or nowhere)."""
import sys

from liquid2 import Environment
from liquid2.exceptions import LiquidSyntaxError

env = Environment()
failures = []
for source, culprit in (
    ("{% if a == , b %}x{% endif %}", ","),
    ("{{ a if , else c }}", ","),
    ("{% if a == | %}x{% endif %}", "|"),
):
    try:
        env.from_string(source)
    except LiquidSyntaxError as err:
        ctx = err.context()
        if ctx is None:
            failures.append(f"{source!r}: {err.message!r} carries no position at all")
            continue
        at = source[err.token.start : err.token.stop]
        if at != culprit:
            failures.append(
                f"{source!r}: {err.message!r} points at {at!r} "
                f"(offset {err.token.start}), the {culprit!r} is at {source.index(culprit)}"
            )
    else:
        failures.append(f"{source!r}: expected a syntax error")
if failures:
    print("FAIL")
    for f in failures:
        print("  ", f)
    sys.exit(1)
print("PASS")
