"""Unmodified library: loops (and assigns) reached through `block.super` are
not nested in the loops (locals) of the overriding block.

    base: {% block b %}{% for j in (1..10) %}x{% endfor %}{% endblock %}
    main: {% extends 'base' %}
          {% block b %}{% for i in (1..10) %}{{ block.super }}{% endfor %}{% endblock %}

The inner loop body runs 100 times under loop_iteration_limit = 50.
"""

import sys

from liquid2 import DictLoader
from liquid2 import Environment
from liquid2.exceptions import LiquidError
from liquid2.exceptions import LocalNamespaceLimitError
from liquid2.exceptions import LoopIterationLimitError


def outcome(env, name, **data):
    try:
        return ("ok", env.get_template(name).render(**data))
    except LiquidError as err:
        return (type(err).__name__,)


def main() -> int:
    failures = []

    class LoopEnv(Environment):
        loop_iteration_limit = 50

    templates = {
        "base": "{% block b %}{% for j in (1..10) %}x{% endfor %}{% endblock %}",
        "main": "{% extends 'base' %}{% block b %}"
        "{% for i in (1..10) %}{{ block.super }}{% endfor %}{% endblock %}",
        # control: the same nest written without block.super
        "control": "{% extends 'base' %}{% block b %}"
        "{% for i in (1..10) %}{% for j in (1..10) %}x{% endfor %}{% endfor %}"
        "{% endblock %}",
    }
    env = LoopEnv(loader=DictLoader(templates))

    control = outcome(env, "control")
    assert control == ("LoopIterationLimitError",), control

    got = outcome(env, "main")
    if got != ("LoopIterationLimitError",):
        failures.append(
            f"loop limit 50: {len(got[1])} iterations of the inner loop body ran ({got[0]})"
        )

    # Same mechanism, local namespace limit: the overriding block's locals are
    # not carried into the parent block rendered by block.super.
    big = "a" * 100
    size = sys.getsizeof(big)

    class NamespaceEnv(Environment):
        local_namespace_limit = size + 10  # room for one copy, not for two

    templates = {
        "base": "{% block b %}{% assign q = s %}{% endblock %}",
        "main": "{% extends 'base' %}{% block b %}"
        "{% assign p = s %}{{ block.super }}{% endblock %}",
        # control: two live copies in nested scopes, through a partial
        "control": "{% assign p = s %}{% render 'part', s: s %}",
        "part": "{% assign q = s %}",
    }
    env = NamespaceEnv(loader=DictLoader(templates))
    control = outcome(env, "control", s=big)
    assert control == ("LocalNamespaceLimitError",), control
    got = outcome(env, "main", s=big)
    if got != ("LocalNamespaceLimitError",):
        failures.append(f"namespace limit {size + 10}: two locals of {size} bytes live ({got[0]})")

    if failures:
        print("FAIL")
        for failure in failures:
            print("  ", failure)
        return 1
    print("PASS")
    return 0


if __name__ == "__main__":
    sys.exit(main())
