"""C03 on the UNMODIFIED tree: a loader written exactly as docs/loading_templates.md
shows (subclass CachingFileSystemLoader / FileSystemLoader, override get_source()
only) is honoured by render() / get_template() and silently bypassed by
render_async() / get_template_async().

FileSystemLoader.get_source_async() (and PackageLoader.get_source_async()) read the
file themselves instead of delegating to self.get_source(), so an override of
get_source() is never reached on the async path.
"""
import asyncio
import re
import sys
import tempfile
from pathlib import Path

from liquid2 import CachingFileSystemLoader
from liquid2 import Environment
from liquid2 import RenderContext
from liquid2 import TemplateSource
from liquid2.exceptions import LiquidError


# --- verbatim from docs/loading_templates.md, "Load context" -----------------
class SnippetsFileSystemLoader(CachingFileSystemLoader):
    def get_source(
        self,
        env: Environment,
        template_name: str,
        *,
        context: RenderContext | None = None,
        **kwargs: object,
    ) -> TemplateSource:
        if kwargs.get("tag") in ("include", "render"):
            snippet = Path("snippets").joinpath(template_name)
            return super().get_source(
                env, template_name=str(snippet), context=context, **kwargs
            )
        return super().get_source(
            env, template_name=template_name, context=context, **kwargs
        )


# --- docs/loading_templates.md, "Matter" (yaml replaced by a one line parser) --
RE_FRONT_MATTER = re.compile(r"\s*---\s*(.*?)\s*---\s*", re.MULTILINE | re.DOTALL)


class FrontMatterLoader(CachingFileSystemLoader):
    def get_source(
        self,
        env: Environment,
        template_name: str,
        *,
        context: RenderContext | None = None,
        **kwargs: object,
    ) -> TemplateSource:
        source, filename, uptodate, matter = super().get_source(env, template_name)
        match = RE_FRONT_MATTER.search(source)
        if match:
            matter = dict(
                line.split(": ", 1) for line in match.group(1).splitlines() if line
            )
            source = source[match.end() :]
        return TemplateSource(source, filename, uptodate, matter)


def outcome(fn):
    try:
        return ("ok", fn())
    except LiquidError as err:
        return ("error", type(err).__name__, err.template_name)


failed = False

with tempfile.TemporaryDirectory() as tmp:
    root = Path(tmp)
    (root / "snippets").mkdir()
    (root / "index.html").write_text("{% include 'card.html' %}|{% render 'card.html' %}")
    (root / "card.html").write_text("TOP-LEVEL PAGE called card")
    (root / "snippets" / "card.html").write_text("snippet card")
    (root / "post.html").write_text("---\ntitle: Hello\n---\n<h1>{{ title }}</h1>")

    # 1. the snippets convention
    sync_env = Environment(loader=SnippetsFileSystemLoader(root))
    async_env = Environment(loader=SnippetsFileSystemLoader(root))
    a = outcome(lambda: sync_env.get_template("index.html").render())

    async def go1():
        t = await async_env.get_template_async("index.html")
        return await t.render_async()

    b = outcome(lambda: asyncio.run(go1()))
    print("snippets     sync :", a)
    print("snippets     async:", b)
    failed |= a != b

    # 2. front matter
    sync_env = Environment(loader=FrontMatterLoader(root))
    async_env = Environment(loader=FrontMatterLoader(root))
    a = outcome(lambda: sync_env.get_template("post.html").render())

    async def go2():
        t = await async_env.get_template_async("post.html")
        return await t.render_async()

    b = outcome(lambda: asyncio.run(go2()))
    print("front matter sync :", a)
    print("front matter async:", b)
    failed |= a != b

if failed:
    print("FAIL")
    sys.exit(1)
print("PASS")
sys.exit(0)
