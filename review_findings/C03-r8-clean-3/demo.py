"""C03 on the UNMODIFIED tree: data that is a dict subclass with a permissive
`__getattr__` (the ubiquitous "attribute dict" idiom) resolves with render() and
silently turns into undefined with render_async().

RenderContext.get_item_async() probes every object on a path with
`hasattr(obj, "__getitem_async__")`. On an attribute dict the probe reaches the
instance's `__getattr__`:
  * `__getattr__ = dict.get`          -> returns None, so hasattr() is True and the
                                         library awaits `None(key)`: TypeError
  * `__getattr__ = dict.__getitem__`  -> raises KeyError('__getitem_async__'), which
                                         hasattr() does not swallow
Both exceptions are caught by get_async() as "no such key" and the path becomes
Undefined. The sync path only ever does `obj[key]`.
"""
import asyncio
import sys

from liquid2 import Environment


class DotDict(dict):
    """d.key for d['key'], None when missing."""

    __getattr__ = dict.get


class AttrDict(dict):
    """d.key for d['key'], KeyError when missing."""

    __getattr__ = dict.__getitem__


SOURCES = [
    "{{ user.name }}",
    "{{ user['name'] }} / {{ user.address.city }}",
    "{% for tag in user.tags %}#{{ tag }} {% endfor %}",
    "{{ names[user.rank] }}",
]

env = Environment()
failed = False
for cls in (DotDict, AttrDict):
    data = {
        "user": cls(name="Ada", rank=1, tags=["x", "y"], address=cls(city="London")),
        "names": ["zero", "one", "two"],
    }
    for source in SOURCES:
        template = env.from_string(source)
        sync_out = template.render(**data)
        async_out = asyncio.run(template.render_async(**data))
        same = sync_out == async_out
        failed |= not same
        print(f"{cls.__name__:8} {source!r:52} sync={sync_out!r} async={async_out!r}")

if failed:
    print("FAIL")
    sys.exit(1)
print("PASS")
sys.exit(0)
