"""Clean tree: an empty {% translate %} tag asks the catalog for the message
"" (with gettext or pgettext), which extraction does not report. With a real
GNU catalog the lookup of "" returns the catalog header, which is rendered."""

import gettext
import io
import sys

from babel.messages import Catalog as BabelCatalog
from babel.messages.mofile import write_mo

from liquid2 import parse
from liquid2.messages import extract_from_template


class Recorder:
    def __init__(self):
        self.lookups = []

    def gettext(self, message):
        self.lookups.append(("gettext", str(message)))
        return message

    def ngettext(self, singular, plural, n):
        self.lookups.append(("ngettext", str(singular), str(plural)))
        return singular if n == 1 else plural

    def pgettext(self, ctx, message):
        self.lookups.append(("pgettext", str(ctx), str(message)))
        return message

    def npgettext(self, ctx, singular, plural, n):
        self.lookups.append(("npgettext", str(ctx), str(singular), str(plural)))
        return singular if n == 1 else plural


def reported(template):
    return [
        (funcname, *(p[0] if isinstance(p, tuple) else p for p in message))
        for _lineno, funcname, message, _comments in extract_from_template(template)
    ]


SOURCES = [
    "{% translate %}{% endtranslate %}",
    "{% translate context: 'menu' %}{% endtranslate %}",
    "{% liquid\n  translate\n  endtranslate\n%}",
    # For comparison, this one *is* reported (as gettext("")):
    "{% translate %} {% endtranslate %}",
]


def main():
    ok = True
    for source in SOURCES:
        template = parse(source)
        recorder = Recorder()
        template.render(translations=recorder)
        extracted = reported(template)
        print(f"{source!r}: lookups {recorder.lookups!r}, extracted {extracted!r}")
        for lookup in recorder.lookups:
            if lookup not in extracted:
                ok = False
                print(f"  not reported: {lookup!r}")

    # What that lookup means with a real catalog.
    babel_catalog = BabelCatalog(locale="de", project="Shop", version="1.0")
    babel_catalog.add("Hello", "Hallo")
    buf = io.BytesIO()
    write_mo(buf, babel_catalog)
    buf.seek(0)
    translations = gettext.GNUTranslations(buf)
    out = parse("[{% translate %}{% endtranslate %}]").render(translations=translations)
    if out != "[]":
        ok = False
        print("rendered with a GNUTranslations catalog:", repr(out[:70] + "..."))

    print("PASS" if ok else "FAIL")
    return 0 if ok else 1


if __name__ == "__main__":
    sys.exit(main())
