"""Unmodified library: number literals written as arguments of two different
`cycle` tags are conflated - the second tag never outputs the number written.

Cycle tags are told apart by hash((group name, items)) alone, and CPython
hashes -1 and -2, 1 and 1.0 and true, and n and n + (2**61 - 1) to the same
value, so distinct literals collide deterministically.
"""

import asyncio
import sys

from liquid2 import Environment

env = Environment()

CASES = [
    # two different tags, each rendered once: each must output its first item
    ("{% cycle -1, 5 %}{% cycle -2, 5 %}", "-1-2"),
    ("{% cycle 1, 2 %} {% cycle 1.0, 2.0 %}", "1 1.0"),
    ("{% cycle 1, 'x' %} {% cycle 2305843009213693952, 'x' %}", "1 2305843009213693952"),
    ("{% cycle 0, 'x' %} {% cycle 2305843009213693951, 'x' %}", "0 2305843009213693951"),
    ("{% cycle true, 2 %} {% cycle 1, 2 %}", "true 1"),
    # control: identical tags do share their state
    ("{% cycle 1, 2 %}{% cycle 1, 2 %}", "12"),
]

failed = False
for source, want in CASES:
    template = env.from_string(source)
    got = template.render()
    got_async = asyncio.run(template.render_async())
    if got != want or got_async != want:
        failed = True
        print(f"{source!r}: expected {want!r}, got {got!r} (async {got_async!r})")

if failed:
    print("FAIL")
    sys.exit(1)
print("PASS")
