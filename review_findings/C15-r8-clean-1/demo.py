"""Clean tree: extract_from_templates() raises KeyError for a `keywords`
mapping that names only the filters and tags the templates actually use."""

import sys

from liquid2 import Environment
from liquid2 import parse
from liquid2.builtin import GetText
from liquid2.messages import extract_from_template
from liquid2.messages import extract_from_templates


def main():
    ok = True

    # 1. The stock `t` filter and `translate` tag, and a keywords mapping
    #    that lists exactly those two names.
    template = parse(
        "{{ 'Hello' | t }}\n{% translate %}Goodbye{% endtranslate %}\n",
        name="a.liquid",
    )
    keywords = {"t": None, "translate": None}
    print("extract_from_template:", list(extract_from_template(template, keywords)))
    try:
        catalog = extract_from_templates(template, keywords=keywords)
        print("catalog:", sorted(m.id for m in catalog if m.id))
    except Exception as err:  # noqa: BLE001
        ok = False
        print(f"extract_from_templates(keywords={keywords!r}) raised {err!r}")

    # 2. "possibly using more user friendly filter names" (docs/babel.md).
    env = Environment()
    env.filters["_"] = GetText()
    template = env.from_string("{{ 'Hello' | _ }}", name="b.liquid")
    try:
        catalog = extract_from_templates(template, keywords={"_": None})
        print("catalog:", sorted(m.id for m in catalog if m.id))
    except Exception as err:  # noqa: BLE001
        ok = False
        print(f"extract_from_templates(keywords={{'_': None}}) raised {err!r}")

    print("PASS" if ok else "FAIL")
    return 0 if ok else 1


if __name__ == "__main__":
    sys.exit(main())
