"""The span of the last line statement of a liquid tag swallows the closing `%}`."""

import sys

from liquid2 import Environment

env = Environment()
SOURCE = "{% liquid assign x = 1\n echo x -%}\n{% liquid echo y %}"
template = env.from_string(SOURCE)
analysis = template.analyze()

bad = []
for name, spans in analysis.tags.items():
    for span in spans:
        text = SOURCE[span.start : span.end]
        print(f"{name:7} {text!r}")
        if not text.startswith("{%") and "%}" in text:
            bad.append((name, text))

if bad:
    print(f"FAIL: line statement spans run into the enclosing tag's delimiter: {bad}")
    sys.exit(1)

print("PASS")
