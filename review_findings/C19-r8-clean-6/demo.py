"""escape_once rewrites (decodes) entities that are already in the input."""
import sys
from liquid2 import Environment

env = Environment()
ok = True

def check(src, want, **data):
    global ok
    got = env.from_string(src).render(**data)
    if got != want:
        ok = False
        print(f"{src} {data} -> {got!r}, expected {want!r}")

# documented: "... while preserving existing HTML escape sequences"
check("{{ s | escape_once }}", "&nbsp;&copy; &lt;b&gt;", s="&nbsp;&copy; <b>")
check("{{ s | escape_once }}", "1 &lt; 2 &amp; 3 &mdash; ok", s="1 < 2 &amp; 3 &mdash; ok")
# not an entity at all (no such name), yet it is "decoded" (legacy prefix match of &not)
check("{{ s | escape_once }}", "a=1&amp;notit;=2", s="a=1&notit;=2")
# for already escaped text escape_once is the identity
once = env.from_string("{{ s | escape }}").render(s='<a href="?x=1&y=2">&nbsp;</a>')
check("{{ s | escape_once }}", once, s=once)
esc = "caf&eacute; &amp; cr&egrave;me"
check("{{ s | escape_once }}", esc, s=esc)

print("PASS" if ok else "FAIL")
sys.exit(0 if ok else 1)
