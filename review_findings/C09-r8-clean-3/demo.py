"""The documented snippets loader (docs/loading_templates.md, "Load context") serves a snippet as a page."""

from __future__ import annotations

import shutil
import sys
import tempfile
from pathlib import Path

from liquid2 import CachingFileSystemLoader
from liquid2 import Environment
from liquid2 import RenderContext
from liquid2 import TemplateSource


class SnippetsFileSystemLoader(CachingFileSystemLoader):  # verbatim from the docs
    def get_source(
        self,
        env: Environment,
        template_name: str,
        *,
        context: RenderContext | None = None,
        **kwargs: object,
    ) -> TemplateSource:
        if kwargs.get("tag") in ("include", "render"):
            snippet = Path("snippets").joinpath(template_name)
            return super().get_source(
                env, template_name=str(snippet), context=context, **kwargs
            )
        return super().get_source(
            env, template_name=template_name, context=context, **kwargs
        )


def main() -> int:
    root = Path(tempfile.mkdtemp(prefix="c09_clean3_", dir=Path(__file__).parent))
    try:
        (root / "snippets").mkdir()
        (root / "header").write_text("the header PAGE")
        (root / "snippets" / "header").write_text("the header snippet")
        (root / "index").write_text("{% render 'header' %}")

        env = Environment(loader=SnippetsFileSystemLoader(root))
        first = env.get_template("index").render()
        got = env.get_template("header").render()

        want = (
            Environment(loader=SnippetsFileSystemLoader(root))
            .get_template("header")
            .render()
        )

        print(f"index renders {first!r}")
        print(f"then get_template('header') renders {got!r}; fresh objects give {want!r}")
        if got != want:
            print("FAIL")
            return 1
        print("PASS")
        return 0
    finally:
        shutil.rmtree(root, ignore_errors=True)


if __name__ == "__main__":
    sys.exit(main())
