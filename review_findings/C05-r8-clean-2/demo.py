"""Clean tree: the `default` filter reads the Python attribute
`force_liquid_default` of its input and its output depends on the value."""

import sys

from liquid2 import Environment

READS: list[str] = []


class Account:
    """A plain instance, not subscriptable. Liquid truthy, not empty."""

    def __init__(self, flag: object) -> None:
        self._flag = flag

    @property
    def force_liquid_default(self) -> object:
        READS.append("force_liquid_default")
        return self._flag

    def __str__(self) -> str:
        return "Account"


class Drop(dict):  # type: ignore[type-arg]
    """A hash exposing `title` only. The flag is a Python attribute."""

    force_liquid_default = True


def main() -> int:
    env = Environment()
    failures: list[str] = []
    template = env.from_string("{{ x | default: 'DEFAULT' }}")

    on = template.render(x=Account(True))
    off = template.render(x=Account(False))
    if READS:
        failures.append(f"default read x.{READS[0]} ({len(READS)} reads)")
    if on != off:
        failures.append(
            f"output depends on a Python attribute: {on!r} (truthy) vs {off!r} (falsy)"
        )

    got = template.render(x=Drop(title="Hat"))
    if got != str(Drop(title="Hat")):
        failures.append(f"a non-empty hash was replaced by the default: {got!r}")

    if failures:
        print("FAIL")
        for failure in failures:
            print(" -", failure)
        return 1
    print("PASS")
    return 0


if __name__ == "__main__":
    sys.exit(main())
