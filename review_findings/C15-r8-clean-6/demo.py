"""Clean tree: a translator comment written directly in front of a
{% translate %} tag is attached to a message nested in the tag's arguments
instead of the tag's own message."""

import sys

from liquid2 import parse
from liquid2.messages import extract_from_template

SOURCE = (
    "{% # Translators: greeting on the start page %}\n"
    """{% translate you: "${'friend' | t}" %}Hello, {{ you }}!{% endtranslate %}\n"""
)


def main():
    messages = list(extract_from_template(parse(SOURCE)))
    for message in messages:
        print(message)

    by_id = {m.message[-1]: m.comments for m in messages}
    ok = (
        by_id.get("Hello, %(you)s!") == ["Translators: greeting on the start page"]
        and by_id.get("friend") == []
    )
    print("PASS" if ok else "FAIL")
    return 0 if ok else 1


if __name__ == "__main__":
    sys.exit(main())
