"""Rendering a base template directly and through a child that overrides nothing
gives different pages when a block assigns a variable the page uses later."""
import asyncio
import sys

from liquid2 import Environment
from liquid2.builtin import DictLoader

TEMPLATES = {
    "base": (
        "{% block head %}{% assign title = 'Home' %}<title>{{ title }}</title>{% endblock %}"
        "<h1>{{ title }}</h1>"
    ),
    "child": "{% extends 'base' %}",
    "child_super": "{% extends 'base' %}{% block head %}{{ block.super }}{% endblock %}",
}
env = Environment(loader=DictLoader(TEMPLATES))
out = {}
for name in TEMPLATES:
    for mode in ("sync", "async"):
        t = env.get_template(name)
        out[name, mode] = t.render() if mode == "sync" else asyncio.run(t.render_async())
        print(f"{name:12} {mode:5} {out[name, mode]!r}")

if len(set(out.values())) != 1:
    print("FAIL")
    sys.exit(1)
print("PASS")
