"""Math filters and sum treat a decimal.Decimal input as 0."""
import sys
from decimal import Decimal
from liquid2 import Environment

env = Environment()
ok = True

def check(src, want, **data):
    global ok
    got = env.from_string(src).render(**data)
    if got != want:
        ok = False
        print(f"{src} {data} -> {got!r}, expected {want!r}")

d = Decimal("1.5")
# The engine knows Decimal is a number: it prints, compares, sorts and defaults it as one.
assert env.from_string("{{ d }}|{% if d > 1 and d < 2 %}y{% endif %}").render(d=d) == "1.5|y"
assert env.from_string("{{ a | sort_numeric | join: ',' }}").render(a=[d, 1, 2]) == "1,1.5,2"

check("{{ d | plus: 1 }}", "2.5", d=d)
check("{{ d | times: 2 }}", "3.0", d=d)
check("{{ 1 | plus: d }}", "2.5", d=d)
check("{{ d | abs }}", "1.5", d=Decimal("-1.5"))
check("{{ d | round }}", "2", d=Decimal("1.7"))
check("{{ d | at_least: 1 }}", "1.5", d=d)
check("{{ a | sum }}", "3.5", a=[d, 2])
check("{{ a | sum: 'p' }}", "3.5", a=[{"p": d}, {"p": 2}])

print("PASS" if ok else "FAIL")
sys.exit(0 if ok else 1)
