"""A macro body is rendered in an isolated scope but analysed in the enclosing one."""

import sys
from collections.abc import Mapping
from io import StringIO

from liquid2 import DictLoader
from liquid2 import Environment
from liquid2 import RenderContext


class Recording(Mapping):
    def __init__(self, data):
        self.data = data
        self.seen = []

    def __getitem__(self, key):
        self.seen.append(key)
        return self.data[key]

    def __iter__(self):
        return iter(self.data)

    def __len__(self):
        return len(self.data)


env = Environment(loader=DictLoader({"p": "[{{ title }}]"}))

MACRO = "{% assign title = 'local' %}{% macro m %}[{{ title }}]{% endmacro %}{% call m %}"
RENDER = "{% assign title = 'local' %}{% render 'p' %}"

results = {}
for label, source in (("macro", MACRO), ("render", RENDER)):
    template = env.from_string(source)
    globals_ = Recording({"title": "GLOBAL"})
    out = StringIO()
    template.render_with_context(RenderContext(template, global_data=globals_), out)
    results[label] = (out.getvalue(), globals_.seen, sorted(template.analyze().globals))
    print(f"{label:6} output={out.getvalue()!r} looked up={globals_.seen} "
          f"analyze().globals={results[label][2]}")

out, seen, reported = results["macro"]
if "title" in seen and "title" not in reported:
    print("FAIL: the macro body reads the GLOBAL `title`; analyze() says `title` is only a local")
    sys.exit(1)

print("PASS")
