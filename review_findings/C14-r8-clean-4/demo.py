"""Clean tree: CachingChoiceLoader keeps serving a template shadowed in an earlier loader."""

import asyncio
import sys
import tempfile
from pathlib import Path

from liquid2 import CachingChoiceLoader
from liquid2 import ChoiceLoader
from liquid2 import Environment
from liquid2 import FileSystemLoader


def history(asynchronous: bool) -> list[tuple[str, str]]:
    out = []
    with tempfile.TemporaryDirectory() as tmp:
        theme = Path(tmp) / "theme"
        base = Path(tmp) / "base"
        theme.mkdir()
        base.mkdir()
        (base / "page.html").write_text("base page")
        cached = Environment(
            loader=CachingChoiceLoader(
                [FileSystemLoader(theme), FileSystemLoader(base)], auto_reload=True
            )
        )
        plain = Environment(
            loader=ChoiceLoader([FileSystemLoader(theme), FileSystemLoader(base)])
        )

        def step() -> None:
            if asynchronous:

                async def coro(env: Environment) -> str:
                    return await (await env.get_template_async("page.html")).render_async()

                out.append((asyncio.run(coro(cached)), asyncio.run(coro(plain))))
            else:
                out.append(
                    (
                        cached.get_template("page.html").render(),
                        plain.get_template("page.html").render(),
                    )
                )

        step()
        (theme / "page.html").write_text("theme override")
        step()
        step()
    return out


ok = True
for asynchronous in (False, True):
    for i, (got, want) in enumerate(history(asynchronous), 1):
        if got != want:
            ok = False
            print(
                f"{'async' if asynchronous else 'sync'} step {i}: "
                f"caching loader gave {got!r}, plain loader gives {want!r}"
            )
print("PASS" if ok else "FAIL")
sys.exit(0 if ok else 1)
