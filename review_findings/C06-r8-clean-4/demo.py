"""Unmodified library: a loop / namespace limit of 0 means "unlimited", an
output limit of 0 means "nothing may be written".

The property quantifies over limits around the actual consumption (limit - 1
included); for a program that consumes 1 iteration that is the limit 0.
"""

import sys

from liquid2 import Environment
from liquid2.exceptions import LiquidError


def outcome(env_class, source, **data):
    try:
        return ("ok", env_class().from_string(source).render(**data))
    except LiquidError as err:
        return (type(err).__name__,)


def main() -> int:
    failures = []

    class Loop1(Environment):
        loop_iteration_limit = 1

    class Loop0(Environment):
        loop_iteration_limit = 0

    class Space1(Environment):
        local_namespace_limit = 1

    class Space0(Environment):
        local_namespace_limit = 0

    class Out0(Environment):
        output_stream_limit = 0

    loop = "{% for i in (1..100) %}{% for j in (1..100) %}{% endfor %}{% endfor %}x"
    assign = "{% assign s = 'some text' %}x"

    # controls: the smallest positive limits, and output limit 0, are enforced
    assert outcome(Loop1, loop) == ("LoopIterationLimitError",)
    assert outcome(Space1, assign) == ("LocalNamespaceLimitError",)
    assert outcome(Out0, "x") == ("OutputStreamLimitError",)

    got = outcome(Loop0, loop)
    if got != ("LoopIterationLimitError",):
        failures.append(f"loop_iteration_limit = 0: a 100 x 100 nest ran ({got[0]})")

    got = outcome(Space0, assign)
    if got != ("LocalNamespaceLimitError",):
        failures.append(f"local_namespace_limit = 0: assign succeeded ({got[0]})")

    if failures:
        print("FAIL")
        for failure in failures:
            print("  ", failure)
        return 1
    print("PASS")
    return 0


if __name__ == "__main__":
    sys.exit(main())
