"""round rounds halves to the nearest even integer (Python's round), not away from zero."""
import sys
from liquid2 import Environment

env = Environment()
CASES = [
    ("{{ 2.5 | round }}", "3"),
    ("{{ 0.5 | round }}", "1"),
    ("{{ -2.5 | round }}", "-3"),
    ("{{ '4.5' | round }}", "5"),
    ("{{ 2.5 | round: 0 }}", "3"),
    ("{{ 0.125 | round: 2 }}", "0.13"),
    # control: the documented examples and the odd halves agree either way
    ("{{ 1.2 | round }} {{ 2.7 | round }} {{ 183.357 | round: 2 }} {{ 1.5 | round }} {{ 3.5 | round }}", "1 3 183.36 2 4"),
]
failed = False
for source, want in CASES:
    got = env.from_string(source).render()
    if got != want:
        failed = True
        print(f"{source!r}: want {want!r}, got {got!r}")
print("FAIL" if failed else "PASS")
sys.exit(1 if failed else 0)
