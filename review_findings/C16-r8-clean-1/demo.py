"""clean-1: a caching loader shared by two Environments serves templates bound
to whichever Environment asked first, so a render through the default-policy
Environment raises UndefinedError for a missing variable."""

import sys

from liquid2 import CachingDictLoader
from liquid2 import DictLoader
from liquid2 import Environment
from liquid2 import StrictUndefined
from liquid2.exceptions import UndefinedError

TEMPLATES = {"page": "Hello {{ nosuchthing }}!{% render 'part' %}", "part": "[{{ other }}]"}


def run(loader):
    strict = Environment(loader=loader, undefined=StrictUndefined)
    lax = Environment(loader=loader)  # default policy: Undefined

    # The strict application renders the page first (and fails, as it should).
    try:
        strict.get_template("page").render()
    except UndefinedError:
        pass

    # The default-policy application renders the same page.
    template = lax.get_template("page")
    try:
        return template.render(), template.env is lax
    except UndefinedError as err:
        return f"UndefinedError: {str(err).splitlines()[0]}", template.env is lax


reference = run(DictLoader(TEMPLATES))
cached = run(CachingDictLoader(TEMPLATES))
print("DictLoader       :", reference)
print("CachingDictLoader:", cached)

if cached != reference or cached[0].startswith("UndefinedError"):
    print("FAIL: the default policy raised UndefinedError for a missing variable")
    sys.exit(1)
print("PASS")
