"""divided_by is binary-float division; modulo raises for finite operands far apart."""
import sys
from decimal import Decimal
from liquid2 import Environment
from liquid2.exceptions import LiquidError

env = Environment()
ok = True
div = env.from_string("{{ a | divided_by: b }}")
mul = env.from_string("{{ a | times: b }}")
mod = env.from_string("{{ a | modulo: b }}")

# times is exact in decimal ...
assert mul.render(a=0.1, b=3) == "0.3"
# ... divided_by, its inverse, is not
for a, b in [(0.3, 0.1), (0.7, 0.1), (4.35, 100), (1.1, 1.1), (0.3, 3)]:
    got = Decimal(div.render(a=a, b=b))
    want = Decimal(str(a)) / Decimal(str(b))
    if got != want:
        ok = False
        print(f"{a} | divided_by: {b} -> {got}, exact decimal quotient {want}")

# modulo: finite operands, finite mathematically exact answer, but an error
for a, b in [(1e300, 1e-300), (1e30, 0.7), (10**40, 0.5)]:
    try:
        mod.render(a=a, b=b)
    except LiquidError as err:
        ok = False
        print(f"{a} | modulo: {b} -> {type(err).__name__}: {str(err).splitlines()[0]}")

# negative zero from a negative multiple
got = mod.render(a=-4.0, b=2)
if got != "0.0":
    ok = False
    print(f"-4.0 | modulo: 2 -> {got}, expected 0.0 (-4 | modulo: 2 -> {mod.render(a=-4, b=2)})")

print("PASS" if ok else "FAIL")
sys.exit(0 if ok else 1)
