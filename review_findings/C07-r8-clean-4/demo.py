"""`include 'p' with <expr>, name: value`: <expr> is evaluated with the keyword
arguments already in scope, so an argument name captures the caller's variable."""

import asyncio
import sys

from liquid2 import DictLoader
from liquid2 import Environment

env = Environment(loader=DictLoader({"p": "[{{ p }}|{{ y }}]"}))

# `y` in `with y` is the caller's y ('outer'); `y: 'arg'` is what the partial sees as y.
include = env.from_string("{% assign y = 'outer' %}{% include 'p' with y, y: 'arg' %}{{ y }}")
render = env.from_string("{% assign y = 'outer' %}{% render 'p' with y, y: 'arg' %}{{ y }}")
loop = env.from_string("{% assign ys = 'a,b' | split: ',' %}{% include 'p' for ys, ys: 'arg' %}")

results = {
    "include": include.render(),
    "include (async)": asyncio.run(include.render_async()),
    "render": render.render(),
    "include for": loop.render(),
}

for name, result in results.items():
    print(f"{name:16}: {result}")

expected = "[outer|arg]outer"
if results["include"] != expected or results["include (async)"] != expected:
    print("FAIL: the keyword argument `y` was visible to the tag's own `with y` expression")
    sys.exit(1)

print("PASS")
