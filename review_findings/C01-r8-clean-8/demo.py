"""A macro cannot call another macro (or itself): inside a macro body every `call` silently renders nothing."""
import sys
from liquid2 import Environment

env = Environment()
CASES = [
    ("{% macro g %}G{% endmacro %}{% macro f %}F{% call g %}{% endmacro %}{% call f %}", "FG"),
    (
        "{% macro down n %}{{ n }}{% if n > 0 %}{% assign m = n | minus: 1 %}{% call down m %}{% endif %}{% endmacro %}"
        "{% call down 3 %}",
        "3210",
    ),
    # control: the same call outside a macro body works, also from inside other blocks
    ("{% macro g %}G{% endmacro %}{% if true %}{% for i in (1..2) %}{% call g %}{% endfor %}{% endif %}", "GG"),
]
failed = False
for source, want in CASES:
    got = env.from_string(source).render()
    if got != want:
        failed = True
        print(f"{source!r}: want {want!r}, got {got!r}")
print("FAIL" if failed else "PASS")
sys.exit(1 if failed else 0)
