"""C03 on the UNMODIFIED tree (message only - class and location agree):
a TypeError / ValueError / ArithmeticError raised inside a filter is wrapped in a
LiquidTypeError whose MESSAGE differs between the twins.

Filter.evaluate        -> LiquidTypeError(str(err), ...)
Filter.evaluate_async  -> LiquidTypeError(f"{self.name}: {err}", ...)
"""
import asyncio
import sys

from liquid2 import Environment
from liquid2.exceptions import LiquidError

env = Environment()


def shout(value: object, times: int) -> str:
    return str(value).upper() * times  # TypeError when `times` is not an int


env.filters["shout"] = shout
template = env.from_string("{{ 'hi' | shout: 'x' }}", name="page")


def outcome(fn):
    try:
        return ("ok", fn())
    except LiquidError as err:
        return (type(err).__name__, err.template_name, err.token.start, str(err.message))


s = outcome(lambda: template.render())
a = outcome(lambda: asyncio.run(template.render_async()))
print("sync :", s)
print("async:", a)
if s == a:
    print("PASS")
    sys.exit(0)
print("FAIL (class and location agree:", s[:3] == a[:3], ")")
sys.exit(1)
