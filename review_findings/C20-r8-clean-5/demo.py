"""Unmodified library: the string literal 'continue' given as the offset of a
for loop is taken for the keyword `continue`; every other string is converted
to a number or rejected.
"""

import sys

from liquid2 import Environment
from liquid2.exceptions import LiquidError

env = Environment()
DATA = {"a": [1, 2, 3, 4]}
HEAD = "{% for x in a limit: 2 %}{{ x }}{% endfor %}|"


def render(source: str) -> str:
    try:
        return env.from_string(source).render(**DATA)
    except LiquidError as err:
        return f"{err.__class__.__name__}"


keyword = render(HEAD + "{% for x in a offset: continue %}{{ x }}{% endfor %}")
numeric = render(HEAD + "{% for x in a offset: '1' %}{{ x }}{% endfor %}")
other = render(HEAD + "{% for x in a offset: 'contin\\u0075e!' %}{{ x }}{% endfor %}")
quoted = render(HEAD + "{% for x in a offset: 'continue' %}{{ x }}{% endfor %}")
escaped = render(HEAD + "{% for x in a offset: \"contin\\u0075e\" %}{{ x }}{% endfor %}")

print("offset: continue       ->", keyword)
print("offset: '1'            ->", numeric)
print("offset: 'continue!'    ->", other)
print("offset: 'continue'     ->", quoted)
print("offset: \"contin\\u0075e\" ->", escaped)

# A string that is not a number is a type error, whatever its spelling.
if quoted != other or escaped != other:
    print("FAIL")
    sys.exit(1)
print("PASS")
