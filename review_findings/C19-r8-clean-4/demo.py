"""append / join / truncate / truncatewords stringify their argument with Python str()."""
import sys
from liquid2 import Environment

env = Environment()
ok = True

def check(src, want, **data):
    global ok
    got = env.from_string(src).render(**data)
    if got != want:
        ok = False
        print(f"{src} {data} -> {got!r}, expected {want!r}")

# Liquid's string form of true / nil / an array is "true" / "" / the joined items:
assert env.from_string("{{ true }}|{{ nil }}|{{ a }}").render(a=[1, 2]) == "true||12"
# prepend does that ...
check("{{ 'x' | prepend: true }}", "truex")
check("{{ 'x' | prepend: nil }}", "x")
check("{{ 'x' | prepend: a }}", "12x", a=[1, 2])
# ... append is defined as the mirror image: a | append: b == b | prepend: a
check("{{ 'x' | append: true }}", "xtrue")
check("{{ 'x' | append: nil }}", "x")
check("{{ 'x' | append: a }}", "x12", a=[1, 2])
check("{{ 'x' | append: a }}", "x", a=None)
# same leak of Python's repr in other string arguments
check("{{ a | join: nil }}", "12", a=[1, 2])
check("{{ 'abcdefgh' | truncate: 5, nil }}", "abcde")
check("{{ 'a b c' | truncatewords: 2, nil }}", "a b")
check("{{ 'a b c' | truncatewords: 2, true }}", "a btrue")

print("PASS" if ok else "FAIL")
sys.exit(0 if ok else 1)
