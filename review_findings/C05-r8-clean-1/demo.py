"""Clean tree: a template makes the translation filters/tag call a Python method
(`gettext`, `ngettext`, ...) of any context object and renders what it returns."""

import asyncio
import sys

from liquid2 import Environment
from liquid2.exceptions import LiquidError

CALLS: list[str] = []


class Catalog:
    """A plain instance: not subscriptable, not iterable, str() says nothing."""

    def __init__(self) -> None:
        self._secret = "S3CR3T"

    def gettext(self, message: str) -> str:  # meant for Python callers
        CALLS.append(f"gettext({message!r})")
        return f"{self._secret}:{message}"

    def __str__(self) -> str:
        return "Catalog"


def main() -> int:
    env = Environment()
    failures: list[str] = []
    data = {"site": {"catalog": Catalog()}}

    sources = [
        # Local variables shadow globals, and the filters look up `translations`
        # in the whole scope.
        "{% assign translations = site.catalog %}{{ 'hello' | t }}",
        "{% assign translations = site.catalog %}{{ 'hello' | gettext }}",
        "{% assign translations = site.catalog %}{% translate %}hello{% endtranslate %}",
        "{% with translations: site.catalog %}{{ 'hello' | t }}{% endwith %}",
        "{% capture x %}{% with translations: site.catalog %}"
        "{% translate %}hello{% endtranslate %}{% endwith %}{% endcapture %}{{ x }}",
    ]

    for source in sources:
        template = env.from_string(source)
        for mode in ("sync", "async"):
            CALLS.clear()
            try:
                if mode == "sync":
                    out = template.render(**data)
                else:
                    out = asyncio.run(template.render_async(**data))
            except LiquidError as err:
                out = f"<{err.__class__.__name__}>"
            except Exception as err:  # noqa: BLE001
                out = f"<escaped {err.__class__.__name__}: {err}>"
            if CALLS or "S3CR3T" in out:
                failures.append(f"{mode} {source!r} -> {out!r}, called {CALLS}")

    # Bonus: the type check added by 97793ac only looks for `gettext`, so the
    # plural forms let a plain AttributeError escape the render.
    try:
        env.from_string(
            "{% assign translations = site.catalog %}"
            "{{ 'a' | t: plural: 'b', count: 2 }}"
        ).render(**data)
    except LiquidError:
        pass
    except AttributeError as err:
        failures.append(f"AttributeError escaped the render: {err}")

    if failures:
        print("FAIL")
        for failure in failures:
            print(" -", failure)
        return 1
    print("PASS")
    return 0


if __name__ == "__main__":
    sys.exit(main())
