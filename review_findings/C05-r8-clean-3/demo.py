"""Clean tree: rendering a hash (dict) writes the Python repr() of the objects it
holds, not their string conversion, so attributes a drop never exposes appear in
the output."""

import asyncio
import sys
from dataclasses import dataclass
from dataclasses import field

from liquid2 import Environment


@dataclass
class User:
    """A plain instance. `__str__` is what templates are meant to see."""

    name: str
    password_hash: str = field(default="S3CR3T")

    def __str__(self) -> str:
        return self.name

    # The dataclass-generated __repr__ lists every field.


def main() -> int:
    failures: list[str] = []
    user = User("Sue")
    data = {"page": {"author": user}, "users": [{"u": user}]}

    sources = [
        "{{ page }}",
        "{{ users }}",
        "{{ users | join: ', ' }}",
        "{{ page | append: '' }}",
        "{% capture c %}{{ page }}{% endcapture %}{{ c | upcase }}",
        '{{ "${page}" }}',
        "{% for pair in page %}{{ pair }}{% endfor %}",  # fine: str() of each item
        "{{ page.author }}",  # fine: str()
    ]

    for auto_escape in (False, True):
        env = Environment(auto_escape=auto_escape)
        for source in sources:
            template = env.from_string(source)
            for mode in ("sync", "async"):
                if mode == "sync":
                    out = template.render(**data)
                else:
                    out = asyncio.run(template.render_async(**data))
                if "S3CR3T" in out.upper().replace("&#39;", "'"):
                    failures.append(
                        f"auto_escape={auto_escape} {mode} {source!r} -> {out!r}"
                    )

    if failures:
        print("FAIL")
        for failure in failures:
            print(" -", failure)
        return 1
    print("PASS")
    return 0


if __name__ == "__main__":
    sys.exit(main())
