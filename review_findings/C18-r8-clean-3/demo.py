"""Clean-tree C18 violation 3: a `-` marker written directly after a word is
swallowed by the word. `{{x~}}` and `{{x+}}` are whitespace control, `{{x-}}`
is a different variable."""
import sys

from liquid2 import Environment

env = Environment()
data = {"x": "X", "a": {"b": "B"}, "t": True}


def strip_ws(s):
    return "".join(ch for ch in s if not ch.isspace())


cases = [
    # (template with a hole for the right-hand marker)
    "[{{x%s}}] ",
    "[{{a.b%s}}] ",
    "[{%% if x%s%%} yes {%% endif %%}]",
    "[{%% assign y = x%s%%} {{ y }}]",
    "[{%% capture c%s%%} text {%% endcapture %%}{{ c }}]",
    "[{%% echo t%s%%} ]",
]

failed = False
for case in cases:
    base = env.from_string(case % "").render(**data)
    for mark in ("-", "~", "+"):
        out = env.from_string(case % mark).render(**data)
        ok = strip_ws(out) == strip_ws(base)
        if not ok:
            failed = True
        print(f"{case % mark!r:55} -> {out!r:12} {'ok' if ok else 'DIFFERS from ' + repr(base)}")

if failed:
    print("FAIL: adding a '-' marker changed more than whitespace")
    sys.exit(1)
print("PASS")
