"""Lexer.error() builds an ErrorToken whose span does not cover its own value.

ErrorToken(index=self.pos, value=source[self.start:self.pos]): the value is the
text BEFORE the scan pointer, the index is the pointer itself, so
[start, stop) = [pos, pos + len(value)) lies after the offending text and can
run past the end of the source.
"""
import sys

from liquid2 import Environment
from liquid2.exceptions import LiquidSyntaxError

env = Environment()
failures = []


def err_of(source):
    try:
        env.from_string(source)
    except LiquidSyntaxError as err:
        return err
    raise AssertionError(f"no error for {source!r}")


# (a) stop beyond the end of the source; the pointer line runs off the line.
source = "Hello {% comment %}a{% raw %}{% endcomment %}"
tok = err_of(source).token
if not (0 <= tok.start <= tok.stop <= len(source)):
    failures.append(
        f"{source!r}: error token {tok.start}:{tok.stop}, source has {len(source)} chars"
    )
if source[tok.start : tok.stop] != tok.value:
    failures.append(
        f"{source!r}: span text {source[tok.start:tok.stop]!r} != value {tok.value!r}"
    )

# (b) an unknown symbol in a line statement is reported one column to the right
#     of where the same symbol is reported in an ordinary tag.
tag = "{% echo a ^ b %}"
liquid = "{% liquid\n echo a ^ b\n%}"
t1, t2 = err_of(tag).token, err_of(liquid).token
if tag[t1.start] != "^":
    failures.append(f"{tag!r}: error at {t1.start} is {tag[t1.start]!r}, not '^'")
if liquid[t2.start] != "^":
    failures.append(
        f"{liquid!r}: error 'unknown symbol ^' at offset {t2.start} "
        f"is {liquid[t2.start]!r}, not '^'"
    )

# (c) the same at end of input: start == len(source), stop == len(source) + 1.
source = "{% liquid\n assign x = 1}"
tok = err_of(source).token
if tok.stop > len(source):
    failures.append(f"{source!r}: error stop {tok.stop} > {len(source)}")

if failures:
    print("FAIL")
    for f in failures:
        print("  ", f)
    sys.exit(1)
print("PASS")
