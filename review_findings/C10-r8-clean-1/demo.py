"""clean-1: in an overriding {% block %}, a variable assigned in the block beats
the enclosing block-scoped binding (loop variable, with-variable, `block`).

The same block body resolves `x` differently depending on whether the base
template is rendered directly or through {% extends %}.
"""

import sys

from liquid2 import DictLoader
from liquid2 import Environment

BODY = "{% assign x = 'assigned' %}{{ x }},"

env = Environment(
    loader=DictLoader(
        {
            "base": "{% for x in (1..2) %}{% block b %}" + BODY + "{% endblock %}{% endfor %}",
            "child": "{% extends 'base' %}{% block b %}" + BODY + "{% endblock %}",
            "base-with": "{% with x: 'with' %}{% block b %}{% endblock %}{% endwith %}",
            "child-with": "{% extends 'base-with' %}{% block b %}" + BODY + "{% endblock %}",
        }
    )
)

failures = []

# Reference: no inheritance. The loop variable is the innermost block-scoped
# binding of `x` and wins over the template-local `x` that assign creates.
plain = env.from_string("{% for x in (1..2) %}" + BODY + "{% endfor %}").render()
direct = env.get_template("base").render()
inherited = env.get_template("child").render()
inherited_with = env.get_template("child-with").render()

if plain != "1,2,":
    failures.append(f"for loop, no blocks: {plain!r}")
if direct != "1,2,":
    failures.append(f"base rendered directly: {direct!r}")
if inherited != "1,2,":
    failures.append(f"same block body through extends: {inherited!r}, want '1,2,'")
if inherited_with != "with,":
    failures.append(f"block inside a with tag, through extends: {inherited_with!r}, want 'with,'")

if failures:
    print("FAIL")
    for failure in failures:
        print("  " + failure)
    sys.exit(1)
print("PASS")
