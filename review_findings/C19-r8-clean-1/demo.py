"""sort with a key raises when a hash lacks the key and the other values are numbers."""
import json, sys
from liquid2 import Environment
from liquid2.exceptions import LiquidError

env = Environment()
a = [{"id": 1, "k": 2}, {"id": 2}, {"id": 3, "k": 1}]
ok = True
for src in (
    "{{ a | sort: 'k' | map: 'id' | json }}",
    "{{ a | sort: x => x.k | map: 'id' | json }}",
):
    try:
        got = json.loads(env.from_string(src).render(a=a))
    except LiquidError as err:
        ok = False
        print(src, "->", str(err).splitlines()[0])
        continue
    if got != [3, 1, 2]:
        ok = False
        print(src, "->", got, "expected [3, 1, 2]")

# The same shape with string values works, so this is not "sort needs every key".
s = [{"id": 1, "k": "b"}, {"id": 2}, {"id": 3, "k": "a"}]
print("string values:", env.from_string("{{ a | sort: 'k' | map: 'id' | json }}").render(a=s))
print("PASS" if ok else "FAIL")
sys.exit(0 if ok else 1)
