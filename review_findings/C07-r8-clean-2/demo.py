"""A macro reads the caller's locals through its default argument expressions."""

import sys

from liquid2 import Environment

env = Environment()

SOURCE = (
    "{% macro show what=secret %}[{{ what }}]{% endmacro %}"
    "{% assign secret = s %}"
    "{% call show %}"
    "{% for secret in (1..2) %}{% call show %}{% endfor %}"
    "{% capture secret %}cap-{{ s }}{% endcapture %}{% call show %}"
)

template = env.from_string(SOURCE)

# Same call, no argument passed; only the caller's locals differ.
one = template.render(s="one")
two = template.render(s="two")

print(one)
print(two)

if one != two:
    print("FAIL: the macro's output depends on variables the caller assigned")
    sys.exit(1)

print("PASS")
