"""A caching loader used by two Environments serves one Environment's templates to the other."""

import sys

from liquid2 import CachingDictLoader
from liquid2 import Environment


def main() -> int:
    sources = {"t": "{{ x }}"}

    loader = CachingDictLoader(sources)
    plain = Environment(loader=loader)
    escaping = Environment(loader=loader, auto_escape=True)

    plain.get_template("t").render(x="<b>")  # an earlier render, other Environment
    template = escaping.get_template("t")
    got = template.render(x="<b>")

    want = Environment(
        loader=CachingDictLoader(sources), auto_escape=True
    ).get_template("t").render(x="<b>")

    print(f"escaping.get_template('t').env is escaping: {template.env is escaping}")
    print(f"shared loader: {got!r}, freshly built loader: {want!r}")
    if got != want or template.env is not escaping:
        print("FAIL")
        return 1
    print("PASS")
    return 0


if __name__ == "__main__":
    sys.exit(main())
