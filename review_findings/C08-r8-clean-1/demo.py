"""block.super is rendered through the synchronous code path during render_async()."""
import asyncio
import sys
from collections.abc import Mapping

from liquid2 import Environment
from liquid2.builtin import DictLoader
from liquid2.exceptions import TemplateNotFoundError
from liquid2.loader import BaseLoader
from liquid2.loader import TemplateSource


class AsyncDrop(Mapping):
    """A drop as described in docs/variables_and_drops.md (`__getitem_async__`)."""

    def __getitem__(self, k):
        return "SYNC-" + k

    async def __getitem_async__(self, k):
        return "ASYNC-" + k

    def __len__(self):
        return 1

    def __iter__(self):
        return iter(["x"])


failures = []

# 1. async drops
env = Environment(
    loader=DictLoader(
        {
            "base": "[{% block a %}{{ d.x }}{% endblock %}]",
            "plain": "{% extends 'base' %}",
            "leaf": "{% extends 'base' %}{% block a %}{{ block.super }}{% endblock %}",
        }
    )
)
plain = asyncio.run(env.get_template("plain").render_async(d=AsyncDrop()))
leaf = asyncio.run(env.get_template("leaf").render_async(d=AsyncDrop()))
print("base block, not overridden   :", plain)
print("same block through block.super:", leaf)
if leaf != plain:
    failures.append("block.super rendered the parent block with __getitem__")


# 2. a loader that can only be used asynchronously
class AsyncOnlyLoader(BaseLoader):
    def __init__(self, templates):
        self.templates = templates

    def get_source(self, env, template_name, *, context=None, **kwargs):
        raise RuntimeError("blocking get_source() called for " + template_name)

    async def get_source_async(self, env, template_name, *, context=None, **kwargs):
        try:
            return TemplateSource(self.templates[template_name], template_name, None)
        except KeyError as err:
            raise TemplateNotFoundError(template_name) from err


env = Environment(
    loader=AsyncOnlyLoader(
        {
            "base": "[{% block a %}{% include 'snip' %}{% endblock %}]",
            "snip": "S",
            "plain": "{% extends 'base' %}",
            "leaf": "{% extends 'base' %}{% block a %}{{ block.super }}!{% endblock %}",
        }
    )
)


async def go(name):
    template = await env.get_template_async(name)
    return await template.render_async()


print("async-only loader, no super  :", asyncio.run(go("plain")))
try:
    got = asyncio.run(go("leaf"))
except Exception as err:  # noqa: BLE001
    got = f"{type(err).__name__}: {err}"
print("async-only loader, with super:", got)
if got != "[S!]":
    failures.append("block.super loaded an included template with the blocking loader API")

if failures:
    for f in failures:
        print(" -", f)
    print("FAIL")
    sys.exit(1)
print("PASS")
