"""unescape() reports 'at index N' positions that are not where the escape is."""
import re
import sys

from liquid2 import Environment
from liquid2.exceptions import LiquidSyntaxError

env = Environment()
failures = []
CASES = [
    # control: a double quoted string literal; the index is the 'u' of the escape
    '{{ "ab\\uDC00" }}',
    # the same escape in a bracketed path segment
    '{{ some_long_name["ab\\uDC00"] }}',
    # single quoted string with escaped quotes before the bad escape
    "{{ 'it\\'s \\'so\\' \\uDC00' }}",
]
for source in CASES:
    try:
        env.from_string(source)
    except LiquidSyntaxError as err:
        m = re.search(r"at index (\d+)", str(err.message))
        assert m, err.message
        index = int(m.group(1))
        around = source[index - 1 : index + 1]
        if around != "\\u":
            failures.append(
                f"{source!r}: {err.message!r} but source[{index - 1}:{index + 1}] is "
                f"{around!r}; the escape is at {source.index(chr(92) + 'uDC00')}"
            )
    else:
        failures.append(f"{source!r}: expected a syntax error")
if failures:
    print("FAIL")
    for f in failures:
        print("  ", f)
    sys.exit(1)
print("PASS")
