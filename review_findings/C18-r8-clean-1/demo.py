"""Clean-tree C18 violation 1: a custom tag written as docs/custom_tags.md
describes loses its output inside a control-flow block, because every Node is
born `blank = True` and blank blocks are suppressed."""
import sys

from liquid2 import Environment
from liquid2 import Node
from liquid2 import Tag


class HelloNode(Node):
    # "render_to_output() ... is responsible for either updating the render
    # context or writing to the buffer, or both."  (docs/custom_tags.md)
    def render_to_output(self, context, buffer):
        return buffer.write("Hello")


class HelloTag(Tag):
    block = False

    def parse(self, stream):
        return HelloNode(stream.current())


class NoSuppress(Environment):
    suppress_blank_control_flow_blocks = False


def strip_ws(s):
    return "".join(ch for ch in s if not ch.isspace())


source = "[{% hello %}|{% if true %}{% hello %}{% endif %}|{% for i in (1..2) %} {% hello %} {% endfor %}]"

outputs = {}
for cls in (Environment, NoSuppress):
    env = cls()
    env.tags["hello"] = HelloTag(env)
    outputs[cls.__name__] = env.from_string(source).render()

on, off = outputs["Environment"], outputs["NoSuppress"]
print("suppression on :", repr(on))
print("suppression off:", repr(off))
if strip_ws(on) != strip_ws(off):
    print("FAIL: suppressing blank blocks removed output, not just whitespace")
    sys.exit(1)
print("PASS")
