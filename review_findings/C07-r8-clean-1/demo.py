"""`render ... for` renders every item in ONE isolated context.

What the partial assigns, captures or counts while it renders item n is still
there when it renders item n+1, so an invocation of the partial sees more than
global data and the arguments passed to it.
"""

import sys

from liquid2 import DictLoader
from liquid2 import Environment

PARTIAL = (
    "[{{ item }}: seen={{ seen }} cap={{ cap }} "
    "n={% increment n %} c={% cycle 'a', 'b', 'c' %}]"
    "{% assign seen = item %}{% capture cap %}<{{ item }}>{% endcapture %}"
)

env = Environment(loader=DictLoader({"item": PARTIAL}))

# One tag for three items ...
looped = env.from_string("{% render 'item' for xs %}").render(xs=["x", "y", "z"])

# ... against one tag per item, which is what each invocation should look like:
# nothing but globals and its own arguments.
single = "".join(
    env.from_string("{% render 'item' with x as item %}").render(x=x)
    for x in ["x", "y", "z"]
)

print("render for :", looped)
print("one by one :", single)

if looped != single:
    print("FAIL: an iteration of `render ... for` sees what an earlier one assigned")
    sys.exit(1)

print("PASS")
