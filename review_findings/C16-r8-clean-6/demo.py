"""clean-6: matter (front matter / loader meta data) pinned to a template is
ignored when that template is included, rendered or extended."""

import sys

from liquid2 import DictLoader
from liquid2 import Environment
from liquid2 import StrictUndefined
from liquid2 import TemplateNotFoundError
from liquid2.exceptions import UndefinedError
from liquid2.loader import TemplateSource


class MatterLoader(DictLoader):
    """The loader of tests/test_overlay_data.py and docs/loading_templates.md."""

    def __init__(self, templates, matter):
        super().__init__(templates)
        self.matter = matter

    def get_source(self, env, template_name, *, context=None, **kwargs):
        try:
            source = self.templates[template_name]
        except KeyError as err:
            raise TemplateNotFoundError(template_name) from err
        return TemplateSource(source, template_name, None, self.matter.get(template_name))


loader = MatterLoader(
    {
        "card": "[{{ title }}]",
        "via_include": "{% include 'card' %}",
        "via_render": "{% render 'card' %}",
        "via_extends": "{% extends 'layout' %}",
        "layout": "{% block main %}[{{ title }}]{% endblock %}",
    },
    {"card": {"title": "T"}, "layout": {"title": "T"}},
)

failed = False
for policy in (None, StrictUndefined):
    kwargs = {"undefined": policy} if policy else {}
    env = Environment(loader=loader, **kwargs)
    for name in ("card", "via_include", "via_render", "via_extends"):
        try:
            got = env.get_template(name).render()
        except UndefinedError as err:
            got = f"UndefinedError: {str(err).splitlines()[0]}"
        print((policy.__name__ if policy else "Undefined"), name, "->", repr(got))
        if got != "[T]":
            failed = True

if failed:
    print("FAIL: 'title' is pinned to the template by its loader, yet it is undefined")
    sys.exit(1)
print("PASS")
