"""clean-2: {% render 'p' for items as item %} does not give each item a scope
of its own; what the partial assigns while rendering item 1 shadows item 2, 3, ...
"""

import sys

from liquid2 import DictLoader
from liquid2 import Environment

env = Environment(
    loader=DictLoader(
        {
            # Normalise the item for display. A perfectly ordinary partial.
            "p": "({{ item }}{% assign item = item | upcase %}:{{ item }})",
            "q": "({{ item }}:{% increment n %})",
        }
    )
)

failures = []

items = ["a", "b", "c"]

# Reference: the same partial rendered once per item with `with`.
want = "".join(
    env.from_string("{% render 'p' with it as item %}").render(it=it) for it in items
)
got = env.from_string("{% render 'p' for items as item %}").render(items=items)
if got != want:
    failures.append(f"render for: {got!r}, want {want!r}")

# Counters leak from one item's rendering into the next as well.
got = env.from_string("{% render 'q' for items as item %}").render(items=items)
if got != "(a:0)(b:0)(c:0)":
    failures.append(f"render for, increment: {got!r}, want '(a:0)(b:0)(c:0)'")

if items != ["a", "b", "c"]:
    failures.append("data changed")

if failures:
    print("FAIL")
    for failure in failures:
        print("  " + failure)
    sys.exit(1)
print("PASS")
