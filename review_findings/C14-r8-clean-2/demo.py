"""Clean tree: one caching loader shared by two environments serves env A's template to env B."""

import sys

from liquid2 import CachingDictLoader
from liquid2 import DictLoader
from liquid2 import Environment

SOURCES = {"comment": "<p>{{ text }}</p> {{ site }}"}
DATA = {"text": "<script>alert(1)</script>"}


def history(loader) -> list[str]:
    plain_text = Environment(loader=loader, globals={"site": "mail"})
    html = Environment(loader=loader, auto_escape=True, globals={"site": "web"})
    out = [plain_text.get_template("comment").render(**DATA)]
    t = html.get_template("comment")
    out.append(t.render(**DATA))
    out.append(str(t.env is html))
    return out


want = history(DictLoader(SOURCES))
got = history(CachingDictLoader(SOURCES))
ok = got == want
if not ok:
    print("caching loader:", got)
    print("plain loader:  ", want)
print("PASS" if ok else "FAIL")
sys.exit(0 if ok else 1)
