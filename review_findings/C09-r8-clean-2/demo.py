"""get_template(name, globals=...) on a caching loader changes Template objects handed out earlier."""

import sys

from liquid2 import CachingDictLoader
from liquid2 import Environment


def main() -> int:
    env = Environment(loader=CachingDictLoader({"t": "Hello {{ user }}"}))

    alice = env.get_template("t", globals={"user": "alice"})
    env.get_template("t", globals={"user": "bob"})  # someone else's request
    got = alice.render()

    fresh = Environment(loader=CachingDictLoader({"t": "Hello {{ user }}"}))
    want = fresh.get_template("t", globals={"user": "alice"}).render()

    print(f"alice's template renders {got!r}, freshly built objects give {want!r}")
    if got != want:
        print("FAIL")
        return 1
    print("PASS")
    return 0


if __name__ == "__main__":
    sys.exit(main())
