"""Unmodified library: str() of nested template strings takes time exponential
in the nesting depth (each level stringifies its interpolated expressions
twice), so str() of a 100 character template does not finish in practice."""

import sys
import time

from liquid2 import Environment

env = Environment()


def nested(depth: int) -> str:
    expr = "x"
    for i in range(depth):
        quote = "'" if i % 2 else '"'
        expr = f"{quote}${{{expr}}}{quote}"
    return "{{ " + expr + " }}"


def timed(func):
    start = time.perf_counter()
    result = func()
    return result, time.perf_counter() - start


rows = []
for depth in (10, 12, 14, 16):
    source = nested(depth)
    template, t_parse = timed(lambda: env.from_string(source))
    out, t_render = timed(lambda: template.render(x="v"))
    text, t_str = timed(lambda: str(template))
    assert out == "v"
    assert env.from_string(text).render(x="v") == "v"
    rows.append((depth, len(source), t_parse, t_render, t_str))

for depth, size, t_parse, t_render, t_str in rows:
    print(
        f"depth {depth:2d} ({size} chars): parse {t_parse * 1000:8.2f} ms  "
        f"render {t_render * 1000:8.2f} ms  str {t_str * 1000:9.2f} ms"
    )

# Going from depth 10 to 16 makes the source 1.4 times longer. A linear (or even
# quadratic) str() grows by a small factor; the doubling per level gives ~64x.
growth = rows[-1][4] / max(rows[0][4], 1e-9)
slow = rows[-1][4] > 50 * (rows[-1][2] + rows[-1][3])
print(f"str() time grew {growth:.0f}x from depth 10 to depth 16")
if growth > 20 and slow:
    print("FAIL: str() is exponential in the nesting depth "
          "(depth 22 takes ~20 s, depth 30 over an hour)")
    sys.exit(1)
print("PASS")
