"""Variables that built-in filters read from the render context are not reported."""

import sys
from collections.abc import Mapping
from io import StringIO

from liquid2 import Environment
from liquid2 import RenderContext


class Recording(Mapping):
    def __init__(self, data):
        self.data = data
        self.seen = []

    def __getitem__(self, key):
        self.seen.append(key)
        return self.data[key]

    def __iter__(self):
        return iter(self.data)

    def __len__(self):
        return len(self.data)


env = Environment()
SOURCE = "{{ 'Hello, %(you)s!' | t }} {{ 'Bye %(you)s' | gettext }} {{ 1234.5 | currency }}"
template = env.from_string(SOURCE)

globals_ = Recording({"you": "World", "currency_code": "EUR", "locale": "de"})
out = StringIO()
template.render_with_context(RenderContext(template, global_data=globals_), out)
analysis = template.analyze()

looked_up = list(dict.fromkeys(globals_.seen))
print("output           :", out.getvalue())
print("globals looked up:", looked_up)
print("variables()      :", template.variables())
print("global_variables :", template.global_variables())

used = [n for n in ("you", "currency_code", "locale") if n in looked_up]
missing = [n for n in used if n not in analysis.variables]
if missing:
    print(f"FAIL: the output depends on {missing}; analyze() reports no such variable")
    sys.exit(1)

print("PASS")
