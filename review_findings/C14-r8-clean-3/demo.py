"""Clean tree: the namespaced cache key "<namespace>/<name>" collides with a plain name containing "/"."""

import sys

from liquid2 import CachingLoaderMixin
from liquid2 import DictLoader
from liquid2 import Environment
from liquid2 import TemplateNotFoundError
from liquid2 import TemplateSource


class TeamLoader(DictLoader):
    """Sources depend on the `team` loader argument; shared templates have none."""

    def get_source(self, env, template_name, *, context=None, **kwargs):
        team = kwargs.get("team")
        key = template_name if team is None else f"{team}:{template_name}"
        try:
            return TemplateSource(self.templates[key], key, None)
        except KeyError as err:
            raise TemplateNotFoundError(template_name) from err


class CachingTeamLoader(CachingLoaderMixin, TeamLoader):
    def __init__(self, templates, **kwargs):
        super().__init__(**kwargs)
        TeamLoader.__init__(self, templates)


SOURCES = {
    "sales/report": "shared template sales/report",
    "sales:report": "team sales' private report",
    "sales/emea:report": "team sales/emea's private report",
    "emea/report": "shared template emea/report",
}

HISTORY = [
    ("sales/report", {}),
    ("report", {"team": "sales"}),
    ("report", {"team": "sales/emea"}),
    ("emea/report", {"team": "sales"}),  # not found for the plain loader
]


def run(loader) -> list[str]:
    env = Environment(loader=loader)
    out = []
    for name, kwargs in HISTORY:
        try:
            out.append(env.get_template(name, **kwargs).render())
        except TemplateNotFoundError:
            out.append("<not found>")
    return out


want = run(TeamLoader(SOURCES))
got = run(CachingTeamLoader(SOURCES, namespace_key="team"))
ok = got == want
for step, g, w in zip(HISTORY, got, want):
    if g != w:
        print(f"{step}: caching loader gave {g!r}, plain loader gives {w!r}")
print("PASS" if ok else "FAIL")
sys.exit(0 if ok else 1)
