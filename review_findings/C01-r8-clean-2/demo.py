"""append stringifies its argument with Python's str() instead of the Liquid string form."""
import sys
from liquid2 import Environment

env = Environment()
DATA = {"n": None, "arr": [1, [2, None], True], "t": True}
CASES = [
    ("{{ 'a' | append: true }}", "atrue"),
    ("{{ 'a' | append: false }}", "afalse"),
    ("{{ 'a' | append: n }}", "a"),
    ("{{ 'a' | append: arr }}", "a12true"),
    ("{{ 'a' | append: (1..3) }}", "a1..3"),
    # the twin filter and the output statement agree with the expected values
    ("{{ 'a' | prepend: true }}|{{ 'a' | prepend: n }}|{{ 'a' | prepend: arr }}|{{ 'a' | prepend: (1..3) }}", "truea|a|12truea|1..3a"),
    ("{{ true }}|{{ n }}|{{ arr }}|{{ (1..3) }}", "true||12true|1..3"),
    ("{{ 'a${t}${n}${arr}' }}", "atrue12true"),
]
failed = False
for source, want in CASES:
    got = env.from_string(source).render(**DATA)
    if got != want:
        failed = True
        print(f"{source!r}: want {want!r}, got {got!r}")
print("FAIL" if failed else "PASS")
sys.exit(1 if failed else 0)
