"""A stand-alone partial, included from inside an inheritance chain, has its own
blocks replaced by the enclosing chain's overrides of the same name."""
import asyncio
import sys

from liquid2 import Environment
from liquid2.builtin import DictLoader

TEMPLATES = {
    "base": "<h1>{% block title %}Site{% endblock %}</h1>{% include 'help_box' %}",
    # Not part of any chain. Rendered alone it gives [Help: press F1].
    "help_box": "[{% block title %}Help{% endblock %}: press F1]",
    "leaf": "{% extends 'base' %}{% block title %}My page{% endblock %}",
    # required block of a stand-alone partial is 'satisfied' by a foreign override
    "strict_box": "[{% block title required %}{% endblock %}]",
    "base2": "<h1>{% block title %}Site{% endblock %}</h1>{% include 'strict_box' %}",
    "leaf2": "{% extends 'base2' %}{% block title %}My page{% endblock %}",
}

env = Environment(loader=DictLoader(TEMPLATES))
failures = []

alone = env.get_template("help_box").render()
want = "<h1>My page</h1>" + alone
for mode in ("sync", "async", "render-tag"):
    if mode == "sync":
        got = env.get_template("leaf").render()
    elif mode == "async":
        got = asyncio.run(env.get_template("leaf").render_async())
    else:
        # the render tag isolates the partial: this is the behaviour one expects
        env2 = Environment(
            loader=DictLoader({**TEMPLATES, "base": TEMPLATES["base"].replace("include", "render")})
        )
        got = env2.get_template("leaf").render()
    print(f"{mode:10}: {got}")
    if got != want:
        failures.append(f"{mode}: expected {want!r}, got {got!r}")

try:
    got = env.get_template("leaf2").render()
except Exception as err:  # noqa: BLE001
    got = type(err).__name__
print("required block of a stand-alone partial:", got)
if got != "RequiredBlockError":
    failures.append(f"strict_box: expected RequiredBlockError, got {got!r}")

if failures:
    for f in failures:
        print(" -", f)
    print("FAIL")
    sys.exit(1)
print("PASS")
