"""Unmodified library: a caching loader shared by two Environments hands the
restricted Environment templates that are bound to the unrestricted one, so the
configured limits are not applied.
"""

import sys

from liquid2 import CachingDictLoader
from liquid2 import Environment
from liquid2.exceptions import LiquidError

TEMPLATES = {
    "page": "{% render 'grid' %}",
    "grid": "{% for i in (1..10) %}{% for j in (1..10) %}x{% endfor %}{% endfor %}",
}


class Sandbox(Environment):
    """For untrusted templates."""

    loop_iteration_limit = 50
    output_stream_limit = 60
    local_namespace_limit = 500


def outcome(env, name):
    try:
        return ("ok", env.get_template(name).render())
    except LiquidError as err:
        return (type(err).__name__,)


def main() -> int:
    failures = []

    # control: a loader of its own
    alone = Sandbox(loader=CachingDictLoader(TEMPLATES))
    assert outcome(alone, "page") == ("LoopIterationLimitError",)
    assert outcome(alone, "grid") == ("LoopIterationLimitError",)

    loader = CachingDictLoader(TEMPLATES)
    trusted = Environment(loader=loader)
    sandbox = Sandbox(loader=loader)

    # The trusted environment happens to load the partial first.
    assert trusted.get_template("grid").render() == "x" * 100

    class LoopSandbox(Environment):
        loop_iteration_limit = 50

    loop_sandbox = LoopSandbox(loader=loader)
    got = outcome(loop_sandbox, "page")
    if got != ("LoopIterationLimitError",):
        detail = f"{len(got[1])} iterations ran" if got[0] == "ok" else got[0]
        failures.append(f"page -> render 'grid' with loop limit 50: {detail}")

    template = sandbox.get_template("grid")
    if template.env is not sandbox:
        failures.append("sandbox.get_template('grid').env is the other Environment")
    got = outcome(sandbox, "grid")
    if got[0] == "ok":
        failures.append(
            f"sandbox grid: {len(got[1])} bytes returned, output limit 60, loop limit 50"
        )

    if failures:
        print("FAIL")
        for failure in failures:
            print("  ", failure)
        return 1
    print("PASS")
    return 0


if __name__ == "__main__":
    sys.exit(main())
