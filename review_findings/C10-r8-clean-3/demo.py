"""clean-3: looking up a missing key changes caller data that is a
collections.defaultdict (a dict subclass): every miss is inserted.
"""

import copy
import sys
from collections import defaultdict

from liquid2 import Environment

env = Environment()

failures = []


def run(label: str, source: str, data: dict) -> None:
    before = copy.deepcopy(data)
    env.from_string(source).render(**data)
    if data != before:
        failures.append(f"{label}: {source!r} changed {before!r} into {data!r}")


def dd() -> defaultdict:
    return defaultdict(list, {"a": [1]})


run("path", "{{ d.missing }}", {"d": dd()})
run("size", "{{ d.size }}", {"d": dd()})
run("first", "{{ d.first }}", {"d": dd()})
run("condition", "{% if d.missing %}x{% endif %}", {"d": dd()})
run("map", "{{ l | map: 'k' }}", {"l": [dd(), dd()]})
run("where", "{{ l | where: 'k' }}", {"l": [dd()]})
run("sort", "{{ l | sort: 'k' }}", {"l": [dd(), dd()]})
run("sum", "{{ l | sum: 'k' }}", {"l": [dd()]})
run("arrow", "{{ l | map: x => x.k }}", {"l": [dd()]})

if failures:
    print("FAIL")
    for failure in failures:
        print("  " + failure)
    sys.exit(1)
print("PASS")
