#!/bin/sh
# Run once after a fresh restore, offline: full .vo build of the Coq development
# (make -k: a proof file that no longer checks is reported by the check of the
# property that needs it, not by setup).
cd "$(dirname "$0")" || exit 2
mkdir -p evidence replays coq/theories/Generated
./check --build >/dev/null 2>&1
exit 0
