#!/bin/sh
# Run once after a fresh restore, offline: full .vo build of the Coq development.
cd "$(dirname "$0")" || exit 2
mkdir -p evidence replays coq/theories/Generated
exec ./check --build >/dev/null
