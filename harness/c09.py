"""C09 — a render depends only on its inputs, never on earlier or concurrent renders.

Tie: histories of {CreateEnv, SetGlobal, SetFilter, AdvanceClock, FromString
(valid, or failing to parse at some nesting depth), GetTemplate, Render (with a
fault at the k-th data access / k-th loader call), QuickRender (liquid2.render
on DEFAULT_ENVIRONMENT), Analyze} are run on real, shared Environment / Template
/ loader objects of the repository under a harness-controlled clock, and on the
Coq model Kernels/Session.v (`run`).  Per step the observation (output text,
error class, handle, analysed names) and the content of every loader cache
(keys and the globals bound to the shared Template objects) are compared.

Direct oracles (failing-input search):
  * fresh replay (in process) — the same call on freshly built objects: the
    prefix replayed without any render, failed render or analysis;
  * pristine minimal replay — the same call in a PROCESS that has imported
    liquid2 but never parsed or rendered anything (a child forked from a server
    that was itself forked before this process touched a template), with only
    the step's own environment and template built (other templates, failed
    from_string calls, other environments left out);
  * pristine history — whole histories re-run in such a process, step
    observations equal;
  * no trace — around EVERY step (successful or failed) a snapshot of every
    mutable container / object / lru_cache held by liquid2's modules and
    classes, of vars() of every Environment, its Parser and its Tag objects, and
    of every Template (AST included): anything that changes and is not the
    modelled session state (loader caches, the configured register, the new
    Template, re-bound globals of a cached template) is a finding;
  * a printed date is the clock's current date;
  * edited partials — templates on disk behind CachingFileSystemLoader(
    auto_reload=True), partials reached through include / render / extends /
    call, edited (or broken, or deleted) between renders of the same Template
    object and of re-fetched ones, sync and async: equal to a new Environment
    with a plain FileSystemLoader on the same files (in process, in a pristine
    process, and as computed by the model);
  * overlapping async loads — waves of get_template_async(name, globals=Gi) +
    render_async / from_string().render_async() tasks under asyncio.gather on a
    COLD caching loader whose get_source_async really suspends, different
    globals per task: each task equals the task alone on fresh objects;
  * edits of the edited-partials stream move the file's mtime backwards as often
    as forwards;
  * date strings that name only part of a date ('10:30', 'March 3', 'Friday 9am')
    through `date` under a clock that crosses midnight, a month and a year
    boundary (dateutil's parser runs under the harness clock too);
  * (Caching)FileSystemLoader over two or three search paths, same-named files
    added to / removed from EARLIER directories between renders: equal to a new
    loader over the same directories;
  * loaders that supply matter and keep their matter dicts: partials rendered with
    arguments / `with x as y` / `for`, then without; matter deep-compared after
    every step;
  * every class-instance filter called with its optional arguments and then with
    the defaults on shared Environments (oracle-only stream);
  * every loader kind (PackageLoader over several package paths included) with
    shadowed names, the same names loaded again and again: equal to a freshly
    built loader every time;
  * round-8 reviewer observations: one loader shared by two Environments with
    different options, Templates held while other callers load the same name, the
    documentation's tag-dispatching loader under the caching mixin, an edited
    CachingDictLoader dictionary (recorded findings under their signatures);
  * analysis steps (with every helper built on them, sync / async) of templates
    that include / render / extend a cached template the caller holds with its
    own globals, followed by renders of every held Template;
  * ChoiceLoader / CachingChoiceLoader over two delegates with duplicate names:
    an OSError-family fault at the k-th get_source(_async) of a delegate must
    fail the call, and every other step equals fresh objects;
  * constructs outside the model (if / case / with / liquid / nested
    render-call-include-extends ...) and ~20 sources that fail to lex or parse at
    several depths, shuffled on two shared Environments: equal to a new
    Environment in a pristine process, and no trace.

Histories are generated (against live objects) in a child process, so the
checking process has parsed nothing when the checked runs start.
"""

from __future__ import annotations

import asyncio
import collections
import datetime as _dt
import functools
import os
import pickle
import re
import shutil
import struct
import sys
import tempfile
import types
import warnings
from typing import Any

from . import common as C

IMPORTS = "From LQ Require Import Kernels.Session."
NEEDED = ["theories/Base/Str.v", "theories/Kernels/Session.v", "theories/Proofs/Session_proofs.v"]
FUEL = 400

DEFS = """Definition tg (rm : list str) : list str := filter (fun t => negb (mem_str t rm)) all_tags.
Definition S (s : str) : val := VStr s false.
"""

# ---------------------------------------------------------------- the clock

# tick 0 is Saturday 2000-12-30 12:00:00; a tick is one day, so the first ticks cross
# midnight, a month boundary and a year boundary
_BASE = _dt.datetime(2000, 12, 30, 12, 0, 0)


class _Clock:
    k = 0


CLOCK = _Clock()


class _MDT(type):
    def __instancecheck__(cls, o: object) -> bool:
        return isinstance(o, _dt.datetime)


class _MD(type):
    def __instancecheck__(cls, o: object) -> bool:
        return isinstance(o, _dt.date)


class FakeDateTime(_dt.datetime, metaclass=_MDT):
    @classmethod
    def now(cls, tz: Any = None) -> _dt.datetime:  # type: ignore[override]
        return _BASE + _dt.timedelta(days=CLOCK.k)


class FakeDate(_dt.date, metaclass=_MD):
    @classmethod
    def today(cls) -> _dt.date:  # type: ignore[override]
        return (_BASE + _dt.timedelta(days=CLOCK.k)).date()


class _FakeDatetimeModule(types.ModuleType):
    """The datetime module with `datetime.now()` / `date.today()` under the harness' clock."""

    datetime = FakeDateTime
    date = FakeDate

    def __getattr__(self, name: str) -> Any:
        return getattr(_dt, name)


_FAKE = _FakeDatetimeModule("datetime")
_PATCHED = False


def patch_clock() -> None:
    """Replace the `datetime` module seen by liquid2.context, by the date filter
    and by dateutil's parser, inside this process only."""
    global _PATCHED
    if _PATCHED:
        return
    import liquid2.builtin.filters.misc as misc
    import liquid2.context as ctx

    ctx.datetime = _FAKE  # type: ignore[attr-defined]
    misc.datetime = _FAKE  # type: ignore[attr-defined]
    # dateutil fills the fields a date string does not name from datetime.datetime.now()
    # (dateutil/parser/_parser.py parser.parse: `default = datetime.datetime.now().replace(...)`);
    # that is the only clock read of the parser (its `time` uses are tz names)
    import dateutil.parser._parser as du

    du.datetime = _FAKE  # type: ignore[attr-defined]
    _PATCHED = True


def canon(text: str) -> str:
    """Outputs are compared as they are: the model prints the harness' clock
    (tick k = Saturday 2000-12-30 12:00:00 + k days, k <= 32) exactly."""
    return text


# ---------------------------------------------------------------- programs

# Malformed tags (parser errors, raised where they stand). From N_IMMEDIATE on: unclosed
# blocks, which the generator only puts last in a body (none of them can be closed by the end
# tag of an enclosing capture / macro / block body).
BROKEN = ["{% endfor %}", "{% assign %}", "{% if %}a{% endif %}", "{% for x %}{% endfor %}", "{% nosuchtag %}",
          "{% cycle %}", "{% increment %}", "{% include %}", "{% unless x %}", "{% if x %}", "{% for v in x %}"]
N_IMMEDIATE = 8

TAGS = ["increment", "decrement", "cycle", "for", "assign", "capture", "macro", "call",
        "translate", "include", "extends", "block"]


def _expr_src(e: tuple) -> str:
    return f"'{e[1]}'" if e[0] == "L" else e[1]


def src_of(p: list[tuple]) -> str:
    out = []
    for o in p:
        k = o[0]
        if k == "T":
            out.append(o[1])
        elif k == "E":
            out.append(f"{{{{ {o[1]} }}}}")
        elif k == "EF":
            out.append(f"{{{{ {o[1]} | {o[2]} }}}}")
        elif k == "D":
            out.append(f"{{{{ d.{o[1]} }}}}")
        elif k == "I":
            out.append(f"{{% increment {o[1]} %}}")
        elif k == "Dc":
            out.append(f"{{% decrement {o[1]} %}}")
        elif k == "C":
            items = ", ".join(f"'{i}'" for i in o[2])
            out.append(f"{{% cycle {o[1]}: {items} %}}")
        elif k == "FC":
            out.append(f"{{% for v in {o[1]} limit: {o[2]} offset: continue %}}{{{{ v }}}},{{% endfor %}}")
        elif k == "FA":
            out.append(f"{{% for v in {o[1]} %}}{{{{ v }}}},{{% endfor %}}")
        elif k == "A":
            out.append(f"{{% assign {o[1]} = {_expr_src(o[2])} %}}")
        elif k == "Cap":
            out.append(f"{{% capture {o[1]} %}}{src_of(o[2])}{{% endcapture %}}")
        elif k == "M":
            out.append(f"{{% macro {o[1]} a %}}{src_of(o[2])}{{% endmacro %}}")
        elif k == "Call":
            out.append(f"{{% call {o[1]} {_expr_src(o[2])} %}}")
        elif k == "DO":
            out.append(f"{{{{ '{o[1]}' | date: {_expr_src(o[2])} }}}}")
        elif k == "DN":
            out.append(f"{{{{ '{'today' if o[1] else 'now'}' | date: {_expr_src(o[2])} }}}}")
        elif k == "Tr":
            out.append(f"{{% translate %}}Hi {{{{ {o[1]} }}}}{{% endtranslate %}}")
        elif k == "Inc":
            out.append(f"{{% include '{o[1]}' %}}")
        elif k == "Ext":
            out.append(f"{{% extends '{o[1]}' %}}")
        elif k == "B":
            out.append(f"{{% block {o[1]} %}}{src_of(o[2])}{{% endblock %}}")
        elif k == "Ren":
            out.append(f"{{% render '{o[1]}' %}}")
        elif k == "Bad":
            out.append(BROKEN[o[1]])
        elif k == "Fail":
            out.append("{{ 1 | divided_by: 0 }}")
        else:
            raise ValueError(o)
    return "".join(out)


def c_expr(e: tuple) -> str:
    return f"(ELit {C.cstr(e[1])})" if e[0] == "L" else f"(EVar {C.cstr(e[1])})"


def c_prog(p: list[tuple]) -> str:
    xs = []
    for o in p:
        k = o[0]
        if k == "T":
            xs.append(f"Text {C.cstr(o[1])}")
        elif k == "E":
            xs.append(f"Emit {C.cstr(o[1])}")
        elif k == "EF":
            xs.append(f"EmitFilt {C.cstr(o[1])} {C.cstr(o[2])}")
        elif k == "D":
            xs.append(f"EmitField {C.cstr(o[1])}")
        elif k == "I":
            xs.append(f"Incr {C.cstr(o[1])}")
        elif k == "Dc":
            xs.append(f"Decr {C.cstr(o[1])}")
        elif k == "C":
            xs.append(f"Cycle {C.cstr(o[1])} {C.clist(map(C.cstr, o[2]), 'str')}")
        elif k == "FC":
            xs.append(f"ForCont {C.cstr(o[1])} {C.cnat(o[2])}")
        elif k == "FA":
            xs.append(f"ForAll {C.cstr(o[1])}")
        elif k == "A":
            xs.append(f"Assign {C.cstr(o[1])} {c_expr(o[2])}")
        elif k == "Cap":
            xs.append(f"Capture {C.cstr(o[1])} {c_prog(o[2])}")
        elif k == "M":
            xs.append(f"DefMacro {C.cstr(o[1])} {c_prog(o[2])}")
        elif k == "Call":
            xs.append(f"CallMacro {C.cstr(o[1])} {c_expr(o[2])}")
        elif k == "DO":
            xs.append(f"DateOf {C.cstr(o[1])} {c_expr(o[2])}")
        elif k == "DN":
            xs.append(f"DateNow {C.cbool(o[1])} {c_expr(o[2])}")
        elif k == "Tr":
            xs.append(f"Translate {C.cstr(o[1])}")
        elif k == "Inc":
            xs.append(f"Include {C.cstr(o[1])}")
        elif k == "Ext":
            xs.append(f"Extends {C.cstr(o[1])}")
        elif k == "B":
            xs.append(f"Block {C.cstr(o[1])} {c_prog(o[2])}")
        elif k == "Ren":
            xs.append(f"RenderP {C.cstr(o[1])}")
        elif k == "Bad":
            xs.append(f"Broken {C.cnat(o[1])}")
        elif k == "Fail":
            xs.append("Fail")
        else:
            raise ValueError(o)
    return C.clist(xs, "op")


# ---------------------------------------------------------------- values


class Drop:
    """Data whose k-th item access raises (fault injection)."""

    def __init__(self, items: dict[str, str], fail_at: int | None) -> None:
        self.items = items
        self.fail_at = fail_at
        self.n = 0

    def __getitem__(self, key: str) -> str:
        self.n += 1
        if self.fail_at is not None and self.n == self.fail_at:
            raise RuntimeError("injected fault: data access")
        return self.items[key]

    def __str__(self) -> str:
        return "<drop>"


def py_val(v: tuple, fa: int | None = None) -> Any:
    if v[0] == "s":
        return v[1]
    if v[0] == "i":
        return v[1]
    if v[0] == "l":
        return list(v[1])
    if v[0] == "drop":
        return Drop(dict(v[1]), fa)
    raise ValueError(v)


def py_map(m: list[tuple[str, tuple]], fa: int | None = None) -> dict[str, Any]:
    return {k: py_val(v, fa) for k, v in m}


def c_val(v: tuple) -> str:
    if v[0] == "s":
        return f"(S {C.cstr(v[1])})"
    if v[0] == "i":
        return f"(VInt {C.cZ(v[1])})"
    if v[0] == "l":
        return f"(VList {C.clist(map(C.cstr, v[1]), 'str')})"
    if v[0] == "drop":
        return "(VDrop " + C.clist((C.cpair(C.cstr(k), C.cstr(x)) for k, x in v[1]), "(str * str)") + ")"
    raise ValueError(v)


def c_map(m: list[tuple[str, tuple]]) -> str:
    return C.clist((C.cpair(C.cstr(k), c_val(v)) for k, v in m), "(str * val)")


def val_of_py(x: Any) -> tuple:
    if isinstance(x, str):
        return ("s", str(x))
    if isinstance(x, int):
        return ("i", x)
    if isinstance(x, list):
        return ("l", list(x))
    return ("s", f"<unexpected {type(x).__name__}>")


# ---------------------------------------------------------------- the world


ANALYSIS_HELPERS = ["variables", "variable_paths", "variable_segments", "global_variables",
                    "global_variable_paths", "global_variable_segments", "filter_names", "tag_names"]


def _bang(v: Any, *a: Any) -> Any:
    return (v if isinstance(v, str) else "") + "!"


LCLASSES = {
    "LiquidSyntaxError", "LiquidTypeError", "LiquidNameError", "LiquidValueError",
    "UndefinedError", "TemplateNotFoundError", "TemplateInheritanceError",
    "RequiredBlockError", "DisabledTagError", "TranslationSyntaxError", "ResourceLimitError",
    "ContextDepthError", "LoopIterationLimitError", "OutputStreamLimitError",
    "LocalNamespaceLimitError", "UnknownFilterError", "LiquidIndexError",
}
PYKINDS = {"IndexError", "ValueError", "KeyError", "TypeError", "OverflowError", "ZeroDivisionError",
           "AssertionError", "OSError", "AttributeError", "RecursionError"}


def exc_obs(e: BaseException) -> tuple:
    from liquid2.exceptions import LiquidError

    n = type(e).__name__
    if isinstance(e, LiquidError):
        return ("lerr", n if n in LCLASSES else "OtherLiquidError")
    return ("pyexc", n if n in PYKINDS else "OtherPyError")


def _loader_classes() -> tuple[type, type]:
    from liquid2 import CachingDictLoader, DictLoader

    def wrap(base: type) -> type:
        class K(base):  # type: ignore[misc,valid-type]
            calls = 0
            fail_at: int | None = None

            def _count(self) -> None:
                self.calls += 1
                if self.fail_at is not None and self.calls == self.fail_at:
                    raise RuntimeError("injected fault: loader call")

            def load(self, env, name, *, globals=None, context=None, **kwargs):  # type: ignore[no-untyped-def]
                self._count()
                return super().load(env, name, globals=globals, context=context, **kwargs)

            async def load_async(self, env, name, *, globals=None, context=None, **kwargs):  # type: ignore[no-untyped-def]
                self._count()
                return await super().load_async(env, name, globals=globals, context=context, **kwargs)

        K.__name__ = "V" + base.__name__
        return K

    return wrap(DictLoader), wrap(CachingDictLoader)


class World:
    """Real liquid2 objects shared by the steps of one history."""

    def __init__(self, loop: asyncio.AbstractEventLoop) -> None:
        import liquid2

        self.liquid2 = liquid2
        self.loop = loop
        CLOCK.k = 0
        # a pristine DEFAULT_ENVIRONMENT per history (the module-level functions
        # read the global at call time)
        self.plain, self.cachingcls = _loader_classes()
        liquid2.DEFAULT_ENVIRONMENT = liquid2.Environment(loader=self.plain({}))
        self.envs: list[Any] = [liquid2.DEFAULT_ENVIRONMENT]
        self.caching: list[bool] = [False]
        self.owned: list[Any] = []
        self.cached_refs: dict[tuple[int, str], Any] = {}

    # -- helpers
    def _set_faults(self, e: int, fl: int | None) -> None:
        ld = self.envs[e].loader
        if hasattr(ld, "calls"):
            ld.calls = 0
            ld.fail_at = fl

    def _clear_faults(self) -> None:
        for env in self.envs:
            if hasattr(env.loader, "calls"):
                env.loader.calls = 0
                env.loader.fail_at = None

    def _resolve(self, h: tuple) -> tuple[int, Any] | None:
        if h[0] == "own":
            if h[1] >= len(self.owned) or self.owned[h[1]] is None:
                return None
            t = self.owned[h[1]]
            return self.envs.index(t.env), t
        t = self.cached_refs.get((h[1], h[2]))
        return None if t is None else (h[1], t)

    def snapshot(self) -> list[list[tuple[str, list[tuple[str, tuple]]]]]:
        out = []
        for env, caching in zip(self.envs, self.caching):
            if not caching:
                out.append([])
                continue
            ent = []
            for key in list(env.loader.cache):
                t = env.loader.cache._cache[key]
                ent.append((key, [(k, val_of_py(v)) for k, v in dict(t.global_data).items()]))
            out.append(ent)
        return out

    def _run(self, sync_fn: Any, async_fn: Any, is_async: bool) -> Any:
        if is_async:
            return self.loop.run_until_complete(async_fn())
        return sync_fn()

    # -- one step
    def step(self, op: tuple) -> tuple:
        liquid2 = self.liquid2
        k = op[0]
        self._clear_faults()
        try:
            if k == "env":
                _, auto, caching, removed, store, globs = op
                rm = list(removed)

                class Env(liquid2.Environment):  # type: ignore[name-defined,misc]
                    def setup_tags_and_filters(self) -> None:
                        super().setup_tags_and_filters()
                        for t in rm:
                            del self.tags[t]

                cls = self.cachingcls if caching else self.plain
                loader = cls({n: src_of(p) for n, p in store})
                self.envs.append(Env(loader=loader, auto_escape=auto, globals=py_map(globs)))
                self.caching.append(caching)
                return ("unit",)
            if k == "glob":
                self.envs[op[1]].globals[op[2]] = py_val(op[3])
                return ("unit",)
            if k == "filt":
                env = self.envs[op[1]]
                if op[3] is None:
                    env.filters.pop(op[2], None)
                elif op[3] == "bang":
                    env.filters[op[2]] = _bang
                else:
                    from liquid2.builtin.filters.string import upcase

                    env.filters[op[2]] = upcase
                return ("unit",)
            if k == "tick":
                CLOCK.k += 1
                return ("unit",)
            if k == "fs":
                _, e, p, g = op
                gl = py_map(g) or None
                self.owned.append(None)      # the call takes a slot whether or not it raises
                if e == 0:
                    t = liquid2.parse(src_of(p), globals=gl)
                else:
                    t = self.envs[e].from_string(src_of(p), globals=gl)
                self.owned[-1] = t
                return ("own", len(self.owned) - 1)
            if k == "gt":
                _, e, name, g, is_async = op
                env = self.envs[e]
                gl = py_map(g) or None
                if not self.caching[e]:
                    self.owned.append(None)
                t = self._run(lambda: env.get_template(name, globals=gl),
                              lambda: env.get_template_async(name, globals=gl), is_async)
                if self.caching[e]:
                    assert env.loader.cache._cache[name] is t
                    self.cached_refs[(e, name)] = t
                    return ("cached", e, name)
                self.owned[-1] = t
                return ("own", len(self.owned) - 1)
            if k == "r":
                _, h, d, fa, fl, is_async = op
                res = self._resolve(h)
                if res is None:
                    return ("bad",)
                e, t = res
                data = py_map(d, fa)
                self._set_faults(e, fl)
                out = self._run(lambda: t.render(**data), lambda: t.render_async(**data), is_async)
                return ("text", canon(out))
            if k == "qr":
                _, p, d, fa, fl, is_async = op
                data = py_map(d, fa)
                self._set_faults(0, fl)
                out = self._run(lambda: liquid2.render(src_of(p), **data),
                                lambda: liquid2.render_async(src_of(p), **data), is_async)
                return ("text", canon(out))
            if k == "an":
                _, h, is_async = op
                res = self._resolve(h)
                if res is None:
                    return ("bad",)
                _, t = res
                a = self._run(lambda: t.analyze(), lambda: t.analyze_async(), is_async)
                # every helper built on the analysis walks the partial graph again
                for helper in ANALYSIS_HELPERS:
                    got = self._run(getattr(t, helper), getattr(t, helper + "_async"), is_async)
                    if helper == "variables" and sorted(got) != sorted(a.variables):
                        return ("names", ["<variables() differs from analyze().variables>"])
                return ("names", sorted(a.variables))
            raise ValueError(op)
        except Exception as e:  # noqa: BLE001
            return exc_obs(e)
        finally:
            self._clear_faults()


def is_render_like(op: tuple) -> bool:
    return op[0] in ("r", "qr", "an")


def slot_envs(ops: list[tuple]) -> list[int]:
    """The environment of every creating call (from_string, get_template on a
    non-caching loader), in order: the i-th one owns handle ("own", i)."""
    caching = [False] + [bool(o[2]) for o in ops if o[0] == "env"]
    out = []
    n_env = 1
    for o in ops:
        if o[0] == "env":
            n_env += 1
        elif o[0] == "fs" or (o[0] == "gt" and o[1] < n_env and not caching[o[1]]):
            out.append(o[1])
    return out


def op_env(op: tuple, owned_env: list[int]) -> int | None:
    """The environment an operation concerns (None: the clock / nothing)."""
    k = op[0]
    if k == "env":
        return -1  # creates one
    if k in ("glob", "filt", "fs", "gt"):
        return op[1]
    if k == "qr":
        return 0
    if k in ("r", "an"):
        h = op[1]
        if h[0] == "own":
            return owned_env[h[1]] if h[1] < len(owned_env) else None
        return h[1]
    return None


def run_history(ops: list[tuple], trace: bool = False, process: bool = False) -> list[dict[str, Any]]:
    """Run a history on real objects.  trace: snapshot the history's objects
    (environments, parsers, tags, templates) around every step, successful or
    not; with `process` also every container / object held by liquid2's modules
    and classes (used in a pristine process to localise a difference)."""
    loop = asyncio.new_event_loop()
    try:
        w = World(loop)
        steps = []
        state = world_state(w, process) if trace else {}
        for op in ops:
            ne, no = len(w.envs), len(w.owned)
            o = w.step(op)
            changed: list[str] = []
            if trace:
                after = world_state(w, process)
                changed = diff_states(op, state, after, ne, no)
                state = after
            steps.append({"obs": o, "snap": w.snapshot(), "trace": changed})
        return steps
    finally:
        loop.close()


def replay_then(prefix: list[tuple], op: tuple) -> tuple:
    loop = asyncio.new_event_loop()
    try:
        w = World(loop)
        for p in prefix:
            w.step(p)
        return w.step(op)
    finally:
        loop.close()


def fresh_obs(ops: list[tuple], i: int) -> tuple:
    """Step i on freshly built objects: only creation/configuration/clock steps replayed."""
    return replay_then([o for o in ops[:i] if not is_render_like(o)], ops[i])


def minimal_replay(ops: list[tuple], i: int) -> tuple[list[tuple], tuple, Any] | None:
    """Step i with everything it does not depend on left out: only the clock, the
    creation and configuration of ITS environment and the creation of ITS
    template are replayed (other templates, other from_string calls - failed
    ones too -, other environments and every render-like call are dropped;
    handles renumbered).  Returns (prefix, op, rename) where rename maps the
    step's recorded observation to the expected one."""
    owned_env = slot_envs(ops[:i])
    e = op_env(ops[i], owned_env)
    if e is None or e == -1:
        return None
    env_map = {0: 0}
    if e != 0:
        env_map[e] = 1
    op = ops[i]
    k = op[0]
    keep_slot: int | None = None
    keep_name: str | None = None
    if k in ("r", "an"):
        if op[1][0] == "own":
            keep_slot = op[1][1]
        else:
            keep_name = op[1][2]
    elif k == "gt":
        keep_name = op[2]
    prefix: list[tuple] = []
    n_env_seen, n_slot, new_slot = 1, 0, None
    caching = [False] + [bool(o[2]) for o in ops if o[0] == "env"]
    for o in ops[:i]:
        kk = o[0]
        if kk == "env":
            if n_env_seen == e:
                prefix.append(o)
            n_env_seen += 1
        elif kk == "tick":
            prefix.append(o)
        elif kk in ("glob", "filt") and o[1] == e:
            prefix.append((kk, env_map[e]) + tuple(o[2:]))
        elif kk == "fs" or (kk == "gt" and o[1] < len(caching) and not caching[o[1]]):
            if n_slot == keep_slot:
                new_slot = 0
                prefix.append((kk, env_map[e]) + tuple(o[2:]))
            n_slot += 1
        elif kk == "gt" and o[1] == e and o[2] == keep_name:
            prefix.append((kk, env_map[e]) + tuple(o[2:]))
    if k in ("glob", "filt", "fs", "gt"):
        op2: tuple = (k, env_map[e]) + tuple(op[2:])
    elif k in ("r", "an"):
        if op[1][0] == "own":
            if new_slot is None:
                return None
            op2 = (k, ("own", 0)) + tuple(op[2:])
        else:
            op2 = (k, ("cached", env_map[e], op[1][2])) + tuple(op[2:])
    else:
        op2 = op

    def rename(obs: tuple) -> tuple:
        if obs[0] == "own":
            return ("own", 0)
        if obs[0] == "cached":
            return ("cached", env_map[e], obs[2])
        return obs

    return prefix, op2, rename


# ---------------------------------------------------------------- a pristine process


def _write_msg(fd: int, obj: Any) -> None:
    data = pickle.dumps(obj)
    os.write(fd, struct.pack("<I", len(data)))
    off = 0
    while off < len(data):
        off += os.write(fd, data[off:off + 65536])


def _read_msg(fd: int) -> Any:
    head = b""
    while len(head) < 4:
        c = os.read(fd, 4 - len(head))
        if not c:
            return None
        head += c
    n = struct.unpack("<I", head)[0]
    buf = b""
    while len(buf) < n:
        c = os.read(fd, n - len(buf))
        if not c:
            return None
        buf += c
    return pickle.loads(buf)


def _handle(req: tuple) -> Any:
    if req[0] == "replay":
        return replay_then(req[1], req[2])
    if req[0] == "generate":
        r = C.rng("c09")
        thorough = req[1]
        hist = list(corpus())
        hist += fault_sweeps(r, 60 if thorough else 8)
        for _ in range(1600 if thorough else 160):
            hist.append(gen_history(r, 10 if thorough else 6))
        return hist
    if req[0] == "matterfresh":
        return matter_fresh(*req[1:])
    if req[0] == "rawrender":
        return raw_fresh(*req[1:])
    if req[0] == "trace":
        return [(s["obs"], s["trace"]) for s in run_history(req[1], trace=True, process=True)]
    if req[0] == "choicefresh":
        return choice_fresh(*req[1:])
    if req[0] == "concfresh":
        return conc_fresh(*req[1:])
    if req[0] == "fsrender":
        return fs_fresh_render(*req[1:])
    raise ValueError(req[0])


class Pristine:
    """A server process forked from this one when liquid2 had been imported (and
    the clock patched) but nothing had been parsed or rendered yet.  Every
    request is evaluated in a child forked from that server, so what it sees is
    a process in which no template was ever parsed or rendered."""

    def __init__(self) -> None:
        r1, w1 = os.pipe()
        r2, w2 = os.pipe()
        sys.stdout.flush()
        pid = os.fork()
        if pid == 0:
            try:
                os.close(w1)
                os.close(r2)
                while True:
                    req = _read_msg(r1)
                    if req is None:
                        break
                    c = os.fork()
                    if c == 0:
                        try:
                            try:
                                res = _handle(req)
                            except BaseException as e:  # noqa: BLE001
                                res = ("crash", repr(e))
                            _write_msg(w2, res)
                        finally:
                            os._exit(0)
                    _, status = os.waitpid(c, 0)
                    if status != 0:
                        _write_msg(w2, ("crash", f"child status {status}"))
            finally:
                os._exit(0)
        os.close(r1)
        os.close(w2)
        self.w, self.r, self.pid = w1, r2, pid
        self.calls = 0

    def call(self, req: tuple) -> Any:
        self.calls += 1
        _write_msg(self.w, req)
        return _read_msg(self.r)

    def close(self) -> None:
        try:
            os.close(self.w)
            os.close(self.r)
            os.waitpid(self.pid, 0)
        except OSError:
            pass


# ---------------------------------------------------------------- "no trace" snapshots

_CONTAINERS = (dict, list, set, collections.deque)   # OrderedDict / defaultdict are dicts


_SLOTS: dict[type, tuple[str, ...]] = {}


def _slot_names(t: type) -> tuple[str, ...]:
    names = _SLOTS.get(t)
    if names is None:
        acc: list[str] = []
        for cls in t.__mro__:
            sl = cls.__dict__.get("__slots__", ())
            if isinstance(sl, str):
                sl = (sl,)
            acc += [n for n in sl if n not in ("__dict__", "__weakref__")]
        names = _SLOTS[t] = tuple(acc)
    return names


def _fields(o: Any) -> list[tuple[str, Any]]:
    out: list[tuple[str, Any]] = []
    d = getattr(o, "__dict__", None)
    if isinstance(d, dict):
        out += list(d.items())
    for name in _slot_names(type(o)):
        try:
            out.append((name, getattr(o, name)))
        except AttributeError:
            pass
    return out


_SKIP_FIELDS = {"cache", "calls", "fail_at", "_lock"}   # loader cache: modelled state; harness fault counters


_ROOT: dict[type, bool] = {}


def _is_root_object(o: Any) -> bool:
    """Environments and templates are fingerprinted under their own path; where
    another object points at them only the identity counts."""
    t = type(o)
    v = _ROOT.get(t)
    if v is None:
        v = _ROOT[t] = any(c.__name__ in ("Environment", "Template") and (c.__module__ or "").startswith("liquid2")
                           for c in t.__mro__)
    return v


def fp(o: Any, depth: int, seen: set[int], top: bool = False) -> Any:
    """A structural fingerprint: values of containers and of liquid2 objects
    down to `depth`, identities below."""
    if o is None or isinstance(o, (bool, int, float, str, bytes)):
        return o
    t = type(o)
    if not top and _is_root_object(o):
        return (t.__qualname__, id(o))
    if isinstance(o, (list, tuple, collections.deque)):
        return (t.__name__, tuple(fp(x, depth - 1, seen) for x in o)) if depth > 0 else (t.__name__, len(o))
    if isinstance(o, dict):
        if depth <= 0:
            return (t.__name__, len(o))
        return (t.__name__, tuple((fp(k, depth - 1, seen), fp(v, depth - 1, seen)) for k, v in list(o.items())))
    if isinstance(o, (set, frozenset)):
        return (t.__name__, tuple(sorted(repr(fp(x, depth - 1, seen)) for x in o))) if depth > 0 else (t.__name__, len(o))
    if isinstance(o, (type, types.FunctionType, types.BuiltinFunctionType, types.MethodType, types.ModuleType)):
        return ("ref", getattr(o, "__qualname__", getattr(o, "__name__", "?")), id(o))
    if isinstance(o, functools.partial):
        return ("partial", fp(o.func, depth - 1, seen), fp(o.args, depth - 1, seen), fp(o.keywords, depth - 1, seen))
    if hasattr(o, "cache_info") and hasattr(o, "__wrapped__"):
        return ("lru", tuple(o.cache_info()))
    mod = getattr(t, "__module__", "") or ""
    if (mod.startswith("liquid2") or mod.startswith("harness")) and depth > 0 and id(o) not in seen:
        seen.add(id(o))
        return (t.__qualname__, id(o),
                tuple((n, fp(v, depth - 1, seen)) for n, v in _fields(o) if n not in _SKIP_FIELDS))
    return (t.__qualname__, id(o))


def _h(x: Any) -> int:
    try:
        return hash(x)
    except TypeError:
        return hash(repr(x))


def process_state() -> dict[str, int]:
    """Every mutable container (and every liquid2 object, lru_cache) held by a
    liquid2 module global or by a class attribute of a liquid2 class."""
    out: dict[str, int] = {}
    done: set[int] = set()
    for mname, mod in list(sys.modules.items()):
        if not (mname == "liquid2" or mname.startswith("liquid2.")) or mod is None:
            continue
        for name, val in list(vars(mod).items()):
            if name.startswith("__") or (mname == "liquid2" and name == "DEFAULT_ENVIRONMENT"):
                continue
            if id(val) in done:
                continue
            done.add(id(val))
            if isinstance(val, type):
                if (getattr(val, "__module__", "") or "").startswith("liquid2"):
                    for attr, cv in list(vars(val).items()):
                        if attr.startswith("__") and attr != "__slots__":
                            continue
                        if isinstance(cv, _CONTAINERS) or (hasattr(cv, "cache_info") and hasattr(cv, "__wrapped__")):
                            out[f"cls:{val.__module__}.{val.__qualname__}.{attr}"] = _h(fp(cv, 3, set()))
                continue
            if isinstance(val, (types.FunctionType, types.ModuleType, types.BuiltinFunctionType)):
                if hasattr(val, "cache_info") and hasattr(val, "__wrapped__"):
                    out[f"mod:{mname}.{name}"] = _h(fp(val, 1, set()))
                continue
            tm = getattr(type(val), "__module__", "") or ""
            if isinstance(val, _CONTAINERS) or tm.startswith("liquid2") or hasattr(val, "cache_info"):
                out[f"mod:{mname}.{name}"] = _h(fp(val, 3, set()))
    return out


def world_state(w: "World", process: bool = False) -> dict[str, int]:
    """The objects of one history (environments with parser and tags, templates);
    with `process`, also the process-wide state."""
    out = process_state() if process else {}
    for i, env in enumerate(w.envs):
        for attr, val in list(vars(env).items()):
            out[f"env{i}.{attr}"] = _h(fp(val, 4, set()))
        for attr, val in _fields(env.parser):
            out[f"env{i}.parser.{attr}"] = _h(fp(val, 3, set()))
        for tname, tag in list(env.tags.items()):
            out[f"env{i}.tag.{tname}"] = _h(fp(tag, 3, set()))
    for j, t in enumerate(w.owned):
        if t is not None:
            out[f"tmpl:own{j}"] = _h(fp(t, 14, set(), top=True))
    for (e, name), t in w.cached_refs.items():
        out[f"tmpl:cached{e}:{name}"] = _h(fp(t, 14, set(), top=True))
    return out


def allowed_change(op: tuple, path: str, w: "World", n_envs_before: int, n_owned_before: int) -> bool:
    """Changes that ARE the operation (the session state the model has)."""
    k = op[0]
    if k == "env":
        return path.startswith(f"env{n_envs_before}.")
    if k == "glob":
        return path == f"env{op[1]}.globals"
    if k == "filt":
        return path == f"env{op[1]}.filters"
    if k in ("fs", "gt") and path == f"tmpl:own{n_owned_before}":
        return True
    if k == "gt" and path == f"tmpl:cached{op[1]}:{op[2]}":
        return True     # new reference, or the shared object's global_data re-bound
    return False


def diff_states(op: tuple, before: dict[str, int], after: dict[str, int], ne: int, no: int) -> list[str]:
    return [p for p in sorted(set(before) | set(after))
            if before.get(p) != after.get(p) and not allowed_change(op, p, None, ne, no)]


# ---------------------------------------------------------------- Coq terms


def c_opt_nat(n: int | None) -> str:
    return C.copt(C.cnat(n) if n is not None else None, "nat")


def c_href(h: tuple) -> str:
    if h[0] == "own":
        return f"(Own {C.cnat(h[1])})"
    return f"(Cached {C.cnat(h[1])} {C.cstr(h[2])})"


def c_hop(op: tuple) -> str:
    k = op[0]
    if k == "env":
        _, auto, caching, removed, store, globs = op
        st = C.clist((C.cpair(C.cstr(n), c_prog(p)) for n, p in store), "(str * prog)")
        return (f"CreateEnv {C.cbool(auto)} {C.cbool(caching)} (tg {C.clist(map(C.cstr, removed), 'str')}) "
                f"{st} {c_map(globs)}")
    if k == "glob":
        return f"SetGlobal {C.cnat(op[1])} {C.cstr(op[2])} {c_val(op[3])}"
    if k == "filt":
        b = {None: "None", "bang": "(Some FBang)", "up": "(Some FUp)"}[op[3]]
        return f"SetFilter {C.cnat(op[1])} {C.cstr(op[2])} {b}"
    if k == "tick":
        return "AdvanceClock"
    if k == "fs":
        return f"FromString {C.cnat(op[1])} {c_prog(op[2])} {c_map(op[3])}"
    if k == "gt":
        return f"GetTemplate {C.cnat(op[1])} {C.cstr(op[2])} {c_map(op[3])}"
    if k == "r":
        return f"Render {c_href(op[1])} {c_map(op[2])} {c_opt_nat(op[3])} {c_opt_nat(op[4])}"
    if k == "qr":
        return f"QuickRender {c_prog(op[1])} {c_map(op[2])} {c_opt_nat(op[3])} {c_opt_nat(op[4])}"
    if k == "an":
        return f"Analyze {c_href(op[1])}"
    raise ValueError(op)


def c_obs(o: tuple) -> str:
    k = o[0]
    if k == "text":
        return f"(Ok (OText {C.cstr(o[1])}))"
    if k == "own":
        return f"(Ok (OHandleOwn {C.cnat(o[1])}))"
    if k == "cached":
        return f"(Ok (OHandleCached {C.cnat(o[1])} {C.cstr(o[2])}))"
    if k == "names":
        return f"(Ok (ONames {C.clist(map(C.cstr, o[1]), 'str')}))"
    if k == "unit":
        return "(Ok OUnit)"
    if k == "bad":
        return "(Ok OBad)"
    if k == "lerr":
        return f"(LErr {o[1]} None)"
    if k == "pyexc":
        return f"(PyExc {o[1]})"
    raise ValueError(o)


def c_snap(snap: list) -> str:
    return C.clist((C.clist((C.cpair(C.cstr(k), c_map(g)) for k, g in env), "(str * gmap)")
                    for env in snap), "cachet")


def c_case(ops: list[tuple], steps: list[dict[str, Any]]) -> tuple[str, str]:
    hist = C.clist(map(c_hop, ops), "hop")
    exp = C.clist((C.cpair(c_obs(s["obs"]), c_snap(s["snap"])) for s in steps),
                  "(res obs * list cachet)")
    return (f"run_eqb (run {FUEL} init {hist}) {exp}", f"run {FUEL} init {hist}")


# ---------------------------------------------------------------- generators

VARS = ["x", "y", "c", "now"]
LOCALS = ["l", "x", "c"]
COUNTERS = ["c", "x", "n"]
ARRS = ["arr", "x", "l"]
TEXTS = ["t", "<", "u ", "&"]
# date strings that name only part of a date: the rest comes from the clock at render time
# (time only, month and day, weekday); "noon" is not a date for dateutil and comes back unchanged
DATE_STRINGS = ["10:30", "March 3", "Friday 9am", "noon"]
FMTS = ["%Y-%m-%d", "<b>%Y-%m-%d", "q"]
FILTERS = ["upcase", "bang", "date", "sh"]
KEYS = ["k", "j"]


def gen_expr(r: Any, lits: list[str] = TEXTS) -> tuple:
    return ("L", r.choice(lits)) if r.random() < 0.5 else ("V", r.choice(VARS + ["l", "f", "a"]))


def gen_op(r: Any, depth: int, names: list[str]) -> tuple:
    kinds = ["T", "E", "E", "EF", "D", "D", "I", "I", "Dc", "C", "FC", "FC", "FA", "A", "A", "Cap", "M",
             "Call", "Call", "DN", "DN", "DO", "DO", "DO", "Tr", "Fail", "now", "now"]
    if names:
        kinds += ["Inc", "Inc", "Ren", "Ren"]
    if depth >= 2:
        kinds = [k for k in kinds if k not in ("Cap", "M")]
    k = r.choice(kinds)
    if k == "T":
        return ("T", r.choice(TEXTS))
    if k == "E":
        return ("E", r.choice(VARS + ["l", "a", "g", "d", "arr", "today"]))
    if k == "now":
        return ("E", r.choice(["now", "today"]))
    if k == "EF":
        return ("EF", r.choice(VARS + ["l", "arr", "a"]), r.choice(FILTERS))
    if k == "D":
        return ("D", r.choice(KEYS))
    if k == "I":
        return ("I", r.choice(COUNTERS))
    if k == "Dc":
        return ("Dc", r.choice(COUNTERS))
    if k == "C":
        return ("C", r.choice(["g", "h"]), r.choice([["a", "b"], ["a", "b", "<"], ["z"]]))
    if k == "FC":
        return ("FC", r.choice(ARRS), r.choice([0, 1, 2, 3]))
    if k == "FA":
        return ("FA", r.choice(ARRS))
    if k == "A":
        return ("A", r.choice(LOCALS), gen_expr(r))
    if k == "Cap":
        return ("Cap", r.choice(LOCALS), gen_prog(r, depth + 1, names, lo=1, hi=3))
    if k == "M":
        return ("M", r.choice(["m", "n"]), gen_prog(r, depth + 1, names, lo=1, hi=3))
    if k == "Call":
        return ("Call", r.choice(["m", "n"]), gen_expr(r))
    if k == "DO":
        e = ("L", r.choice(FMTS[:2])) if r.random() < 0.75 else ("V", r.choice(["f", "x", "nosuch"]))
        return ("DO", r.choice(DATE_STRINGS), e)
    if k == "DN":
        e = ("L", r.choice(FMTS)) if r.random() < 0.6 else ("V", r.choice(["f", "x", "nosuch"]))
        return ("DN", r.random() < 0.3, e)
    if k == "Tr":
        return ("Tr", r.choice(VARS + ["l"]))
    if k == "Inc":
        return ("Inc", r.choice(names + (["zz"] if r.random() < 0.1 else [])))
    if k == "Ren":
        return ("Ren", r.choice(names + (["zz"] if r.random() < 0.05 else [])))
    return ("Fail",) if r.random() < 0.3 else ("T", "w")


def gen_prog(r: Any, depth: int, names: list[str], lo: int = 1, hi: int = 6) -> list[tuple]:
    return [gen_op(r, depth, names) for _ in range(r.randint(lo, hi))]


def break_prog(r: Any, p: list[tuple]) -> list[tuple]:
    """Put one malformed tag somewhere in the program, at a random nesting depth."""
    bodies = [i for i, o in enumerate(p) if o[0] in ("Cap", "M", "B")]
    if bodies and r.random() < 0.6:
        i = r.choice(bodies)
        o = p[i]
        return p[:i] + [(o[0], o[1], break_prog(r, list(o[2])))] + p[i + 1:]
    n = r.randrange(len(BROKEN))
    if n >= N_IMMEDIATE:
        return p + [("Bad", n)]
    at = r.randint(0, len(p))
    return p[:at] + [("Bad", n)] + p[at:]


def nested_prog(r: Any, names: list[str]) -> list[tuple]:
    """A moderately nested, valid program: captures / macros / blocks two deep."""
    inner = [("Cap", "l", gen_prog(r, 2, names, 1, 2)), ("I", "c")]
    return (gen_prog(r, 1, names, 0, 2)
            + [("M", "m", [("T", "("), ("Cap", "x", inner), ("E", "x"), ("T", ")")]),
               ("B", "nb", [("Call", "m", ("L", "z")), ("Cap", "y", gen_prog(r, 2, names, 1, 2)), ("E", "y")]),
               ("Call", "m", ("V", "x"))]
            + gen_prog(r, 1, names, 0, 2))


def gen_store(r: Any) -> list[tuple[str, list[tuple]]]:
    """Loader contents: partials (some with blocks, one that extends), a base
    with blocks, children and a grandchild.  Acyclic: a template only names
    templates defined before it."""
    p2 = gen_prog(r, 1, [], 1, 3) + ([("B", "pb", gen_prog(r, 1, [], 1, 2))] if r.random() < 0.5 else [])
    p1 = gen_prog(r, 1, ["p2"], 1, 4) + ([("M", "m", [("Ren", "p2"), ("E", "a")]), ("Call", "m", ("L", "t"))]
                                         if r.random() < 0.4 else [])
    base = ([("T", "[")] + gen_prog(r, 1, ["p1"], 0, 2)
            + [("B", "b", gen_prog(r, 1, ["p2"], 1, 3))] + gen_prog(r, 1, [], 0, 2)
            + [("B", "e", gen_prog(r, 1, [], 1, 2)), ("T", "]")])
    ch = (gen_prog(r, 1, [], 0, 2) + [("Ext", "ba"), ("B", "b", gen_prog(r, 1, ["p1"], 1, 3))]
          + gen_prog(r, 1, [], 0, 1))
    ch2 = [("Ext", "ba"), ("B", "e", gen_prog(r, 1, [], 1, 3))]
    gc = [("Ext", "ch")] + ([("B", "e", gen_prog(r, 1, [], 1, 2))] if r.random() < 0.7 else [])
    return [("p2", p2), ("p1", p1), ("ba", base), ("ch", ch), ("ch2", ch2), ("gc", gc)]


def gen_data(r: Any) -> list[tuple[str, tuple]]:
    d: list[tuple[str, tuple]] = []
    if r.random() < 0.7:
        d.append(("x", r.choice([("s", "dx"), ("s", "<i>"), ("l", ["p", "q<", "r"]), ("i", 7)])))
    if r.random() < 0.5:
        d.append(("y", ("s", r.choice(["dy", "&"]))))
    if r.random() < 0.7:
        d.append(("arr", ("l", r.choice([["a", "b", "c"], ["a"], [], ["a", "<", "c", "d"]]))))
    if r.random() < 0.8:
        d.append(("d", ("drop", [("k", r.choice(["vk", "<k>"]))] + ([("j", "vj")] if r.random() < 0.5 else []))))
    if r.random() < 0.4:
        d.append(("f", ("s", r.choice(FMTS))))
    if r.random() < 0.15:
        d.append(("c", ("s", "dc")))
    if r.random() < 0.1:
        d.append(("now", ("s", "shadow")))
    return d


def gen_globs(r: Any) -> list[tuple[str, tuple]]:
    g: list[tuple[str, tuple]] = []
    if r.random() < 0.5:
        g.append(("g", ("s", r.choice(["G1", "G2"]))))
    if r.random() < 0.2:
        g.append(("x", ("s", "gx")))
    return g


def gen_history(r: Any, maxlen: int) -> list[tuple]:
    """A random history, generated against live objects so that handles refer
    to templates that really exist (a failed from_string allocates nothing)."""
    loop = asyncio.new_event_loop()
    try:
        w = World(loop)
        ops: list[tuple] = []
        env_caching = [False]
        env_names: list[list[str]] = [[]]
        owned: list[int] = []      # one entry per creating call
        alive: list[int] = []      # the slots that hold a template
        cached: list[tuple[int, str]] = []

        def do(op: tuple) -> tuple:
            ops.append(op)
            return w.step(op)

        for _ in range(r.choice([0, 1, 1, 2])):
            removed = r.choice([[], [], [], ["increment"], ["macro", "call"], ["cycle"]])
            caching = r.random() < 0.6
            store = gen_store(r)
            do(("env", r.random() < 0.4, caching, removed, store, gen_globs(r)))
            env_caching.append(caching)
            env_names.append([nm for nm, _ in store])
        n = len(ops) + r.randint(3, maxlen)
        is_async = lambda: r.random() < 0.35  # noqa: E731
        while len(ops) < n:
            e = r.randrange(len(env_caching))
            roll = r.random()
            renders = [o for o in ops if o[0] in ("r", "qr")]
            if roll < 0.06:
                do(("tick",))
            elif roll < 0.12 and renders:
                # the same call again after the clock moved (fault-free this time)
                do(("tick",))
                o = r.choice(renders[-2:])
                do(o[:3] + (None, None, is_async()))
            elif roll < 0.14:
                do(("glob", e, r.choice(["g", "x"]), ("s", r.choice(["H1", "H2"]))))
            elif roll < 0.22:
                # removing a filter is only generated for non-caching loaders (the guard of
                # history_independent_partial; the excluded case is the known finding below)
                beh = r.choice(["bang", "up"] if env_caching[e] else [None, "bang", "up"])
                do(("filt", e, r.choice(["bang", "upcase", "date", "sh"]), beh))
            elif roll < 0.36:
                roll2 = r.random()
                if roll2 < 0.3:
                    prog = break_prog(r, nested_prog(r, env_names[e]) if r.random() < 0.5
                                      else gen_prog(r, 0, env_names[e], 2, 6))
                elif roll2 < 0.5:
                    prog = nested_prog(r, env_names[e])
                else:
                    prog = gen_prog(r, 0, env_names[e], 2, 6)
                o = do(("fs", e, prog, gen_globs(r)))
                owned.append(e)
                if o[0] == "own":
                    alive.append(len(owned) - 1)
            elif roll < 0.50 and env_names[e]:
                name = r.choice(env_names[e] + (["zz"] if r.random() < 0.05 else []))
                o = do(("gt", e, name, gen_globs(r), is_async()))
                if not env_caching[e]:
                    owned.append(e)
                    if o[0] == "own":
                        alive.append(len(owned) - 1)
                elif o[0] == "cached" and (e, name) not in cached:
                    cached.append((e, name))
            elif roll < 0.58:
                do(("qr", gen_prog(r, 0, [], 2, 6), gen_data(r), _fault(r), None, is_async()))
            elif roll < 0.64 and (alive or cached):
                do(("an", _pick_handle(r, alive, cached), is_async()))
                # nothing the analysis loaded may show in a Template the caller already holds
                for h in [("cached",) + c for c in cached][-3:]:
                    if r.random() < 0.7:
                        do(("r", h, gen_data(r), None, None, is_async()))
            elif roll < 0.72 and env_caching[e] and env_names[e]:
                # a partial held with its own globals; the (a)sync analysis of ANOTHER template that
                # includes / renders / extends it; then every held Template rendered
                part = r.choice(["p2", "p1", "ba", "ch"])
                o = do(("gt", e, part, [("g", ("s", "mine-" + part))], is_async()))
                if o[0] == "cached" and (e, part) not in cached:
                    cached.append((e, part))
                how = r.random()
                if how < 0.35 and part in ("ba", "ch"):
                    user = {"ba": "ch", "ch": "gc"}[part]
                    o = do(("gt", e, user, gen_globs(r), is_async()))
                    if o[0] == "cached" and (e, user) not in cached:
                        cached.append((e, user))
                    target: tuple = ("cached", e, user)
                else:
                    if part in ("ba", "ch") and how < 0.6:
                        prog = [("Ext", part), ("B", "b", [("T", "o"), ("E", "g")])]
                    else:
                        prog = [r.choice([("Inc", part), ("Ren", part)]), ("E", "g"),
                                ("M", "m", [("Ren", part)]), ("Call", "m", ("L", "t"))]
                    o = do(("fs", e, prog, gen_globs(r)))
                    owned.append(e)
                    if o[0] == "own":
                        alive.append(len(owned) - 1)
                    target = ("own", len(owned) - 1)
                do(("an", target, r.random() < 0.6))
                for c in cached[-4:]:
                    if c[0] == e:
                        do(("r", ("cached",) + c, gen_data(r), None, None, is_async()))
            elif alive or cached:
                last = [o[1] for o in ops if o[0] == "r"]
                h = last[-1] if last and r.random() < 0.4 else _pick_handle(r, alive, cached)
                do(("r", h, gen_data(r), _fault(r), _fault(r) if r.random() < 0.5 else None, is_async()))
        return ops
    finally:
        loop.close()


def _fault(r: Any) -> int | None:
    return r.choice([None, None, None, 1, 1, 2, 3])


def _pick_handle(r: Any, alive: list[int], cached: list[tuple[int, str]]) -> tuple:
    if cached and (not alive or r.random() < 0.5):
        e, n = r.choice(cached)
        return ("cached", e, n)
    return ("own", r.choice(alive))


# Hand-written histories: one per mechanism / per realistic mutant of the anchored code.
def corpus() -> list[list[tuple]]:
    S = lambda s: ("s", s)  # noqa: E731, N806
    base = [("T", "["), ("I", "c"), ("B", "b", [("T", "B"), ("D", "k"), ("I", "c")]),
            ("B", "e", [("T", "E"), ("E", "l")]), ("D", "j"), ("T", "]")]
    ch = [("A", "l", ("L", "v")), ("Ext", "ba"), ("B", "b", [("T", "C"), ("D", "k"), ("C", "g", ["a", "b"])])]
    ch2 = [("Ext", "ba"), ("B", "e", [("T", "F"), ("I", "c")])]
    p1 = [("I", "c"), ("E", "g"), ("Inc", "p2")]
    p2 = [("T", "P"), ("D", "k")]
    store = [("ba", base), ("ch", ch), ("ch2", ch2), ("p1", p1), ("p2", p2)]
    dk = [("d", ("drop", [("k", "K"), ("j", "J")]))]
    arr = [("arr", ("l", ["a", "b", "c"]))]
    hs: list[list[tuple]] = []
    # counters, cycles, offset: continue, locals, captures, macros: rendered twice, sync and async
    stateful = [("I", "c"), ("I", "c"), ("Dc", "n"), ("C", "g", ["a", "b"]), ("FC", "arr", 2), ("E", "l"),
                ("A", "l", ("L", "v")), ("Cap", "x", [("T", "q"), ("I", "c")]), ("E", "x"),
                ("Call", "m", ("L", "z")), ("M", "m", [("T", "("), ("E", "a"), ("I", "c"), ("T", ")")]),
                ("Call", "m", ("V", "l"))]
    hs.append([("fs", 0, stateful, []), ("r", ("own", 0), arr, None, None, False),
               ("r", ("own", 0), arr, None, None, True), ("r", ("own", 0), arr, None, None, False)])
    hs.append([("qr", stateful, arr, None, None, False), ("qr", stateful, arr, None, None, True)])
    # macros share their registry with the macro bodies (/repo 6700b3b): a macro calls another macro,
    # defines one, and itself (bounded by the context depth limit); nothing of it survives the render
    mac = [("M", "n", [("T", "n"), ("E", "a"), ("I", "c")]), ("M", "m", [("T", "("), ("Call", "n", ("V", "a")), ("M", "k", [("T", "k")]), ("T", ")")]),
           ("Call", "k", ("L", "0")), ("Call", "m", ("L", "x")), ("Call", "k", ("L", "1")), ("I", "c")]
    rec = [("T", "s"), ("M", "m", [("T", "r"), ("Call", "m", ("L", "y"))]), ("Call", "m", ("L", "x")), ("T", "e")]
    hs.append([("fs", 0, mac, []), ("fs", 0, rec, []), ("r", ("own", 0), [], None, None, False), ("r", ("own", 1), [], None, None, True),
               ("r", ("own", 0), [], None, None, True), ("r", ("own", 1), [], None, None, False), ("qr", mac, [], None, None, False)])
    # a failed render (every k) followed by the same render
    for k in (1, 2, 3, 4):
        hs.append([("env", False, False, [], store, []), ("gt", 1, "ch", [], False), ("gt", 1, "ba", [], False),
                   ("gt", 1, "ch2", [], True),
                   ("r", ("own", 0), dk, k, None, k % 2 == 0), ("r", ("own", 1), dk, None, None, False),
                   ("r", ("own", 2), dk, None, None, False), ("r", ("own", 0), dk, None, None, True)])
    for k in (1, 2, 3):
        hs.append([("env", False, True, [], store, []), ("gt", 1, "ch", [], False), ("gt", 1, "ba", [], False),
                   ("r", ("cached", 1, "ch"), dk, None, k, False), ("r", ("cached", 1, "ba"), dk, None, None, True),
                   ("r", ("cached", 1, "ch"), dk, None, None, False)])
    # the clock
    timey = [("E", "now"), ("T", "|"), ("E", "today"), ("T", "|"), ("DN", False, ("L", "%Y-%m-%d")),
             ("T", "|"), ("DN", True, ("L", "%Y-%m-%d")), ("A", "l", ("V", "now")), ("E", "l")]
    hs.append([("fs", 0, timey, []), ("r", ("own", 0), [], None, None, False), ("tick",),
               ("r", ("own", 0), [], None, None, False), ("tick",), ("tick",),
               ("r", ("own", 0), [], None, None, True), ("qr", timey, [], None, None, False)])
    # date strings that name only part of a date, across midnight, the end of a month and of a year
    party = []
    for ds in DATE_STRINGS:
        party += [("DO", ds, ("L", "%Y-%m-%d")), ("T", "|")]
    party += [("DO", "10:30", ("V", "f")), ("DO", "March 3", ("L", "<b>%Y-%m-%d"))]
    fdata = [("f", S("%Y-%m-%d"))]
    hs.append([("fs", 0, party, []), ("r", ("own", 0), fdata, None, None, False), ("tick",),
               ("r", ("own", 0), fdata, None, None, True), ("tick",), ("qr", party, fdata, None, None, False),
               ("r", ("own", 0), fdata, None, None, False), ("tick",), ("tick",), ("tick",), ("tick",), ("tick",),
               ("r", ("own", 0), fdata, None, None, False), ("env", True, False, [], [], []), ("fs", 1, party, []),
               ("r", ("own", 1), fdata, None, None, False), ("tick",), ("r", ("own", 1), fdata, None, None, True),
               ("r", ("own", 0), fdata, None, None, False)])
    # literal vs data-supplied date format under auto-escape (Markup == str in a cache key)
    hs.append([("env", True, False, [], [], []), ("fs", 1, [("DN", False, ("L", "<b>%Y-%m-%d"))], []),
               ("fs", 1, [("DN", False, ("V", "f"))], []), ("r", ("own", 0), [], None, None, False),
               ("r", ("own", 1), [("f", S("<b>%Y-%m-%d"))], None, None, False),
               ("r", ("own", 0), [], None, None, False)])
    # two environments configured differently
    two = [("EF", "x", "bang"), ("EF", "x", "upcase"), ("E", "g")]
    hs.append([("env", False, False, [], [], []), ("env", False, False, ["cycle"], [], [("g", S("G"))]),
               ("filt", 1, "bang", "bang"), ("filt", 2, "bang", "up"), ("fs", 1, two, []), ("fs", 2, two, []),
               ("r", ("own", 0), [("x", S("a"))], None, None, False), ("r", ("own", 1), [("x", S("a"))], None, None, False),
               ("filt", 2, "upcase", None), ("glob", 1, "g", S("H")), ("glob", 2, "g", S("H2")),
               ("r", ("own", 0), [("x", S("a"))], None, None, False), ("r", ("own", 1), [("x", S("a"))], None, None, False),
               ("fs", 1, [("E", "g")], []), ("r", ("own", 2), [], None, None, False), ("fs", 2, [("C", "g", ["a"])], [])])
    # environment globals are bound when the template is created, not when it is rendered
    hs.append([("env", False, False, [], [("p1", [("E", "g")])], [("g", S("G"))]), ("fs", 1, [("E", "g")], []),
               ("gt", 1, "p1", [], False), ("r", ("own", 0), [], None, None, False), ("glob", 1, "g", S("H")),
               ("r", ("own", 0), [], None, None, False), ("r", ("own", 1), [], None, None, True),
               ("fs", 1, [("E", "g")], []), ("r", ("own", 2), [], None, None, False)])
    # DEFAULT_ENVIRONMENT behind liquid2.parse / liquid2.render
    hs.append([("qr", two, [("x", S("a"))], None, None, False), ("filt", 0, "bang", "bang"),
               ("qr", two, [("x", S("a"))], None, None, False), ("fs", 0, two, [("g", S("T"))]),
               ("glob", 0, "g", S("E")), ("r", ("own", 0), [("x", S("b"))], None, None, True),
               ("qr", two, [("x", S("a"))], None, None, True)])
    # cached templates with globals: a render that includes them must not re-bind them
    hs.append([("env", False, True, [], store, [("g", S("E"))]), ("gt", 1, "p1", [("g", S("mine"))], False),
               ("r", ("cached", 1, "p1"), dk, None, None, False),
               ("fs", 1, [("Inc", "p1"), ("Inc", "p1")], []), ("r", ("own", 0), dk, None, None, False),
               ("r", ("cached", 1, "p1"), dk, None, None, False), ("an", ("own", 0), False),
               ("r", ("cached", 1, "p1"), dk, None, None, True), ("gt", 1, "p1", [], True),
               ("r", ("cached", 1, "p1"), dk, None, None, False)])
    # analysis (sync / async) of a template that includes / renders / extends a cached template the
    # caller holds with its own globals: the held object renders the same afterwards
    for an_async in (False, True):
        for user in ([("Inc", "p1")], [("Ren", "p1")], [("M", "m", [("Ren", "p1")]), ("Call", "m", ("L", "t"))],
                     [("Ext", "ba"), ("B", "b", [("T", "o")])]):
            held = "ba" if user[0][0] == "Ext" else "p1"
            hs.append([("env", False, True, [], store, [("g", S("E"))]),
                       ("gt", 1, held, [("g", S("mine")), ("l", S("L"))], an_async),
                       ("r", ("cached", 1, held), dk, None, None, False),
                       ("fs", 1, user, []), ("an", ("own", 0), an_async),
                       ("r", ("cached", 1, held), dk, None, None, an_async),
                       ("gt", 1, "ch", [], False), ("an", ("cached", 1, "ch"), an_async),
                       ("r", ("cached", 1, held), dk, None, None, False)])
    # translate blocks, analysis, async get_template
    hs.append([("env", True, True, [], store, []), ("fs", 1, [("Tr", "x"), ("Tr", "l"), ("A", "l", ("V", "x")), ("Tr", "l")], []),
               ("r", ("own", 0), [("x", S("<i>"))], None, None, False), ("r", ("own", 0), [("x", S("<i>"))], None, None, True),
               ("gt", 1, "ch", [], True), ("an", ("cached", 1, "ch"), True), ("an", ("cached", 1, "ch"), False),
               ("r", ("cached", 1, "ch"), dk, 2, None, True), ("r", ("cached", 1, "ch"), dk, None, None, False)])
    return hs


# Known finding stale-parse-after-filter-removal (c09_history_independent_refuted): the one
# configuration change the guard of the _partial theorems excludes.
STALE_PARSE: list[tuple] = [
    ("env", False, True, [], [("p", [("T", "P"), ("Call", "m", ("L", "z")), ("M", "m", [("EF", "a", "bang")])])], []),
    ("filt", 1, "bang", "bang"),
    ("fs", 1, [("Inc", "p")], []),
    ("r", ("own", 0), [], None, None, False),
    ("filt", 1, "bang", None),
    ("r", ("own", 0), [], None, None, False),
]


def fault_sweeps(r: Any, n_hist: int) -> list[list[tuple]]:
    """For a generated environment: render each stored template with the fault
    at every k (data access and loader call), each followed by the fault-free
    render of the same and of a sibling template."""
    out = []
    for _ in range(n_hist):
        store = gen_store(r)
        caching = r.random() < 0.5
        auto = r.random() < 0.3
        data = [("d", ("drop", [("k", "K"), ("j", "<J>")])), ("arr", ("l", ["a", "b", "c"])), ("x", ("s", "dx"))]
        name = r.choice(["ch", "gc", "ba", "ch2", "p1"])
        other = r.choice(["ba", "ch2", "ch"])
        setup = [("env", auto, caching, [], store, gen_globs(r)), ("gt", 1, name, [], False), ("gt", 1, other, [], False)]
        h0 = ("cached", 1, name) if caching else ("own", 0)
        h1 = ("cached", 1, other) if caching else ("own", 1)
        # dry run: how many accesses / loader calls does the fault-free render make?
        loop = asyncio.new_event_loop()
        try:
            w = World(loop)
            for o in setup:
                w.step(o)
            res = w._resolve(h0)
            if res is None:
                continue
            _, t = res
            dd = py_map(data, None)
            w._set_faults(1, None)
            try:
                t.render(**dd)
            except Exception:  # noqa: BLE001
                pass
            n_acc = dd["d"].n
            n_lds = w.envs[1].loader.calls
        finally:
            loop.close()
        for k in range(1, n_acc + 2):
            out.append(setup + [("r", h0, data, k, None, k % 2 == 0), ("r", h0, data, None, None, False),
                                ("r", h1, data, None, None, True)])
        for k in range(1, n_lds + 2):
            out.append(setup + [("r", h0, data, None, k, k % 2 == 1), ("r", h1, data, None, None, False),
                                ("r", h0, data, None, None, False)])
    return out


# ---------------------------------------------------------------- edited partials (file-system loader)


def _scratch() -> str:
    return tempfile.mkdtemp(prefix="c09_", dir=os.environ.get("VERIF_SCRATCH", "/var/tmp"))


def _write_tree(root: str, files: dict[str, str], stamp: int) -> None:
    for name, src in files.items():
        p = os.path.join(root, name)
        with open(p, "w") as f:
            f.write(src)
        os.utime(p, (1_000_000_000 + stamp, 1_000_000_000 + stamp))


def _call(loop: asyncio.AbstractEventLoop, sync_fn: Any, async_fn: Any, is_async: bool) -> tuple:
    try:
        out = loop.run_until_complete(async_fn()) if is_async else sync_fn()
        return ("text", out)
    except Exception as e:  # noqa: BLE001
        return exc_obs(e)


def fs_fresh_render(files: dict[str, str], name: str, data: list, is_async: bool, tick: int) -> tuple:
    """The render on freshly built objects: a new directory with the current
    files, a new Environment with a plain FileSystemLoader."""
    import liquid2

    root = _scratch()
    loop = asyncio.new_event_loop()
    try:
        CLOCK.k = tick
        _write_tree(root, files, 0)
        env = liquid2.Environment(loader=liquid2.FileSystemLoader(root))
        try:
            t = env.get_template(name)
        except Exception as e:  # noqa: BLE001
            return exc_obs(e)
        d = py_map(data)
        return _call(loop, lambda: t.render(**d), lambda: t.render_async(**d), is_async)
    finally:
        loop.close()
        shutil.rmtree(root, ignore_errors=True)


def fs_scenario(r: Any) -> dict[str, Any]:
    """Templates on disk behind a CachingFileSystemLoader(auto_reload=True):
    partials reached through include / render / extends / call, edited between
    renders of the same Template object and of re-fetched ones."""
    ver = [0]

    def body(names: list[str]) -> list[tuple]:
        ver[0] += 1
        return [("T", f"<{ver[0]}>")] + gen_prog(r, 1, names, 0, 2)

    files: dict[str, list[tuple]] = {}
    files["q"] = body([])
    files["p"] = body([]) + [r.choice([("Inc", "q"), ("Ren", "q")])] + ([("B", "pb", body([]))] if r.random() < 0.4 else [])
    files["ba"] = [("T", "[")] + body([]) + [("B", "b", body([]) + [("Inc", "p")]), ("B", "e", body([])), ("T", "]")]
    files["ch"] = [("Ext", "ba"), ("B", "b", body([]) + [r.choice([("Inc", "p"), ("Ren", "p")])])]
    files["gc"] = [("Ext", "ch"), ("B", "e", body([]))]
    files["m1"] = body([]) + [("Inc", "p"), ("I", "c")]
    files["m2"] = body([]) + [("Ren", "p"), ("M", "m", [("Ren", "q"), ("E", "a")]), ("Call", "m", ("L", "t")), ("Inc", "gc")]
    tops = ["m1", "m2", "ch", "gc", "ba"]
    deps = {"m1": ["p", "q"], "m2": ["p", "q", "gc", "ch", "ba"], "ch": ["ba", "p", "q"], "gc": ["ch", "ba", "p", "q"],
            "ba": ["p", "q"]}
    script: list[tuple] = []
    top = r.choice(tops)
    script.append(("get", top, r.random() < 0.5))
    data = [("x", ("s", "dx")), ("arr", ("l", ["a", "b", "c"]))]
    script.append(("render", 0, data, r.random() < 0.5))
    handles = 1
    for _ in range(r.randint(2, 4)):
        target = top if r.random() < 0.2 else r.choice(deps[top])
        roll = r.random()
        # the new file's mtime: earlier than the replaced one as often as later (restore from a
        # backup, cp -p, rsync -t), never one this file has had before
        back = r.random() < 0.5
        jump = (-1 if back else 1) * r.choice([1, 1, 2, 7, 3600, 86400])
        if roll < 0.12:
            script.append(("modify", target, break_prog(r, body([])), jump))
        elif roll < 0.2:
            script.append(("delete", target))
        else:
            new = list(files[target])
            new[0 if new[0][0] == "T" and new[0][1].startswith("<") else 1] = ("T", f"<{ver[0] + 1}>")
            ver[0] += 1
            if new == files[target]:
                new = [("T", f"<{ver[0]}>")] + new
            script.append(("modify", target, new, jump))
        if r.random() < 0.2:
            script.append(("tick",))
        # the same Template object again, sync and async, and a re-fetched one
        script.append(("render", r.randrange(handles), data, r.random() < 0.5))
        if r.random() < 0.6:
            script.append(("get", top, r.random() < 0.5))
            handles += 1
            script.append(("render", handles - 1, data, r.random() < 0.5))
        if r.random() < 0.3:
            script.append(("render", r.randrange(handles), data, r.random() < 0.5))
    return {"files": files, "script": script, "top": top}


def run_fs_scenario(sc: dict[str, Any]) -> list[dict[str, Any]]:
    """Returns, per render step: the observation and the inputs of the render
    (current files, with the rendered Template's own source as it was fetched)."""
    import liquid2

    root = _scratch()
    loop = asyncio.new_event_loop()
    try:
        CLOCK.k = 0
        current: dict[str, list[tuple]] = {n: list(p) for n, p in sc["files"].items()}
        mtime: dict[str, int] = {n: 0 for n in current}
        used: dict[str, set[int]] = {n: {0} for n in current}
        n_back = 0
        _write_tree(root, {n: src_of(p) for n, p in current.items()}, 0)
        env = liquid2.Environment(loader=liquid2.CachingFileSystemLoader(root, auto_reload=True))
        handles: list[tuple[str, Any, list[tuple] | None]] = []
        out = []
        for st in sc["script"]:
            k = st[0]
            if k == "get":
                name = st[1]
                try:
                    t = (loop.run_until_complete(env.get_template_async(name)) if st[2] else env.get_template(name))
                except Exception as e:  # noqa: BLE001
                    t = exc_obs(e)
                handles.append((name, t, current.get(name)))
            elif k == "modify":
                new = mtime.get(st[1], 0) + st[3]
                while new in used.setdefault(st[1], set()):
                    new += -1 if st[3] < 0 else 1
                used[st[1]].add(new)
                n_back += new < mtime.get(st[1], 0)
                mtime[st[1]] = new
                current[st[1]] = list(st[2])
                _write_tree(root, {st[1]: src_of(st[2])}, new)
            elif k == "delete":
                current.pop(st[1], None)
                try:
                    os.unlink(os.path.join(root, st[1]))
                except FileNotFoundError:
                    pass
            elif k == "tick":
                CLOCK.k += 1
            elif k == "render":
                name, t, own = handles[st[1]]
                inputs = dict(current)
                if own is not None:
                    inputs[name] = own
                else:
                    inputs.pop(name, None)
                if isinstance(t, tuple):
                    obs = t          # the fetch itself raised
                else:
                    d = py_map(st[2])
                    obs = _call(loop, lambda: t.render(**d), lambda: t.render_async(**d), st[3])
                out.append({"obs": obs, "name": name, "files": inputs, "data": st[2], "async": st[3], "tick": CLOCK.k,
                            "fetch_failed": isinstance(t, tuple), "backward_edits_so_far": n_back})
        return out
    finally:
        loop.close()
        shutil.rmtree(root, ignore_errors=True)


def fs_case(step: dict[str, Any]) -> tuple[list[tuple], list[dict[str, Any]]]:
    """The model's answer for the render on fresh objects with these inputs.
    Whether the fetch itself succeeds is decided by fresh objects, not by what
    the shared loader did (a stale cache may hand out an object for a file that
    no longer parses)."""
    ops: list[tuple] = [("env", False, False, [], sorted(step["files"].items()), [])]
    ops += [("tick",)] * step["tick"]
    ops += [("gt", 1, step["name"], [], False), ("r", ("own", 0), step["data"], None, None, False)]
    obs = step["obs"]
    fetched = run_history(ops[:-1])[-1]["obs"]
    if fetched[0] == "own":
        exp = [("unit",)] * (1 + step["tick"]) + [("own", 0), obs]
    else:
        exp = [("unit",)] * (1 + step["tick"]) + [obs, ("bad",)]
    return ops, [{"obs": o, "snap": [[], []]} for o in exp]


# ---------------------------------------------------------------- several search paths: overrides added and removed


def shadow_scenario(r: Any) -> dict[str, Any]:
    """A (Caching)FileSystemLoader over two or three directories.  Everything
    starts in the LAST directory; same-named files are then added to (and
    removed from) EARLIER directories between renders."""
    ndirs = r.choice([2, 2, 3])
    ver = [0]

    def body(tag: str, names: list[str]) -> list[tuple]:
        ver[0] += 1
        return [("T", f"<{tag}.{ver[0]}>")] + gen_prog(r, 1, names, 0, 1)

    def make(name: str, tag: str) -> list[tuple]:
        if name == "q":
            return body("q" + tag, [])
        if name == "p":
            return body("p" + tag, []) + [r.choice([("Inc", "q"), ("Ren", "q")])]
        if name == "ba":
            return [("T", "[")] + body("ba" + tag, []) + [("B", "b", body("b" + tag, []) + [("Inc", "p")]), ("T", "]")]
        if name == "ch":
            return [("Ext", "ba"), ("B", "b", body("ch" + tag, []) + [r.choice([("Inc", "p"), ("Ren", "q")])])]
        if name == "m1":
            return body("m1" + tag, []) + [("Inc", "p"), ("I", "c")]
        return body("m2" + tag, []) + [("Ren", "p"), ("M", "m", [("Ren", "q"), ("E", "a")]), ("Call", "m", ("L", "t")), ("Inc", "ch")]

    names = ["q", "p", "ba", "ch", "m1", "m2"]
    dirs: list[dict[str, list[tuple]]] = [{} for _ in range(ndirs)]
    for n in names:
        dirs[-1][n] = make(n, "@%d" % (ndirs - 1))
    deps = {"m1": ["p", "q"], "m2": ["p", "q", "ch", "ba"], "ch": ["ba", "p", "q"], "ba": ["p", "q"], "p": ["q"]}
    top = r.choice(["m1", "m2", "ch", "ba", "p"])
    data = [("x", ("s", "dx")), ("arr", ("l", ["a", "b", "c"]))]
    script: list[tuple] = [("get", top, r.random() < 0.5), ("render", 0, data, r.random() < 0.5)]
    handles = 1
    present = [set(d) for d in dirs]
    for _ in range(r.randint(2, 5)):
        target = top if r.random() < 0.25 else r.choice(deps[top])
        over = [d for d in range(ndirs - 1) if target in present[d]]
        if over and r.random() < 0.45:
            d = r.choice(over)
            script.append(("remove", d, target))          # the override goes away again
            present[d].discard(target)
        else:
            d = r.randrange(ndirs - 1)
            script.append(("put", d, target, make(target, "@%d" % d)))   # site / theme override (or a new version of it)
            present[d].add(target)
        script.append(("render", r.randrange(handles), data, r.random() < 0.5))
        if r.random() < 0.7:
            script.append(("get", top, r.random() < 0.5))
            handles += 1
            script.append(("render", handles - 1, data, r.random() < 0.5))
    return {"dirs": dirs, "script": script, "top": top, "caching": r.random() < 0.6}


def run_shadow_scenario(sc: dict[str, Any]) -> list[dict[str, Any]]:
    import liquid2

    root = _scratch()
    loop = asyncio.new_event_loop()
    try:
        CLOCK.k = 0
        dirs: list[dict[str, list[tuple]]] = [dict(d) for d in sc["dirs"]]
        paths = []
        for i, d in enumerate(dirs):
            p = os.path.join(root, f"d{i}")
            os.mkdir(p)
            paths.append(p)
            _write_tree(p, {n: src_of(pr) for n, pr in d.items()}, 0)
        cls = liquid2.CachingFileSystemLoader if sc["caching"] else liquid2.FileSystemLoader
        env = liquid2.Environment(loader=cls(paths))

        def effective() -> dict[str, list[tuple]]:
            out: dict[str, list[tuple]] = {}
            for d in reversed(dirs):
                out.update(d)
            return out

        seen: dict[str, list[list[tuple]]] = {n: [p] for n, p in effective().items()}
        handles: list[tuple[str, Any, list[tuple] | None]] = []
        stamp = 0
        out = []
        for st in sc["script"]:
            k = st[0]
            if k == "get":
                try:
                    t = (loop.run_until_complete(env.get_template_async(st[1])) if st[2] else env.get_template(st[1]))
                except Exception as e:  # noqa: BLE001
                    t = exc_obs(e)
                handles.append((st[1], t, effective().get(st[1])))
            elif k == "put":
                stamp += 1
                dirs[st[1]][st[2]] = list(st[3])
                _write_tree(paths[st[1]], {st[2]: src_of(st[3])}, stamp * (-1 if stamp % 2 else 1))
            elif k == "remove":
                dirs[st[1]].pop(st[2], None)
                try:
                    os.unlink(os.path.join(paths[st[1]], st[2]))
                except FileNotFoundError:
                    pass
            if k in ("put", "remove"):
                for n, p in effective().items():
                    if p not in seen.setdefault(n, []):
                        seen[n].append(p)
            if k == "render":
                name, t, own = handles[st[1]]
                inputs = effective()
                if own is not None:
                    inputs[name] = own
                else:
                    inputs.pop(name, None)
                if isinstance(t, tuple):
                    obs = t
                else:
                    d = py_map(st[2])
                    obs = _call(loop, lambda: t.render(**d), lambda: t.render_async(**d), st[3])
                out.append({"obs": obs, "name": name, "files": inputs, "data": st[2], "async": st[3], "tick": 0,
                            "fetch_failed": isinstance(t, tuple), "backward_edits_so_far": 0,
                            "earlier_meanings": {n: len(ps) - 1 for n, ps in seen.items() if len(ps) > 1},
                            })
        return out
    finally:
        loop.close()
        shutil.rmtree(root, ignore_errors=True)


# The witness of the FIXED finding caching-fs-loader-ignores-shadowing-file (e2f7d6d): run first
# on every run, with a caching loader; like every scenario of this stream it must equal a new
# loader over the same directories.
_D = [("x", ("s", "dx")), ("arr", ("l", ["a", "b", "c"]))]
SHADOW_WITNESS: dict[str, Any] = {
    "dirs": [{}, {"p": [("T", "<p@1.1>")], "m1": [("T", "<m1@1.2>"), ("Inc", "p"), ("Ren", "p")],
                  "ba": [("T", "["), ("B", "b", [("T", "<b@1.3>"), ("Inc", "p")]), ("T", "]")],
                  "ch": [("Ext", "ba"), ("B", "b", [("T", "<ch@1.4>"), ("Ren", "p")])]}],
    "top": "m1", "caching": True,
    "script": [("get", "m1", False), ("get", "ch", True), ("render", 0, _D, False), ("render", 1, _D, True),
               ("put", 0, "p", [("T", "<p@0.5-override>")]),
               ("render", 0, _D, False), ("render", 1, _D, False), ("render", 0, _D, True), ("render", 1, _D, True),
               ("get", "p", False), ("render", 2, _D, False), ("get", "p", True), ("render", 3, _D, True),
               ("put", 0, "ba", [("T", "("), ("B", "b", [("T", "<b@0.6-override>"), ("Inc", "p")]), ("T", ")")]),
               ("render", 1, _D, False), ("get", "ch", False), ("render", 4, _D, True),
               ("remove", 0, "p"), ("render", 0, _D, False), ("render", 1, _D, True), ("get", "p", False),
               ("render", 5, _D, False), ("remove", 0, "ba"), ("render", 1, _D, False), ("render", 4, _D, True)],
}


# ---------------------------------------------------------------- overlapping async loads on a cold cache


def _suspending(base: type) -> type:
    """A loader whose get_source_async really suspends (a few trips through the
    event loop, per template name), so that overlapping loads interleave."""

    class S(base):  # type: ignore[misc,valid-type]
        delays: dict[str, int] = {}

        async def get_source_async(self, env, template_name, *, context=None, **kwargs):  # type: ignore[no-untyped-def]
            for _ in range(self.delays.get(template_name, 1)):
                await asyncio.sleep(0)
            src = await super().get_source_async(env, template_name, context=context, **kwargs)
            for _ in range(self.delays.get("after:" + template_name, 0)):
                await asyncio.sleep(0)
            return src

    S.__name__ = "Suspending" + base.__name__
    return S


def conc_scenario(r: Any) -> dict[str, Any]:
    """Waves of overlapping tasks on one Environment with a caching loader that
    starts COLD: get_template_async(name, globals=Gi) + render_async, and
    from_string(...).render_async() of templates that include / render / extend
    the same partials; different globals per task."""
    store = [(n, [("T", n + ":"), ("E", "g"), ("T", ";")] + p) for n, p in gen_store(r)]
    names = [n for n, _ in store]
    waves = []
    for w in range(r.randint(1, 3)):
        tasks = []
        same = r.choice(names) if r.random() < 0.7 else None
        for i in range(r.randint(2, 4)):
            g = [("g", ("s", f"G{w}{i}"))] if r.random() < 0.9 else []
            data = [("x", ("s", f"d{i}")), ("arr", ("l", ["a", "b", "c"]))]
            if r.random() < 0.75:
                tasks.append(("gt", same or r.choice(names), g, data))
            else:
                part = same or r.choice(names)
                prog = [("E", "g"), r.choice([("Inc", part), ("Ren", part)]), ("I", "c")] + gen_prog(r, 0, names, 0, 2)
                tasks.append(("fs", prog, g, data))
        waves.append(tasks)
    delays = {n: r.randint(1, 3) for n in names}
    delays.update({"after:" + n: r.randint(0, 2) for n in names})
    return {"store": store, "waves": waves, "delays": delays, "fsloader": r.random() < 0.35,
            "auto": r.random() < 0.3, "globals": gen_globs(r) if r.random() < 0.3 else []}


def run_conc_scenario(sc: dict[str, Any]) -> list[list[tuple]]:
    import liquid2

    root = _scratch() if sc["fsloader"] else None
    loop = asyncio.new_event_loop()
    try:
        CLOCK.k = 0
        srcs = {n: src_of(p) for n, p in sc["store"]}
        if root is not None:
            _write_tree(root, srcs, 0)
            loader = _suspending(liquid2.CachingFileSystemLoader)(root, auto_reload=True)
        else:
            loader = _suspending(liquid2.CachingDictLoader)(srcs)
        loader.delays = dict(sc["delays"])
        env = liquid2.Environment(loader=loader, auto_escape=sc["auto"], globals=py_map(sc["globals"]))

        async def one(task: tuple) -> tuple:
            try:
                if task[0] == "gt":
                    t = await env.get_template_async(task[1], globals=py_map(task[2]) or None)
                else:
                    t = env.from_string(src_of(task[1]), globals=py_map(task[2]) or None)
                return ("text", await t.render_async(**py_map(task[3])))
            except Exception as e:  # noqa: BLE001
                return exc_obs(e)

        async def wave(tasks: list[tuple]) -> list[tuple]:
            return list(await asyncio.gather(*[one(t) for t in tasks]))

        return [loop.run_until_complete(wave(tasks)) for tasks in sc["waves"]]
    finally:
        loop.close()
        if root is not None:
            shutil.rmtree(root, ignore_errors=True)


def conc_fresh(store: list, auto: bool, globs: list, task: tuple) -> tuple:
    """The task alone on freshly built objects (plain DictLoader, sync)."""
    import liquid2

    CLOCK.k = 0
    env = liquid2.Environment(loader=liquid2.DictLoader({n: src_of(p) for n, p in store}), auto_escape=auto,
                              globals=py_map(globs))
    try:
        if task[0] == "gt":
            t = env.get_template(task[1], globals=py_map(task[2]) or None)
        else:
            t = env.from_string(src_of(task[1]), globals=py_map(task[2]) or None)
        return ("text", t.render(**py_map(task[3])))
    except Exception as e:  # noqa: BLE001
        return exc_obs(e)


def conc_case(sc: dict[str, Any], task: tuple, obs: tuple) -> tuple[list[tuple], list[dict[str, Any]]]:
    """The model's answer for the task on fresh objects."""
    ops: list[tuple] = [("env", sc["auto"], False, [], sc["store"], sc["globals"])]
    ops.append(("gt", 1, task[1], task[2], False) if task[0] == "gt" else ("fs", 1, task[1], task[2]))
    ops.append(("r", ("own", 0), task[3], None, None, False))
    created = obs[0] == "text" or run_history(ops)[1]["obs"][0] == "own"
    exp = [("unit",), ("own", 0), obs] if created else [("unit",), obs, ("bad",)]
    return ops, [{"obs": o, "snap": [[], []]} for o in exp]


# ---------------------------------------------------------------- choice loaders with failing delegates

FAULT_CLASSES = [OSError, PermissionError, TimeoutError, FileNotFoundError, BlockingIOError, ConnectionResetError]


def _faulty_delegate(base: type) -> type:
    """A delegate loader whose k-th get_source / get_source_async call of a step
    raises a transient I/O error."""

    class F(base):  # type: ignore[misc,valid-type]
        calls = 0
        fail_at: int | None = None
        fail_with: type = OSError
        fired = False
        _inside = False

        def _count(self) -> None:
            if self._inside:
                return
            self.calls += 1
            if self.fail_at is not None and self.calls == self.fail_at:
                self.fired = True
                raise self.fail_with("injected fault: delegate loader I/O")

        def get_source(self, env, template_name, *, context=None, **kwargs):  # type: ignore[no-untyped-def]
            self._count()
            return super().get_source(env, template_name, context=context, **kwargs)

        async def get_source_async(self, env, template_name, *, context=None, **kwargs):  # type: ignore[no-untyped-def]
            self._count()
            self._inside = True      # BaseLoader.get_source_async delegates to get_source
            try:
                return await super().get_source_async(env, template_name, context=context, **kwargs)
            finally:
                self._inside = False

    F.__name__ = "Faulty" + base.__name__
    return F


def choice_scenario(r: Any) -> dict[str, Any]:
    """ChoiceLoader / CachingChoiceLoader over two delegates ([dict, dict] or
    [file system, dict]) with names present in both (different text) and fault
    schedules per delegate."""
    def body(tag: str, names: list[str]) -> list[tuple]:
        return [("T", f"<{tag}>"), ("E", "g")] + gen_prog(r, 1, names, 0, 2)

    hi: dict[str, list[tuple]] = {}
    lo: dict[str, list[tuple]] = {}
    # q: low only; h: high only; p, ba, ch: in both, with different text
    lo["q"] = body("q.lo", [])
    hi["h"] = body("h.hi", [])
    for d, tag in ((hi, "hi"), (lo, "lo")):
        d["p"] = body("p." + tag, []) + [r.choice([("Inc", "q"), ("Ren", "q")])]
        d["ba"] = [("T", "[")] + body("ba." + tag, []) + [("B", "b", [("T", "b." + tag), ("Inc", "p")]), ("T", "]")]
        d["ch"] = [("Ext", "ba"), ("B", "b", body("ch." + tag, []) + [r.choice([("Inc", "p"), ("Ren", "h")])])]
    if r.random() < 0.5:
        del lo["ch"]
    tops = {
        "m1": body("m1", []) + [("Inc", "p"), ("Ren", "h")],
        "m2": body("m2", []) + [("Ren", "p"), ("M", "m", [("Ren", "q")]), ("Call", "m", ("L", "t")), ("Inc", "ch")],
    }
    which = r.random()
    if which < 0.5:
        hi.update(tops)
    else:
        lo.update(tops)
    names = sorted(set(hi) | set(lo))
    gl = {n: ([("g", ("s", "G-" + n))] if r.random() < 0.7 else []) for n in names}
    data = [("x", ("s", "dx")), ("arr", ("l", ["a", "b", "c"]))]
    script: list[tuple] = []
    for _ in range(r.randint(4, 8)):
        name = r.choice(["m1", "m2", "ch", "ba", "p", "p", "ch"])
        faults: dict[int, tuple[int, int]] = {}
        if r.random() < 0.45:
            faults[0] = (r.choice([1, 1, 2, 3]), r.randrange(len(FAULT_CLASSES)))
        if r.random() < 0.12:
            faults[1] = (r.choice([1, 2]), r.randrange(len(FAULT_CLASSES)))
        kind = r.random()
        is_async = r.random() < 0.5
        if kind < 0.55:
            script.append(("getrender", name, is_async, faults))
        elif kind < 0.75:
            prog = [("E", "g"), r.choice([("Inc", name), ("Ren", name)]), ("I", "c")]
            if name in ("ba", "ch") and r.random() < 0.5:
                prog = [("Ext", name), ("B", "b", [("T", "own"), ("Inc", "p")])]
            script.append(("fsrender", prog, is_async, faults))
        elif kind < 0.87:
            script.append(("analyze", name, is_async, faults))
        else:
            script.append(("rerender", name, is_async, faults))     # a Template object fetched earlier
        # every faulty step is followed by the same step without fault
        if faults:
            script.append(script[-1][:3] + ({},))
    return {"hi": hi, "lo": lo, "globals": gl, "data": data, "script": script,
            "caching": r.random() < 0.7, "fs_first": r.random() < 0.4, "auto": r.random() < 0.25}


def _choice_eval(env: Any, loop: Any, held: dict[str, Any], st: tuple, sc: dict[str, Any]) -> tuple:
    kind, what, is_async = st[0], st[1], st[2]
    d = py_map(sc["data"])

    def run(sync_fn: Any, async_fn: Any) -> Any:
        return loop.run_until_complete(async_fn()) if is_async else sync_fn()

    try:
        if kind == "fsrender":
            t = env.from_string(src_of(what))
            return ("text", run(lambda: t.render(**d), lambda: t.render_async(**d)))
        if kind == "rerender" and what in held:
            t = held[what]
        else:
            g = py_map(sc["globals"][what]) or None
            t = run(lambda: env.get_template(what, globals=g), lambda: env.get_template_async(what, globals=g))
            held[what] = t
        if kind == "analyze":
            a = run(lambda: t.analyze(), lambda: t.analyze_async())
            return ("names", sorted(a.variables))
        return ("text", run(lambda: t.render(**d), lambda: t.render_async(**d)))
    except Exception as e:  # noqa: BLE001
        return exc_obs(e)


def run_choice_scenario(sc: dict[str, Any]) -> list[dict[str, Any]]:
    import liquid2

    root = _scratch() if sc["fs_first"] else None
    loop = asyncio.new_event_loop()
    try:
        CLOCK.k = 0
        hi = {n: src_of(p) for n, p in sc["hi"].items()}
        lo = {n: src_of(p) for n, p in sc["lo"].items()}
        if root is not None:
            _write_tree(root, hi, 0)
            d0 = _faulty_delegate(liquid2.FileSystemLoader)(root)
        else:
            d0 = _faulty_delegate(liquid2.DictLoader)(hi)
        d1 = _faulty_delegate(liquid2.DictLoader)(lo)
        loader = (liquid2.CachingChoiceLoader([d0, d1]) if sc["caching"] else liquid2.ChoiceLoader([d0, d1]))
        env = liquid2.Environment(loader=loader, auto_escape=sc["auto"])
        held: dict[str, Any] = {}
        out = []
        for st in sc["script"]:
            for i, dl in enumerate((d0, d1)):
                dl.calls, dl.fired = 0, False
                dl.fail_at, dl.fail_with = None, OSError
                if i in st[3]:
                    dl.fail_at, dl.fail_with = st[3][i][0], FAULT_CLASSES[st[3][i][1]]
            obs = _choice_eval(env, loop, held, st, sc)
            fired = [i for i, dl in enumerate((d0, d1)) if dl.fired]
            for dl in (d0, d1):
                dl.fail_at = None
            out.append({"step": st, "obs": obs, "fired": fired,
                        "fault_class": FAULT_CLASSES[st[3][fired[0]][1]].__name__ if fired else None})
        return out
    finally:
        loop.close()
        if root is not None:
            shutil.rmtree(root, ignore_errors=True)


def choice_fresh(sc: dict[str, Any], st: tuple) -> tuple:
    """The step, fault-free, on freshly built objects (plain ChoiceLoader over plain DictLoaders)."""
    import liquid2

    loop = asyncio.new_event_loop()
    try:
        CLOCK.k = 0
        env = liquid2.Environment(loader=liquid2.ChoiceLoader([
            liquid2.DictLoader({n: src_of(p) for n, p in sc["hi"].items()}),
            liquid2.DictLoader({n: src_of(p) for n, p in sc["lo"].items()})]), auto_escape=sc["auto"])
        return _choice_eval(env, loop, {}, (st[0] if st[0] != "rerender" else "getrender", st[1], False, {}), sc)
    finally:
        loop.close()


def choice_case(sc: dict[str, Any], st: tuple, obs: tuple) -> tuple[list[tuple], list[dict[str, Any]]]:
    """The model's answer for the fault-free step on fresh objects: the
    effective loader contents are the low-priority delegate overlaid by the
    high-priority one."""
    merged = dict(sc["lo"])
    merged.update(sc["hi"])
    ops: list[tuple] = [("env", sc["auto"], False, [], sorted(merged.items()), [])]
    if st[0] == "fsrender":
        ops.append(("fs", 1, st[1], []))
    else:
        ops.append(("gt", 1, st[1], sc["globals"][st[1]], False))
    ops.append(("an", ("own", 0), False) if st[0] == "analyze" else ("r", ("own", 0), sc["data"], None, None, False))
    created = run_history(ops[:2])[1]["obs"]
    exp = [("unit",), ("own", 0), obs] if created[0] == "own" else [("unit",), created, ("bad",)]
    return ops, [{"obs": o, "snap": [[], []]} for o in exp]


# ---------------------------------------------------------------- constructs outside the model (oracle only)

RAW_PARTIALS = {
    "part": "P({{ v }}{% increment pc %})",
    "blk": "{% block inner %}i{{ v }}{% endblock %}",
    "base2": "<{% block a %}A{% endblock %}|{% block z %}Z{{ v }}{% endblock %}>",
    "kid": "{% extends 'base2' %}{% block a %}a{{ block.super }}{% render 'part', v: 'k' %}{% endblock %}",
    "loop": "{% for i in (1..2) %}{% include 'part' %}{% endfor %}",
}

RAW_SOURCES: list[str] = [
    # valid, moderately nested, beyond the program language of the model
    "{% if v %}{% for i in (1..3) %}{% case i %}{% when 1 %}a{% when 2 %}{% continue %}{% else %}c{% endcase %}{% endfor %}{% else %}n{% endif %}",
    "{% macro m a, b: 2 %}[{{ a }}{{ b }}{% render 'part', v: a %}]{% endmacro %}{% call m 1 %}{% call m 'x', b: 3 %}{% render 'part' %}",
    "{% call nope %}{% macro k %}{% render 'kid' %}{% endmacro %}{% call k %}{% render 'kid' %}{% include 'blk' %}",
    "{% render 'blk' %}{% render 'kid' %}{% include 'kid' %}{% render 'loop' %}",
    "{% with a: 1, b: v %}{{ a }}{{ b }}{% unless a == 2 %}u{% endunless %}{% endwith %}{{ a }}",
    "{% liquid\n assign q = v | upcase\n echo q\n if q\n  echo 'y'\n endif %}{% raw %}{{ r }}{% endraw %}{# c #}{% comment %}x{% endcomment %}",
    "{% for i in arr limit: 2 %}{{ forloop.index }}{% cycle 'x', 'y' %}{% endfor %}{% for i in arr offset: continue %}{{ i }}{% else %}e{% endfor %}",
    "{% for i in arr %}{% for j in arr %}{{ forloop.parentloop.index }}{% break %}{% endfor %}{% endfor %}",
    "{% capture c %}{% include 'part' %}{% render 'part', v: 1 %}{% endcapture %}{{ c | size }}{{ c }}{{ arr | join: ',' | append: v }}",
    "{{ v | default: 'd' | upcase }}{{ arr | map: 'x' | compact | size }}{{ 'a,b' | split: ',' | last }}{{ 5 | minus: 2 | times: 3 }}",
    "{% translate x: v %}T {{ x }}{% endtranslate %}{{ 'm' | t }}",
    "{% assign z = arr | first %}{% increment z %}{% decrement z %}{{ z }}",
    "{% extends 'base2' %}{% block z %}{% macro m a %}{{ a }}{% endmacro %}{% call m v %}{{ block.super }}{% endblock %}",
    "{% include 'nope' %}", "{% render 'part' %}{{ 1 | divided_by: 0 }}", "{% for i in (1..3) %}{% render 'kid' %}{{ i | nosuch }}{% endfor %}",
    # from_string that fails: lexer and parser errors at several nesting depths
    "{{ 'abc }}", "{% if v %}{% for i in arr %}{{ i | }}{% endfor %}{% endif %}", "{% if v %}{% for i in arr %}{% capture c %}{% endfor %}",
    "{% macro m a %}{% block b %}{% if %}{% endif %}{% endblock %}{% endmacro %}", "{% for i in arr %}{% case i %}{% when %}{% endcase %}{% endfor %}",
    "{% if v %}{% unless v %}{% with a: %}{% endwith %}{% endunless %}{% endif %}", "{% block a %}{% block b %}{% endblock a %}{% endblock %}",
    "{% if v %}{% else %}{% else %}{% endif %}{% endfor %}", "{% liquid\n if v\n  for i in arr\n   echo i |\n  endfor\n endif %}", "{% raw %}{{", "{% comment %}", "{{ v", "{% for i in (1..) %}{% endfor %}",
    "{% capture %}x{% endcapture %}", "{% extends %}", "{% call %}", "{% macro m a b %}{% endmacro %}", "{% translate %}{% if v %}{% endif %}{% endtranslate %}",
]


# Every registered filter that is a class instance (state on the object would outlive the call):
# called with its optional arguments, then with the defaults.
FILTER_SOURCES: list[str] = [
    "{{ obj | json: 2 }}", "{{ obj | json }}", "{{ arr | json: 4 }}|{{ arr | json }}",
    "{{ objs | map: 'title' | join: ',' }}", "{{ objs | map: i => i.n | join: ',' }}",
    "{{ objs | sort: 'n' | map: 'n' | join }}", "{{ nums | sort | join }}", "{{ objs | sort: i => i.title | map: 'n' | join }}",
    "{{ objs | sort_natural: 'title' | map: 'n' | join }}", "{{ arr | sort_natural | join }}",
    "{{ objs | sort_numeric: 'n' | map: 'n' | join }}", "{{ nums | sort_numeric | join }}",
    "{{ objs | sum: 'n' }}", "{{ nums | sum }}", "{{ objs | sum: i => i.n }}",
    "{{ objs | where: 'title', 'b' | map: 'n' | join }}", "{{ objs | where: 'ok' | map: 'n' | join }}",
    "{{ objs | reject: 'title', 'b' | map: 'n' | join }}", "{{ objs | reject: 'ok' | map: 'n' | join }}",
    "{{ objs | uniq: 'ok' | map: 'n' | join }}", "{{ dup | uniq | join }}",
    "{{ objs | compact: 'title' | map: 'n' | join }}", "{{ dup | compact | join }}",
    "{{ objs | find: 'title', 'a' | json }}", "{{ objs | find: 'ok' | json }}",
    "{{ objs | find_index: 'title', 'a' }}", "{{ objs | find_index: 'ok' }}",
    "{{ objs | has: 'title', 'zz' }}", "{{ objs | has: 'ok' }}",
    "{{ 'Hello %(you)s' | t: you: v }}", "{{ 'Hello' | t }}", "{{ 'Hello' | t: 'ctx', you: 1 }}",
    "{{ 'Hi %(n)s' | gettext: n: 2 }}", "{{ 'Hi' | gettext }}",
    "{{ 'one' | ngettext: 'many %(c)s', 2, c: 7 }}", "{{ 'one' | ngettext: 'many', 1 }}",
    "{{ 'x' | pgettext: 'c', k: 1 }}", "{{ 'x' | pgettext: 'c' }}", "{{ 'x' | npgettext: 'c', 'xs', 3, k: 1 }}", "{{ 'x' | npgettext: 'c', 'xs', 1 }}",
    "{{ 1234567.891 | currency: group_separator: false }}", "{{ 1234567.891 | currency }}",
    "{{ 1234567.891 | money: group_separator: false }}", "{{ 1234567.891 | money }}",
    "{{ 1234567.891 | money_with_currency: group_separator: false }}", "{{ 1234567.891 | money_with_currency }}",
    "{{ 1234567.891 | money_without_currency: group_separator: false }}", "{{ 1234567.891 | money_without_currency }}",
    "{{ 1234567.891 | money_without_trailing_zeros: group_separator: false }}", "{{ 1234567.891 | money_without_trailing_zeros }}",
    "{{ 1234567.891 | decimal: group_separator: false }}", "{{ 1234567.891 | decimal }}",
    "{{ when | datetime: format: 'full' }}", "{{ when | datetime }}", "{{ when | datetime: format: 'short' }}",
    "{{ 12 | unit: 'length-meter', format: 'long' }}", "{{ 12 | unit: 'length-meter' }}",
    "{{ 12 | unit: 'length-kilometer', denominator: 2, denominator_unit: 'duration-hour', length: 'narrow' }}", "{{ 12 | unit: 'length-kilometer' }}",
    "{% assign locale = 'de' %}{{ 1234.5 | decimal }}{{ 3 | currency }}", "{{ 1234.5 | decimal }}{{ 3 | currency }}",
]


def _raw_env(kind: int) -> Any:
    import liquid2

    ld = liquid2.DictLoader(dict(RAW_PARTIALS)) if kind == 0 else liquid2.CachingDictLoader(dict(RAW_PARTIALS))
    return liquid2.Environment(loader=ld, auto_escape=(kind == 1), globals={"g": "G"})


RAW_DATA = {"v": "<b>", "arr": ["p", "q", "r"], "nums": [3, 1, 2], "dup": ["a", None, "a", "b"],
            "obj": {"a": [1, 2], "b": "x"},
            "objs": [{"title": "b", "n": 2, "ok": True}, {"title": "a", "n": 1, "ok": False}, {"title": None, "n": 3, "ok": True}],
            "when": _dt.datetime(2001, 2, 3, 4, 5, 6)}


def _raw_once(env: Any, src: str, is_async: bool, loop: asyncio.AbstractEventLoop) -> tuple:
    try:
        t = env.from_string(src)
    except Exception as e:  # noqa: BLE001
        return ("parse",) + exc_obs(e)
    return _call(loop, lambda: t.render(**RAW_DATA), lambda: t.render_async(**RAW_DATA), is_async)


def raw_fresh(kind: int, src: str, is_async: bool) -> tuple:
    loop = asyncio.new_event_loop()
    try:
        CLOCK.k = 0
        return _raw_once(_raw_env(kind), src, is_async, loop)
    finally:
        loop.close()


def raw_stream(chk: C.Check, pristine: "Pristine", r: Any, rounds: int) -> tuple[int, int]:
    """Real templates with constructs the model does not have (if / case / with /
    liquid / nested render-call-include-extends ...) and many sources that fail
    to parse, all on two shared Environments: every from_string / render is
    compared with the same call in a pristine process on a new Environment, and
    snapshotted ("no trace")."""
    loop = asyncio.new_event_loop()
    n = n_fail = 0
    try:
        w = World(loop)
        w.envs += [_raw_env(0), _raw_env(1)]
        w.caching += [False, False]          # the caches are not part of the snapshot either way
        for _ in range(rounds):
            order = list(RAW_SOURCES)
            r.shuffle(order)
            # the filter calls keep their order (optional arguments first, defaults after), in
            # blocks spread over the shuffled sources
            for i in range(0, len(FILTER_SOURCES), 6):
                at = r.randint(0, len(order))
                order[at:at] = FILTER_SOURCES[i:i + 6]
            for src in order:
                kind = r.randrange(2)
                is_async = r.random() < 0.4
                before = world_state(w, True)
                got = _raw_once(w.envs[1 + kind], src, is_async, loop)
                after = world_state(w, True)
                n += 1
                n_fail += got[0] == "parse"
                changed = [p for p in sorted(set(before) | set(after)) if before.get(p) != after.get(p)]
                exp = pristine.call(("rawrender", kind, src, is_async))
                if changed:
                    chk.finding("no-trace:" + _path_kind(changed[0]),
                                f"from_string + render of {src!r} (observed {got[:3]}) changed {changed[:6]}",
                                {"source": src, "environment_kind": kind, "changed": changed, "partials": RAW_PARTIALS})
                if exp != got:
                    chk.finding("pristine-raw:" + f"{got[0]}-vs-{exp[0] if isinstance(exp, tuple) else exp}",
                                f"{src!r} on a shared Environment gives {got}; on a new Environment in a process that never parsed or "
                                f"rendered anything it gives {exp}",
                                {"source": src, "environment_kind": kind, "async": is_async, "shared": got, "pristine": exp,
                                 "partials": RAW_PARTIALS, "data": RAW_DATA})
        return n, n_fail
    finally:
        loop.close()


# ---------------------------------------------------------------- loader matter that outlives a load (oracle only)

_MP = "[{{ a }}|{{ y }}|{{ it }}|{{ forloop.index }}|{{ title }}|{{ m }}|{{ p.title }}]"
MATTER_SOURCES: dict[str, str] = {
    "p": _MP,
    "pa": "{% assign title = 'changed' %}{% capture m %}c{% endcapture %}{% increment n %}{% decrement k %}<{{ title }}{{ m }}{{ n }}{{ a }}>",
    "mid": "({% render 'p', a: a %}{% render 'pa' %})",
    "t1": "{% render 'p', a: 1 %}", "t2": "{% render 'p' %}", "t3": "{% render 'p' with x as y %}",
    "t4": "{% render 'p' for arr as it %}", "t4b": "{% render 'p' for arr %}", "t3b": "{% render 'p' with x %}",
    "t5": "{% include 'p', a: 2 %}", "t6": "{% include 'p' %}",
    "t7": "{% include 'p' with x as y %}{% include 'p' for arr as it %}",
    "t8": "{{ title }}{% render 'p', title: 'arg', m: 'M' %}{{ title }}",
    "t9": "{% render 'mid', a: 'deep' %}{% render 'mid' %}",
    "t10": "{% render 'pa', a: 3, n: 9 %}{% render 'pa' %}{% include 'pa', a: 4 %}{% include 'pa' %}{{ title }}",
    "t11": "{% macro mm a %}{% render 'p', a: a %}{% endmacro %}{% call mm 'viamacro' %}{% call mm %}{% render 'p' %}",
    "t12": "{% for i in arr %}{% render 'p', a: i %}{% endfor %}{% render 'p' %}",
}
MATTERS: dict[str, dict[str, Any]] = {
    "p": {"title": "P-title", "m": [1, 2]}, "pa": {"title": "PA", "m": "pm", "n": 5, "k": {"deep": [1]}},
    "mid": {"a": "mid-matter"}, "t8": {"title": "T8"}, "t10": {"title": "T10"}, "t2": {},
}
MATTER_DATA = {"x": "X", "arr": ["u", "v"]}
MATTER_KINDS = ["DictLoader", "CachingDictLoader", "FileSystemLoader", "CachingFileSystemLoader"]


def _matter_loader(kind: int, matters: dict[str, dict[str, Any]], root: str | None) -> Any:
    """A loader that supplies (front) matter and KEEPS its matter dicts: the same
    dict object is handed out on every load of the name."""
    import liquid2
    from liquid2.loader import TemplateSource

    base = getattr(liquid2, MATTER_KINDS[kind])

    class M(base):  # type: ignore[misc,valid-type]
        def get_source(self, env, template_name, *, context=None, **kwargs):  # type: ignore[no-untyped-def]
            s = super().get_source(env, template_name, context=context, **kwargs)
            return TemplateSource(s.source, s.name, s.uptodate, matters.get(template_name))

        async def get_source_async(self, env, template_name, *, context=None, **kwargs):  # type: ignore[no-untyped-def]
            s = await super().get_source_async(env, template_name, context=context, **kwargs)
            return TemplateSource(s.source, s.name, s.uptodate, matters.get(template_name))

    M.__name__ = "Matter" + base.__name__
    if root is None:
        return M(dict(MATTER_SOURCES))
    _write_tree(root, MATTER_SOURCES, 0)
    return M(root)


def _matter_once(env: Any, name: str, is_async: bool, loop: asyncio.AbstractEventLoop) -> tuple:
    d = dict(MATTER_DATA)
    try:
        t = loop.run_until_complete(env.get_template_async(name)) if is_async else env.get_template(name)
    except Exception as e:  # noqa: BLE001
        return ("fetch",) + exc_obs(e)
    return _call(loop, lambda: t.render(**d), lambda: t.render_async(**d), is_async)


def matter_fresh(kind: int, auto: bool, name: str, is_async: bool) -> tuple:
    import copy

    import liquid2

    root = _scratch() if kind >= 2 else None
    loop = asyncio.new_event_loop()
    try:
        CLOCK.k = 0
        env = liquid2.Environment(loader=_matter_loader(kind, copy.deepcopy(MATTERS), root), auto_escape=auto)
        return _matter_once(env, name, is_async, loop)
    finally:
        loop.close()
        if root is not None:
            shutil.rmtree(root, ignore_errors=True)


def matter_stream(chk: C.Check, pristine: "Pristine", r: Any, rounds: int) -> int:
    """Partials with loader matter, rendered with arguments / `with x as y` /
    `for`, then without, on one Environment per loader kind: each render equals
    a new Environment in a pristine process, and the loader's matter dicts (and
    the overlay_data of every Template the loader caches) are deep-equal to the
    original after every step."""
    import copy

    import liquid2

    n = 0
    for kind in range(len(MATTER_KINDS)):
        auto = r.random() < 0.3
        root = _scratch() if kind >= 2 else None
        loop = asyncio.new_event_loop()
        try:
            CLOCK.k = 0
            matters = copy.deepcopy(MATTERS)
            loader = _matter_loader(kind, matters, root)
            env = liquid2.Environment(loader=loader, auto_escape=auto)
            for _ in range(rounds):
                order = [x for x in MATTER_SOURCES if x != "mid"]
                r.shuffle(order)
                # arguments first, then the same partial without: t1 t2, t3 t2, t4 t2 ... somewhere in the order
                order += ["t1", "t2", "t3", "t6", "t4", "t2", "t10", "pa", "t8", "p"]
                for name in order:
                    is_async = r.random() < 0.4
                    got = _matter_once(env, name, is_async, loop)
                    n += 1
                    replay = {"loader": "Matter" + MATTER_KINDS[kind], "template": name, "async": is_async, "auto_escape": auto,
                              "sources": MATTER_SOURCES, "matter": MATTERS, "data": MATTER_DATA,
                              "how": "harness/c09.py matter_stream / matter_fresh"}
                    if matters != MATTERS:
                        bad = [k for k in MATTERS if matters.get(k) != MATTERS[k]]
                        chk.finding("matter:changed-by-render",
                                    f"after rendering {name!r} the matter the loader keeps for {bad} is {[matters.get(k) for k in bad]}, "
                                    f"it was {[MATTERS[k] for k in bad]}", replay)
                        matters.clear()
                        matters.update(copy.deepcopy(MATTERS))
                    cache = getattr(loader, "cache", None)
                    if cache is not None:
                        for key in list(cache):
                            t = cache._cache[key]
                            if dict(t.overlay_data) != MATTERS.get(key, {}):
                                chk.finding("matter:cached-template-overlay-changed",
                                            f"after rendering {name!r} the cached template {key!r} has overlay_data "
                                            f"{dict(t.overlay_data)}, the loader's matter is {MATTERS.get(key, {})}", replay)
                    exp = pristine.call(("matterfresh", kind, auto, name, is_async))
                    if exp != got:
                        chk.finding("matter:differs-from-fresh",
                                    f"{name!r} ({MATTER_SOURCES[name]!r}) on a shared Environment whose loader keeps its matter dicts "
                                    f"gives {got}; a new Environment in a pristine process gives {exp}",
                                    dict(replay, shared=got, pristine=exp))
        finally:
            loop.close()
            if root is not None:
                shutil.rmtree(root, ignore_errors=True)
    return n


# ---------------------------------------------------------------- round-8 reviewer observations (oracle only)
#
# Caching loaders seen from several callers: a loader shared by two Environments with different
# options, Template objects held while other callers load the same name, the documentation's
# tag-dispatching loader under the caching mixin, a CachingDictLoader whose dictionary is edited.
# Every call must equal the same call on freshly built objects.  Differences that are exactly an
# OPEN recorded finding go under its signature; anything else is a violation.


def _snippets_loader(fixed: bool) -> type:
    """docs/loading_templates.md "Load context": include / render look in snippets/.
    fixed=False is the example verbatim; fixed=True also overrides cache_key()
    (proposed_fixes/C09/0005)."""
    import pathlib

    import liquid2

    class SnippetsFileSystemLoader(liquid2.CachingFileSystemLoader):
        def get_source(self, env, template_name, *, context=None, **kwargs):  # type: ignore[no-untyped-def]
            if kwargs.get("tag") in ("include", "render"):
                snippet = pathlib.Path("snippets").joinpath(template_name)
                return super().get_source(env, template_name=str(snippet), context=context, **kwargs)
            return super().get_source(env, template_name=template_name, context=context, **kwargs)

        async def get_source_async(self, env, template_name, *, context=None, **kwargs):  # type: ignore[no-untyped-def]
            if kwargs.get("tag") in ("include", "render"):
                template_name = str(pathlib.Path("snippets").joinpath(template_name))
            return await super().get_source_async(env, template_name=template_name, context=context, **kwargs)

        if fixed:
            def cache_key(self, name, context, args):  # type: ignore[no-untyped-def]
                key = super().cache_key(name, context, args)
                return f"snippets/{key}" if args.get("tag") in ("include", "render") else key

    return SnippetsFileSystemLoader


def _r8_call(loop: Any, env: Any, name: str, is_async: bool, gl: dict | None = None, **data: Any) -> tuple:
    try:
        t = (loop.run_until_complete(env.get_template_async(name, globals=gl)) if is_async
             else env.get_template(name, globals=gl))
        if t.env is not env:
            return ("wrong-environment", type(t.env).__name__)
        return _call(loop, lambda: t.render(**data), lambda: t.render_async(**data), is_async)
    except Exception as e:  # noqa: BLE001
        return exc_obs(e)


def round8_stream(chk: C.Check, r: Any, rounds: int) -> dict[str, int]:
    import liquid2

    counts = {"calls": 0, "differences-under-a-recorded-finding": 0}
    loop = asyncio.new_event_loop()

    def check(label: str, known: str | None, got: tuple, want: tuple, detail: dict[str, Any]) -> None:
        counts["calls"] += 1
        if got == want:
            return
        if known is not None:
            counts["differences-under-a-recorded-finding"] += 1
        chk.finding(known or ("r8:" + label),
                    f"{label}: {detail.get('call')} on shared objects gives {got}; the same call on freshly built objects gives {want}",
                    dict(detail, shared=got, fresh=want, how="harness/c09.py round8_stream"))

    try:
        for _ in range(rounds):
            CLOCK.k = 0
            # ---- A. the documented tag-dispatching loader under the caching mixin
            for fixed in (True, False):
                root = _scratch()
                try:
                    os.mkdir(os.path.join(root, "snippets"))
                    files = {"header": "PAGE {{ g }}", "snippets/header": "SNIP {{ g }}{{ x }}",
                             "index": "i[{% render 'header' %}|{% include 'header' %}]",
                             "about": "a[{% include 'header' %}]", "snippets/footer": "F({% render 'header', x: 1 %})",
                             "home": "{% extends 'header' %}", "legal": "l[{% render 'footer' %}]"}
                    _write_tree(root, files, 0)
                    cls = _snippets_loader(fixed)
                    env = liquid2.Environment(loader=cls(root), globals={"g": "G"})
                    order = ["index", "header", "about", "header", "legal", "home", "header", "index"]
                    if r.random() < 0.5:
                        order = ["header", "index", "header", "home", "legal", "about", "header"]
                    for name in order:
                        is_async = r.random() < 0.4
                        got = _r8_call(loop, env, name, is_async)
                        want = _r8_call(loop, liquid2.Environment(loader=cls(root), globals={"g": "G"}), name, False)
                        check("tag-dispatching caching loader" + ("" if fixed else " (docs example verbatim)"),
                              None if fixed else "caching-loader-cache-key-ignores-what-get_source-dispatches-on", got, want,
                              {"call": f"get_template({name!r}).render()", "async": is_async, "files": files, "order": order,
                               "cache_key_overridden": fixed})
                finally:
                    shutil.rmtree(root, ignore_errors=True)

            # ---- B. one loader shared by two Environments with different options
            src = {"t": "{{ x }}|{{ g }}|{{ x | shout }}", "u": "u[{% include 't' %}{% render 't', x: x %}]", "b": "<{% block k %}{{ g }}{% endblock %}>",
                   "c": "{% extends 'b' %}{% block k %}c{{ x }}{{ block.super }}{% endblock %}"}
            for kind in ("DictLoader", "CachingDictLoader", "FileSystemLoader", "CachingFileSystemLoader", "CachingChoiceLoader"):
                root = _scratch()
                try:
                    _write_tree(root, src, 0)

                    def mk_loader() -> Any:
                        if kind.endswith("DictLoader"):
                            return getattr(liquid2, kind)(dict(src))
                        if kind == "CachingChoiceLoader":
                            return liquid2.CachingChoiceLoader([liquid2.DictLoader({}), liquid2.DictLoader(dict(src))])
                        return getattr(liquid2, kind)(root)

                    def mk_env(i: int, loader: Any) -> Any:
                        e = liquid2.Environment(loader=loader, auto_escape=(i == 1), globals={"g": f"<G{i}>"})
                        e.filters["shout"] = (lambda v: str(v) + "!") if i == 0 else (lambda v: str(v).upper())
                        return e

                    shared = mk_loader()
                    envs = [mk_env(0, shared), mk_env(1, shared)]
                    calls = [(i, n) for n in ("t", "u", "c", "b") for i in (0, 1)]
                    r.shuffle(calls)
                    for i, name in calls + calls[:3]:
                        is_async = r.random() < 0.4
                        got = _r8_call(loop, envs[i], name, is_async, x="<i>")
                        want = _r8_call(loop, mk_env(i, mk_loader()), name, False, x="<i>")
                        check(f"{kind} shared by two Environments",
                              None,      # strict for every kind since /repo 275e3ac (finding 1 fixed)
                              got, want, {"call": f"environment {i}: get_template({name!r}).render(x='<i>')", "async": is_async,
                                          "loader": kind, "sources": src,
                                          "environments": "0: plain, g=<G0>, shout appends '!'; 1: auto_escape, g=<G1>, shout upper-cases"})
                finally:
                    shutil.rmtree(root, ignore_errors=True)

            # ---- C. a Template someone holds, rendered after other callers loaded the same name
            for kind in ("CachingDictLoader", "CachingFileSystemLoader"):
                root = _scratch()
                try:
                    hsrc = {"t": "Hello {{ user }}{{ n }}", "w": "w({% include 't' %})"}
                    _write_tree(root, hsrc, 0)
                    env = liquid2.Environment(loader=(liquid2.CachingDictLoader(dict(hsrc)) if kind == "CachingDictLoader"
                                                      else liquid2.CachingFileSystemLoader(root)))
                    a_async, b_async = r.random() < 0.5, r.random() < 0.5
                    alice = (loop.run_until_complete(env.get_template_async("t", globals={"user": "alice"})) if a_async
                             else env.get_template("t", globals={"user": "alice"}))
                    first = _call(loop, lambda: alice.render(), lambda: alice.render_async(), False)
                    bob = (loop.run_until_complete(env.get_template_async("t", globals={"user": "bob", "n": 2})) if b_async
                           else env.get_template("t", globals={"user": "bob", "n": 2}))
                    detail = {"loader": kind, "sources": hsrc}
                    check("held Template after another caller's get_template", "cache-hit-rebinds-held-template-globals",
                          _call(loop, lambda: alice.render(), lambda: alice.render_async(), a_async), ("text", "Hello alice"),
                          dict(detail, call="alice = get_template('t', globals={'user': 'alice'}); get_template('t', globals={'user': 'bob', 'n': 2}); alice.render()"))
                    check("the later caller's own Template", None,
                          _call(loop, lambda: bob.render(), lambda: bob.render_async(), b_async), ("text", "Hello bob2"),
                          dict(detail, call="bob.render()"))
                    _r8_call(loop, env, "w", False)
                    env.get_template("w").analyze()
                    env.get_template("t")
                    check("held Template after a plain get_template of the same name", "cache-hit-rebinds-held-template-globals",
                          _call(loop, lambda: alice.render(), lambda: alice.render_async(), False), ("text", "Hello alice"),
                          dict(detail, call="... get_template('t'); alice.render()"))
                    check("first render of the held Template", None, first, ("text", "Hello alice"), dict(detail, call="alice.render()"))
                finally:
                    shutil.rmtree(root, ignore_errors=True)

            # ---- D. CachingDictLoader(auto_reload=True) over a dictionary that is edited
            sources = {"t": "old {{ g }}", "p": "p-old", "top": "T[{% include 'p' %}{% render 'p' %}]", "kid": "{% extends 't' %}"}
            env = liquid2.Environment(loader=liquid2.CachingDictLoader(sources, auto_reload=True), globals={"g": "G"})

            def fresh_d(name: str) -> tuple:
                return _r8_call(loop, liquid2.Environment(loader=liquid2.CachingDictLoader(dict(sources), auto_reload=True),
                                                          globals={"g": "G"}), name, False)

            held_top = env.get_template("top")
            for name in ("t", "top", "kid"):
                check("CachingDictLoader before any edit", None, _r8_call(loop, env, name, r.random() < 0.4), fresh_d(name),
                      {"call": f"get_template({name!r}).render()", "sources": dict(sources)})
            edits = [("t", "new {{ g }}"), ("p", "p-new"), ("t", "newer"), ("p", "p-old")]
            for key, text in edits:
                sources[key] = text
                for name in ("t", "top", "kid"):
                    is_async = r.random() < 0.4
                    check("CachingDictLoader(auto_reload=True) after its dictionary was edited", "caching-dict-loader-never-reloads",
                          _r8_call(loop, env, name, is_async), fresh_d(name),
                          {"call": f"sources[{key!r}] = {text!r}; get_template({name!r}).render()", "async": is_async,
                           "sources_now": dict(sources)})
                check("held Template whose partial was edited", "caching-dict-loader-never-reloads",
                      _call(loop, lambda: held_top.render(), lambda: held_top.render_async(), r.random() < 0.4), fresh_d("top"),
                      {"call": f"sources[{key!r}] = {text!r}; held_top.render()", "sources_now": dict(sources)})
        return counts
    finally:
        loop.close()


# ---------------------------------------------------------------- every loader kind, the same names again and again


def repeat_stream(chk: C.Check, r: Any, rounds: int) -> int:
    """Every built-in loader kind over SEVERAL search locations (three directories /
    three package paths / three delegates) with shadowed names: each name is
    loaded again and again through get_template(_async), include, render and
    extends on one Environment, and every call equals the same call on freshly
    built loader objects (first load right, later loads of the same name right,
    misses stay TemplateNotFoundError)."""
    import importlib

    import liquid2

    n = 0
    loop = asyncio.new_event_loop()
    root = _scratch()
    pkg = "c09pkg_%d_%d" % (os.getpid(), r.randrange(10**6))
    try:
        layers = [
            {"only0": "only0@0", "both": "both@0", "page": "page@0[{% include 'both' %}|{% render 'only2' %}|{% include 'mid' %}]"},
            {"both": "both@1", "mid": "mid@1{% render 'both' %}", "lay": "lay@1<{% block k %}k1{% endblock %}>"},
            {"both": "both@2", "mid": "mid@2", "only2": "only2@2", "lay": "lay@2<{% block k %}k2{% endblock %}>",
             "kid": "{% extends 'lay' %}{% block k %}kid{{ block.super }}{% include 'both' %}{% endblock %}"},
        ]
        sub = ["site", "theme", "base"]
        os.makedirs(os.path.join(root, pkg))
        open(os.path.join(root, pkg, "__init__.py"), "w").close()
        for d, files in zip(sub, layers):
            os.mkdir(os.path.join(root, d))
            os.mkdir(os.path.join(root, pkg, d))
            for where in (os.path.join(root, d), os.path.join(root, pkg, d)):
                _write_tree(where, {k + ".liquid": v for k, v in files.items()}, 0)
        sys.path.insert(0, root)
        importlib.invalidate_caches()
        dirs = [os.path.join(root, d) for d in sub]
        merged: dict[str, str] = {}
        for files in reversed(layers):
            merged.update(files)

        def mk(kind: str) -> Any:
            if kind == "DictLoader":
                return liquid2.DictLoader(dict(merged))
            if kind == "CachingDictLoader":
                return liquid2.CachingDictLoader(dict(merged))
            if kind == "FileSystemLoader":
                return liquid2.FileSystemLoader(dirs, ext=".liquid")
            if kind == "CachingFileSystemLoader":
                return liquid2.CachingFileSystemLoader(dirs, ext=".liquid")
            if kind == "ChoiceLoader":
                return liquid2.ChoiceLoader([liquid2.DictLoader(dict(f)) for f in layers])
            if kind == "CachingChoiceLoader":
                return liquid2.CachingChoiceLoader([liquid2.DictLoader(dict(f)) for f in layers])
            if kind == "PackageLoader[list]":
                return liquid2.PackageLoader(pkg, package_path=list(sub))
            if kind == "PackageLoader[generator]":
                return liquid2.PackageLoader(pkg, package_path=(x for x in sub))
            if kind == "PackageLoader[one path]":
                return liquid2.PackageLoader(pkg, package_path="base")
            if kind == "ChoiceLoader[PackageLoader, DictLoader]":
                return liquid2.ChoiceLoader([liquid2.PackageLoader(pkg, package_path=sub[:2]), liquid2.DictLoader(dict(layers[2]))])
            raise ValueError(kind)

        kinds = ["DictLoader", "CachingDictLoader", "FileSystemLoader", "CachingFileSystemLoader", "ChoiceLoader",
                 "CachingChoiceLoader", "PackageLoader[list]", "PackageLoader[generator]", "PackageLoader[one path]",
                 "ChoiceLoader[PackageLoader, DictLoader]"]
        names = ["both", "only0", "only2", "mid", "page", "kid", "lay", "missing"]
        for _ in range(rounds):
            for kind in kinds:
                env = liquid2.Environment(loader=mk(kind))
                order = names * 3
                r.shuffle(order)
                for name in ["both", "both", "both"] + order:
                    is_async = r.random() < 0.4
                    got = _r8_call(loop, env, name, is_async)
                    want = _r8_call(loop, liquid2.Environment(loader=mk(kind)), name, False)
                    n += 1
                    if got != want:
                        chk.finding("repeat-load:" + kind.split("[")[0],
                                    f"{kind}: get_template({name!r}).render() on a loader that has served other requests gives {got}; "
                                    f"a freshly built loader gives {want}",
                                    {"loader": kind, "template": name, "async": is_async, "layers_in_priority_order": layers,
                                     "shared": got, "fresh": want, "how": "harness/c09.py repeat_stream"})
        return n
    finally:
        loop.close()
        if root in sys.path:
            sys.path.remove(root)
        for m in [m for m in sys.modules if m == pkg or m.startswith(pkg + ".")]:
            del sys.modules[m]
        shutil.rmtree(root, ignore_errors=True)


# ---------------------------------------------------------------- classification


def mechanisms(ops: list[tuple], steps: list[dict[str, Any]]) -> set[str]:
    """Which cross-render mechanisms a history really exercised."""
    m: set[str] = set()
    rendered: dict[Any, int] = {}
    failed_env: set[int] = set()
    owned_env = slot_envs(ops)
    last_time_tick: dict[Any, int] = {}
    tick = 0
    configured: set[int] = set()
    for o, s in zip(ops, steps):
        k = o[0]
        if k == "tick":
            tick += 1
        if k in ("glob", "filt"):
            configured.add(o[1])
        if k in ("r", "qr", "an"):
            e = op_env(o, owned_env)
            key = repr(o[1])
            if key in rendered:
                m.add("same-object-rendered-again")
            rendered[key] = rendered.get(key, 0) + 1
            if e in failed_env:
                m.add("render-after-failed-render")
            if s["obs"][0] in ("lerr", "pyexc") and k != "an":
                if e is not None:
                    failed_env.add(e)
            if key in last_time_tick and last_time_tick[key] != tick:
                m.add("clock-advanced-between-renders")
            last_time_tick[key] = tick
            if any(c != e for c in configured) and e is not None:
                m.add("other-environment-configured-before")
            if k == "r" and o[1][0] == "cached":
                m.add("shared-cached-template")
    return m


# ---------------------------------------------------------------- main


def main(chk: C.Check, build: C.Build) -> None:
    warnings.simplefilter("ignore")
    proofs_ok = C.proof_stage(chk, build, NEEDED)
    patch_clock()
    # liquid2 is imported, nothing has been parsed or rendered yet: the baseline process
    pristine = Pristine()
    try:
        _main(chk, pristine)
    finally:
        pristine.close()
    C.proofs_verdict(chk, proofs_ok)


def _path_kind(p: str) -> str:
    return re.sub(r"^(env|tmpl:own|tmpl:cached)\d+(:[^.]*)?", lambda m: m.group(1), p)


def _main(chk: C.Check, pristine: Pristine) -> None:
    thorough = chk.tier == "thorough"
    r = C.rng("c09-streams")
    maxlen = 10 if thorough else 6
    # histories are generated against live objects: in a child process, so that this
    # process has still parsed and rendered nothing when the checked runs start
    hist = pristine.call(("generate", thorough))
    if not isinstance(hist, list):
        raise RuntimeError(f"history generation failed: {hist}")

    items = []
    nontrivial: set[str] = set()
    dist: dict[str, int] = {}
    n_steps = n_oracle = 0
    samples = []
    n_traced = n_pristine = 0
    for hi, ops in enumerate(hist):
        steps = run_history(ops, trace=True, process=True)
        # direct oracle "no trace": nothing but the modelled session state changes, in any step
        for i, (o, s) in enumerate(zip(ops, steps)):
            n_traced += 1
            if s["trace"]:
                chk.finding("no-trace:" + _path_kind(s["trace"][0]),
                            f"step {i} ({o[0]}, observed {s['obs'][:2]}) changed {s['trace'][:6]}: state outside the render "
                            "context / the modelled session was written",
                            {"history": ops, "step": i, "changed": s["trace"], "sources": _sources(ops),
                             "how": "harness/c09.py run_history(trace=True, process=True)"})
        # the whole history in a pristine process: same observations, nothing written there either
        if hi < 40 or hi % (10 if thorough else 6) == 0:
            pt = pristine.call(("trace", ops))
            n_pristine += 1
            for i, (o, s, (pobs, ptrace)) in enumerate(zip(ops, steps, pt if isinstance(pt, list) else [])):
                if pobs != s["obs"] or ptrace:
                    chk.finding("pristine-history:" + (_path_kind(ptrace[0]) if ptrace else _signature(o, s["obs"], pobs)),
                                f"step {i} run in a process that had never parsed or rendered anything gives {pobs} "
                                f"(here: {s['obs']}) and changed {ptrace[:6]}",
                                {"history": ops, "step": i, "here": s["obs"], "pristine": pobs, "changed": ptrace,
                                 "sources": _sources(ops)})
                    break
            if not isinstance(pt, list):
                chk.notes.append(f"pristine trace failed: {pt}")
        mech = mechanisms(ops, steps)
        for x in mech:
            dist[x] = dist.get(x, 0) + 1
        if mech:
            nontrivial.add(repr(ops))
        for i, (o, s) in enumerate(zip(ops, steps)):
            n_steps += 1
            kind = s["obs"][0]
            dist["obs:" + kind] = dist.get("obs:" + kind, 0) + 1
            if o[0] in ("r", "qr") and (o[3] is not None or o[4] is not None) and s["obs"] == ("pyexc", "OtherPyError"):
                dist["fault-hit"] = dist.get("fault-hit", 0) + 1
            if is_render_like(o) and o[-1]:
                dist["async-step"] = dist.get("async-step", 0) + 1
            # direct oracle 0: a time-dependent value printed by a render is the clock's value now
            if kind == "text" and not _mentions_dates(o):
                tick = sum(1 for x in ops[:i] if x[0] == "tick")
                today = (_BASE + _dt.timedelta(days=tick)).date()
                ok_dates = {today.isoformat(), f"{today.year}-03-03",
                            (today + _dt.timedelta(days=(4 - today.weekday()) % 7)).isoformat()}
                stale = [m for m in re.findall(r"20\d\d-\d\d-\d\d", s["obs"][1]) if m not in ok_dates]
                if stale:
                    chk.finding("oracle:stale-clock-value",
                                f"step {i} at clock tick {tick} printed the date {stale[0]}",
                                {"history": ops, "step": i, "output": s["obs"][1], "sources": _sources(ops)})
            # direct oracle 1 and 2
            if not is_render_like(o) and o[0] not in ("fs", "gt"):
                continue
            n_oracle += 1
            fo = fresh_obs(ops, i)
            if fo != s["obs"]:
                chk.finding(_signature(o, s["obs"], fo),
                            f"step {i} of a history gives {s['obs']}, the same call on freshly built objects gives {fo}",
                            {"history": ops, "step": i, "in_history": s["obs"], "fresh": fo,
                             "sources": _sources(ops), "how": "harness/c09.py run_history / fresh_obs"})
                continue
            mr = minimal_replay(ops, i)
            if mr is not None:
                prefix, op2, rename = mr
                got = pristine.call(("replay", prefix, op2))
                n_pristine += 1
                if got != rename(s["obs"]):
                    chk.finding("pristine:" + _signature(o, rename(s["obs"]), got),
                                f"step {i} gives {rename(s['obs'])}; in a process that never parsed or rendered anything, with only "
                                f"its own environment and template built, it gives {got}",
                                {"history": ops, "step": i, "in_history": s["obs"], "pristine_minimal": got,
                                 "replayed_prefix": prefix, "replayed_op": op2,
                                 "sources": _sources(ops), "how": "harness/c09.py minimal_replay in a Pristine child"})
        case, model = c_case(ops, steps)
        items.append({"case": case, "model": model,
                      "replay": {"history": ops, "implementation": [s["obs"] for s in steps],
                                 "caches": steps[-1]["snap"] if steps else [], "sources": _sources(ops)}})
        if hi % max(1, len(hist) // 4) == 0 and len(samples) < 4:
            samples.append({"history": ops, "observed": [s["obs"] for s in steps]})

    # known finding: re-observe the recorded witness (Proofs/Session_proofs.v witness_ops)
    steps = run_history(STALE_PARSE)
    last = len(STALE_PARSE) - 1
    fo = fresh_obs(STALE_PARSE, last)
    if fo != steps[last]["obs"]:
        chk.finding("stale-parse-after-filter-removal",
                    f"after del env.filters['bang'] a template that includes 'p' renders {steps[last]['obs']} when an earlier "
                    f"render had already loaded 'p' through the caching loader, {fo} on freshly built objects "
                    "(the cached partial was validated against the filter register of the moment it was parsed)",
                    {"history": STALE_PARSE, "in_history": steps[last]["obs"], "fresh": fo, "sources": _sources(STALE_PARSE)})
    case, model = c_case(STALE_PARSE, steps)
    items.append({"case": case, "model": model,
                  "replay": {"history": STALE_PARSE, "implementation": [s["obs"] for s in steps]}})

    # partials edited on disk behind a CachingFileSystemLoader(auto_reload=True)
    n_fs = n_fs_edits_seen = n_fs_back = 0
    for _ in range(220 if thorough else 18):
        sc = fs_scenario(r)
        last_by_name: dict[str, tuple] = {}
        for st in run_fs_scenario(sc):
            n_fs += 1
            n_fs_back += st["backward_edits_so_far"] > 0
            srcs = {k: src_of(p) for k, p in st["files"].items()}
            fr = fs_fresh_render(srcs, st["name"], st["data"], st["async"], st["tick"])
            pr = pristine.call(("fsrender", srcs, st["name"], st["data"], st["async"], st["tick"]))
            n_pristine += 1
            if last_by_name.get(st["name"], st["obs"]) != st["obs"]:
                n_fs_edits_seen += 1
            last_by_name[st["name"]] = st["obs"]
            if fr != st["obs"] or pr != st["obs"]:
                chk.finding("fs:render-after-edit",
                            f"{st['name']} rendered through a CachingFileSystemLoader(auto_reload=True) gives {st['obs']}; "
                            f"freshly built objects on the same files give {fr} (pristine process: {pr})",
                            {"script": sc["script"], "initial_files": {k: src_of(p) for k, p in sc["files"].items()},
                             "files_now": srcs, "template": st["name"], "async": st["async"],
                             "how": "harness/c09.py run_fs_scenario / fs_fresh_render"})
            ops_m, exp_m = fs_case(st)
            case, model = c_case(ops_m, exp_m)
            items.append({"case": case, "model": model,
                          "replay": {"fs_render": st["name"], "files": srcs, "implementation": st["obs"]}})
    # several search paths: overrides added to / removed from earlier directories
    n_sh = n_sh_changed = 0
    for si in range(220 if thorough else 18):
        sc = SHADOW_WITNESS if si == 0 else shadow_scenario(r)
        for st in run_shadow_scenario(sc):
            n_sh += 1
            n_sh_changed += bool(st["earlier_meanings"])
            srcs = {k: src_of(p) for k, p in st["files"].items()}
            fr = fs_fresh_render(srcs, st["name"], st["data"], st["async"], st["tick"])
            pr = pristine.call(("fsrender", srcs, st["name"], st["data"], st["async"], st["tick"]))
            n_pristine += 1
            if fr != st["obs"] or pr != st["obs"]:
                replay = {"script": sc["script"], "directories_at_start": [{k: src_of(p) for k, p in d.items()} for d in sc["dirs"]],
                          "loader": "CachingFileSystemLoader" if sc["caching"] else "FileSystemLoader",
                          "effective_files_now": srcs, "template": st["name"], "observed": st["obs"], "fresh": fr,
                          "how": "harness/c09.py run_shadow_scenario / fs_fresh_render"}
                what = (f"{st['name']} through a {replay['loader']} over {len(sc['dirs'])} search paths, after a same-named file was "
                        f"added to / removed from an earlier directory, gives {st['obs']}; a new loader over the same directories "
                        f"gives {fr}")
                chk.finding("fs-shadow:differs-from-fresh", what + f" (pristine process: {pr})", replay)
                continue
            ops_m, exp_m = fs_case(st)
            case, model = c_case(ops_m, exp_m)
            items.append({"case": case, "model": model,
                          "replay": {"shadow_render": st["name"], "files": srcs, "implementation": st["obs"]}})
    dist["shadow-renders"] = n_sh
    dist["shadow-renders-after-a-name-changed-meaning"] = n_sh_changed

    # overlapping async loads on a cold caching loader, different globals per task
    n_conc = n_conc_collide = 0
    for _ in range(220 if thorough else 28):
        sc = conc_scenario(r)
        res = run_conc_scenario(sc)
        for wi, (tasks, outs) in enumerate(zip(sc["waves"], res)):
            gts = [t[1] for t in tasks if t[0] == "gt"]
            n_conc_collide += wi == 0 and len(gts) != len(set(gts))
            for ti, (task, obs) in enumerate(zip(tasks, outs)):
                n_conc += 1
                fr = conc_fresh(sc["store"], sc["auto"], sc["globals"], task)
                pr = pristine.call(("concfresh", sc["store"], sc["auto"], sc["globals"], task))
                n_pristine += 1
                if fr != obs or pr != obs:
                    chk.finding("concurrent-load:" + ("first-wave" if wi == 0 else "later-wave") + f":{obs[0]}-vs-{fr[0]}",
                                f"task {ti} of wave {wi} ({task[0]} {task[1] if task[0] == 'gt' else src_of(task[1])!r}, globals "
                                f"{task[2]}) run overlapping with {len(tasks) - 1} other task(s) on a shared caching loader gives {obs}; "
                                f"alone on freshly built objects it gives {fr} (pristine process: {pr})",
                                {"wave": wi, "task": ti, "tasks": tasks, "outcomes": outs, "fresh": fr,
                                 "loader": "CachingFileSystemLoader" if sc["fsloader"] else "CachingDictLoader",
                                 "delays": sc["delays"], "templates": {n: src_of(p) for n, p in sc["store"]},
                                 "environment_globals": sc["globals"], "auto_escape": sc["auto"],
                                 "how": "harness/c09.py run_conc_scenario / conc_fresh"})
                ops_m, exp_m = conc_case(sc, task, obs)
                case, model = c_case(ops_m, exp_m)
                items.append({"case": case, "model": model,
                              "replay": {"concurrent_task": task, "implementation": obs,
                                         "templates": {n: src_of(p) for n, p in sc["store"]}}})
    # choice loaders whose delegates fail transiently: a faulty load fails and leaves nothing behind
    n_choice = n_choice_fired = n_choice_dup = 0
    for _ in range(220 if thorough else 24):
        sc = choice_scenario(r)
        for res in run_choice_scenario(sc):
            st, obs = res["step"], res["obs"]
            n_choice += 1
            fr = choice_fresh(sc, st)
            loader_name = ("CachingChoiceLoader" if sc["caching"] else "ChoiceLoader") + \
                          ("[FileSystemLoader, DictLoader]" if sc["fs_first"] else "[DictLoader, DictLoader]")
            replay = {"script": sc["script"], "step": st, "loader": loader_name, "observed": obs, "fresh_fault_free": fr,
                      "high_priority": {n: src_of(p) for n, p in sc["hi"].items()},
                      "low_priority": {n: src_of(p) for n, p in sc["lo"].items()},
                      "how": "harness/c09.py run_choice_scenario / choice_fresh"}
            if res["fired"]:
                n_choice_fired += 1
                want = ("pyexc", res["fault_class"] if res["fault_class"] in PYKINDS else "OtherPyError")
                if obs != want:
                    chk.finding("choice-loader:fault-swallowed",
                                f"{st[0]} {st[1] if st[0] != 'fsrender' else src_of(st[1])!r}: delegate {res['fired']} raised "
                                f"{res['fault_class']} during the load, the call returned {obs} instead of failing",
                                replay)
                continue
            pr = pristine.call(("choicefresh", sc, st))
            n_pristine += 1
            n_choice_dup += st[0] != "fsrender" and st[1] in sc["hi"] and st[1] in sc["lo"]
            if fr != obs or pr != obs:
                chk.finding("choice-loader:differs-from-fresh",
                            f"fault-free {st[0]} {st[1] if st[0] != 'fsrender' else src_of(st[1])!r} through {loader_name} gives "
                            f"{obs}; freshly built objects give {fr} (pristine process: {pr})", replay)
            ops_m, exp_m = choice_case(sc, st, obs)
            case, model = c_case(ops_m, exp_m)
            items.append({"case": case, "model": model, "replay": {"choice_step": st, "implementation": obs}})
    dist["choice-loader-steps"] = n_choice
    dist["choice-loader-steps-with-a-delegate-fault"] = n_choice_fired
    dist["choice-loader-fault-free-steps-on-duplicate-names"] = n_choice_dup
    dist["concurrent-tasks"] = n_conc
    dist["concurrent-cold-waves-loading-one-name-twice"] = n_conc_collide
    r8 = round8_stream(chk, r, 3 if thorough else 1)
    dist["round8-calls"] = r8["calls"]
    dist["round8-differences-under-a-recorded-finding"] = r8["differences-under-a-recorded-finding"]
    dist["repeat-load-calls"] = repeat_stream(chk, r, 2 if thorough else 1)
    n_matter = matter_stream(chk, pristine, r, 2 if thorough else 1)
    n_pristine += n_matter
    dist["matter-renders"] = n_matter
    n_raw, n_raw_fail = raw_stream(chk, pristine, r, 4 if thorough else 2)
    n_pristine += n_raw
    dist["raw-sources-run"] = n_raw
    dist["raw-from_string-failures"] = n_raw_fail
    dist["fs-renders"] = n_fs
    dist["fs-renders-showing-an-edit"] = n_fs_edits_seen
    dist["fs-renders-after-a-backward-mtime-edit"] = n_fs_back
    dist["steps-traced"] = n_traced
    dist["pristine-process-evaluations"] = n_pristine

    C.correspond(chk, "c09", IMPORTS, DEFS, items, what="Session.run", shard=40)

    chk.coverage.update({
        "evaluations": len(hist),
        "distinct_nontrivial": len(nontrivial),
        "steps": n_steps,
        "oracle_replays": n_oracle,
        "rule": ("histories (<= %d steps after environment creation; corpus + fault sweeps with the fault at every k + seeded random) over "
                 "{CreateEnv(auto_escape, caching loader, removed tags, loader contents, globals), SetGlobal, SetFilter, AdvanceClock, "
                 "FromString/parse, GetTemplate(_async), Render(_async) with faults at the k-th drop access / k-th loader call, "
                 "liquid2.render(_async) on DEFAULT_ENVIRONMENT, analyze(_async)}; programs exercise increment/decrement, cycle, "
                 "for offset: continue, assign, capture, macro/call, extends/block, include, render, translate, now/today/'now'|date, "
                 "malformed tags at any nesting depth (from_string fails); plus the edited-partials stream on a CachingFileSystemLoader "
                 "and the oracle-only stream of constructs outside the model. "
                 "non-trivial = the history rendered an object again, rendered after a failed render on the same environment, "
                 "advanced the clock between two renders of one object, configured another environment first, or rendered a shared cached template"
                 % maxlen),
        "samples": samples,
        "distribution": dist,
        "exhaustive": False,
        "tier_proved": "kernel (session state machine + per-render context of the program language)",
    })
    chk.assumptions += [
        "model: loader contents and tag registers are fixed when an Environment is created; caches never evict or reload (C14 covers those); "
        "edits of partials behind an auto-reloading file-system loader are tied by the oracle 'equals fresh objects on the current files' "
        "(and the model's answer for those fresh objects), not by a theorem",
        "the no-trace snapshot sees containers / liquid2 objects / lru_caches reachable from module globals, class attributes, "
        "Environment, Parser, Tag and Template objects to a bounded depth; state hidden in closures or C extensions is only caught "
        "behaviourally (pristine-process replays)",
        "resource limits off; names args/kwargs/block/forloop/translations/size/first/last not used as variables; ASCII text",
        "the clock is the harness' patched datetime in liquid2.context and liquid2.builtin.filters.misc; and dateutil.parser._parser (the only clock read of dateutil's parser is datetime.datetime.now() for the default date; it does not use time.time); tick k is Saturday 2000-12-30 12:00:00 + k days (crossing a month and a year boundary) and the model prints it exactly (k <= 32)",
        "sync and async renders are run through the same model step (their equality is C03's theorem)",
        "concurrent renders: each render owns its RenderContext; the only shared state is the session state modelled here; "
        "the schedule-level theorem (interleavings) belongs to C03",
    ]


def _mentions_dates(o: tuple) -> bool:
    """Render arguments that themselves contain a date text (never generated)."""
    return bool(re.search(r"20\d\d-", repr(o)))


def _sources(ops: list[tuple]) -> dict[str, Any]:
    out: dict[str, Any] = {}
    for i, o in enumerate(ops):
        if o[0] == "env":
            out[f"step{i}.loader"] = {n: src_of(p) for n, p in o[4]}
        elif o[0] == "fs":
            out[f"step{i}.source"] = src_of(o[2])
        elif o[0] == "qr":
            out[f"step{i}.source"] = src_of(o[1])
    return out


def _signature(o: tuple, got: tuple, fresh: tuple) -> str:
    """Names the mechanism, not the input."""
    kind = {"r": "render", "qr": "liquid2.render", "an": "analyze", "fs": "from_string", "gt": "get_template"}[o[0]]
    if got[0] == "text" and fresh[0] == "text":
        a, b = got[1], fresh[1]
        if re.sub(r"20\d\d-\d\d-\d\d", "@", a) == re.sub(r"20\d\d-\d\d-\d\d", "@", b):
            return f"oracle:{kind}:stale-timestamp"
        if a.replace("&lt;", "<").replace("&gt;", ">").replace("&amp;", "&") == \
                b.replace("&lt;", "<").replace("&gt;", ">").replace("&amp;", "&"):
            return f"oracle:{kind}:escaping-differs"
        return f"oracle:{kind}:output-differs"
    return f"oracle:{kind}:{got[0]}-vs-{fresh[0]}"
