"""C10 — templates may shadow caller data but never change it; lookup precedence.

Tie (model Kernels/ChainMap.v):
  A  precedence through the public API: all 2^8 subsets of the eight layers
     holding one name with distinct values x program shapes x API paths
     (from_string / get_template / get_template_async+render_async); the
     rendered values are compared with the trace of the model's `render`
     (and `ctx_copy` for {% render %} partials).
  B  operation sequences (Lookup/Assign/Incr/Decr/Push/Pop/Extend, nested)
     driven on a real RenderContext built by the real constructors; trace,
     error class, scope size, every dict of the scope chain, locals, counters
     and the caller's four mappings are compared with the model's `exec_list`.
  C  ReadOnlyChainMap alone (nested chains, BuiltIn, pop to empty).
Oracle / tie for the immutability half (no model: values are opaque there):
  D  every registered filter x every container path of the data x argument
     shapes, every tag that takes an expression, for-loops with every option,
     pairs of array filters, failing templates, three environments, sync and
     async; environment globals, template globals, loader matter and render
     arguments are snapshotted (type-exact, order-exact, identity of every
     nested container) and compared after every render.
"""

from __future__ import annotations

import asyncio
import copy
import datetime
import itertools
import os
import re
import shutil
import tempfile
import warnings
from typing import Any

from . import common as C

IMPORTS = "From LQ Require Import Kernels.ChainMap."
NEEDED = ["theories/Base/Str.v", "theories/Kernels/ChainMap.v", "theories/Proofs/ChainMap_proofs.v"]

LAYERS = "BLRMTEUC"  # block, locals, render args, matter, template globals, env globals, builtin, counter
TOK = {"B": 1, "L": 2, "R": 3, "M": 4, "T": 5, "E": 6}
SEP = "\u00a6"

# ------------------------------------------------------------------ Coq terms

NAMES = ["x", "now", "today", "y", "q", "c", "forloop", "w_", "z", "block"]
DEFS = "\n".join(f"Definition k_{n} : str := {C.cstr(n)}." for n in NAMES) + """
(* monomorphic aliases: no implicit arguments to infer in the (large) generated terms *)
Definition vD (n : N) : value N := Data n.
Definition vI (z : Z) : value N := Int z.
Definition vNow : value N := Now.
Definition vToday : value N := Today.
Definition kv (k : str) (v : value N) : str * value N := (k, v).
Definition d0 : dict N := [].
Definition mkW (eg tg m ra : dict N) : world N := {| w_eg := eg; w_tg := tg; w_matter := m; w_args := ra |}.
Definition oL (k : str) : op N := Lookup k.
Definition oA (k : str) (v : value N) : op N := Assign k v.
Definition oI (k : str) : op N := Incr k.
Definition oD (k : str) : op N := Decr k.
Definition oPush (ns : dict N) : op N := Push ns.
Definition oPop : op N := Pop.
Definition oE (ns : dict N) (body : list (op N)) : op N := Extend ns body.
Definition o0 : list (op N) := [].
Definition bL (k : str) (v : value N) : obs N := OLookup k (Some v).
Definition bU (k : str) : obs N := OLookup k None.
Definition bC (z : Z) : obs N := OCount z.
Definition b0 : list (obs N) := [].
Definition sv (v : value N) : option (value N) := Some v.
Definition nv : option (value N) := None.
Definition sd (d : dict N) : option (dict N) := Some d.
Definition nd : option (dict N) := None.
Definition chk (W : world N) (prog : list (op N)) (exp : list (obs N)) : bool :=
  let r := render 30 W prog in
  list_eqb obs_eqb (trace_of r) exp && N.eqb (status_code (status_of r)) 0.
Definition chk_copy (W : world N) (pre : list (op N)) (ns : dict N) (k : str)
    (inner outer : option (value N)) : bool :=
  let st := state_of (exec_list 30 pre (st_push (build_base W) [])) in
  option_eqb value_eqb (st_lookup (st_push (ctx_copy st ns) []) k) inner
  && option_eqb value_eqb (st_lookup st k) outer.
Definition chk_copy2 (W : world N) (pre : list (op N)) (ns1 : dict N) (k : str)
    (inner outer : option (value N)) : bool :=
  let st := state_of (exec_list 30 pre (st_push (build_base W) [])) in
  let st1 := st_push (st_push (ctx_copy st ns1) []) [(k_w_, Data 90%N)] in
  option_eqb value_eqb (st_lookup (st_push (ctx_copy st1 []) []) k) inner
  && option_eqb value_eqb (st_lookup st k) outer.
Definition chk_copy3 (W : world N) (pre : list (op N)) (ns1 : dict N) (k : str)
    (inner outer : option (value N)) : bool :=
  let st := state_of (exec_list 30 pre (st_push (build_base W) [])) in
  let c1 := st_assign (st_push (ctx_copy st ns1) []) k (Data 70%N) in
  let c2 := st_push (st_push (ctx_copy c1 []) []) [(k_w_, Data 90%N)] in
  option_eqb value_eqb (st_lookup (st_push (ctx_copy c2 []) []) k) inner
  && option_eqb value_eqb (st_lookup st k) outer.
Definition chk_copy_blk (W : world N) (pre : list (op N)) (k : str)
    (inner outer : option (value N)) : bool :=
  let st := state_of (exec_list 30 pre (st_push (build_base W) [])) in
  let blk := ctx_copy_block st [kv k_block (vD 101)] in
  let c1 := st_push (st_push (ctx_copy blk []) []) [(k_w_, Data 90%N)] in
  option_eqb value_eqb (st_lookup (st_push (ctx_copy c1 []) []) k) inner
  && option_eqb value_eqb (st_lookup st k) outer.
Definition chk_block (W : world N) (bind : dict N) (ops : list (op N)) (k : str)
    (exp : list (obs N)) (after : option (value N)) : bool :=
  let st0 := st_push (build_base W) [] in
  let st1 := st_push st0 bind in
  let r := exec_list 30 ops (ctx_copy_block st1 [kv k_block (vD 101)]) in
  list_eqb obs_eqb (trace_of r) exp && N.eqb (status_code (status_of r)) 0
  && option_eqb value_eqb (st_lookup (with_store st0 (store_of (state_of r))) k) after.
Definition refetch_state (W : world N) (tg2 ra2 : dict N) : state N :=
  let s0 := caller_store W ++ [tg2; ra2] in
  let '(s1, eg) := or_empty s0 0%nat in
  let '(s2, gd) := env_make_globals s1 eg 1%nat in
  let '(s3, gd') := or_empty s2 gd in
  let '(s4, ov) := or_empty s3 2%nat in
  let '(s5, g) := cache_hit_globals s4 eg 4%nat gd' ov 5%nat in
  ctx_init s5 g None.
Definition chk_refetch (W : world N) (tg2 ra2 : dict N) (prog : list (op N)) (exp : list (obs N)) : bool :=
  let r := exec 30 (Extend d0 prog) (refetch_state W tg2 ra2) in
  list_eqb obs_eqb (trace_of r) exp && N.eqb (status_code (status_of r)) 0.
Definition raw_state (s : store N) (c : list mref) : state N :=
  {| store_of := s; scope := c; locals_a := 0%nat; counters_a := 0%nat; globals_r := RBuiltin;
     root_r := RBuiltin |}.
"""


def ck(name: str) -> str:
    return f"k_{name}" if name in NAMES else C.cstr(name)


def cval(v: tuple) -> str:
    if v[0] == "D":
        return f"(vD {v[1]})"
    if v[0] == "I":
        return f"(vI {C.cZ(v[1])})"
    return {"N": "vNow", "T": "vToday"}[v[0]]


def coval(v: tuple | None) -> str:
    return f"(sv {cval(v)})" if v is not None else "nv"


def cdict(items: list[tuple[str, tuple]]) -> str:
    if not items:
        return "d0"
    return "[" + "; ".join(f"kv {ck(k)} {cval(v)}" for k, v in items) + "]"


def codict(items: list | None) -> str:
    return f"(sd {cdict(items)})" if items is not None else "nd"


def cworld(w: dict[str, list]) -> str:
    return f"(mkW {cdict(w['eg'])} {cdict(w['tg'])} {cdict(w['m'])} {cdict(w['ra'])})"


def cop(op: tuple) -> str:
    t = op[0]
    if t == "lookup":
        return f"oL {ck(op[1])}"
    if t == "assign":
        return f"oA {ck(op[1])} {cval(op[2])}"
    if t == "incr":
        return f"oI {ck(op[1])}"
    if t == "decr":
        return f"oD {ck(op[1])}"
    if t == "push":
        return f"oPush {cdict(op[1])}"
    if t == "pop":
        return "oPop"
    if t == "extend":
        return f"oE {cdict(op[1])} {cops(op[2])}"
    raise ValueError(op)


def cops(ops: list[tuple]) -> str:
    return "[" + "; ".join(map(cop, ops)) + "]" if ops else "o0"


def cobs(o: tuple) -> str:
    if o[0] == "L":
        return f"bL {ck(o[1])} {cval(o[2])}" if o[2] is not None else f"bU {ck(o[1])}"
    return f"bC {C.cZ(o[1])}"


def ctrace(tr: list[tuple]) -> str:
    return "[" + "; ".join(map(cobs, tr)) + "]" if tr else "b0"


# ------------------------------------------------------- python value <-> token


# Falsy layer values: the lookup must answer with them (presence decides), not fall through.
T_NIL, T_FALSE, T_ZERO, T_ESTR, T_ELIST, T_EDICT = ("D", 900), ("D", 901), ("I", 0), ("D", 903), ("D", 904), ("D", 905)
FALSY = [T_NIL, T_FALSE, T_ZERO, T_ESTR, T_ELIST, T_EDICT]
FALSY_NAME = {T_NIL: "nil", T_FALSE: "false", T_ZERO: "0", T_ESTR: "''", T_ELIST: "[]", T_EDICT: "{}"}


def pyval(v: tuple) -> Any:
    if v == T_NIL:
        return None
    if v == T_FALSE:
        return False
    if v == T_ESTR:
        return ""
    if v == T_ELIST:
        return []
    if v == T_EDICT:
        return {}
    if v[0] == "D":
        return f"v{v[1]}"
    if v[0] == "I":
        return v[1]
    raise ValueError(v)


def lit(v: tuple) -> str:
    """The Liquid expression that evaluates to the value ([] and {} have no
    literal: they are read from the render arguments e_list / e_dict)."""
    if v in FALSY:
        return {T_NIL: "nil", T_FALSE: "false", T_ZERO: "0", T_ESTR: "''", T_ELIST: "e_list", T_EDICT: "e_dict"}[v]
    x = pyval(v)
    return f"'{x}'" if isinstance(x, str) else str(x)


def token_of(x: Any) -> tuple:
    """A Python object observed in a context -> model value."""
    if x is None:
        return T_NIL
    if x is False:
        return T_FALSE
    if type(x) is str and x == "":
        return T_ESTR
    if type(x) is list and not x:
        return T_ELIST
    if type(x) is dict and not x:
        return T_EDICT
    if isinstance(x, bool):
        return ("D", 999)
    if isinstance(x, int):
        return ("I", x)
    if isinstance(x, datetime.datetime):
        return ("N",)
    if isinstance(x, datetime.date):
        return ("T",)
    if isinstance(x, str) and re.fullmatch(r"v\d+", x):
        return ("D", int(x[1:]))
    return ("D", 998)  # never equals a model value


RE_NOW = re.compile(r"\d{4}-\d\d-\d\d \d\d:\d\d:\d\d(\.\d+)?")
RE_TODAY = re.compile(r"\d{4}-\d\d-\d\d")


def token_of_text(s: str) -> tuple | None:
    """Rendered text of one {{ name }} -> model value (None = undefined)."""
    if s == "":
        return None
    if re.fullmatch(r"v\d+", s):
        return ("D", int(s[1:]))
    if re.fullmatch(r"-?\d+", s):
        return ("I", int(s))
    if RE_NOW.fullmatch(s):
        return ("N",)
    if RE_TODAY.fullmatch(s):
        return ("T",)
    return ("D", 998)


def probe_filter(v: Any) -> str:
    """Registered as the filter `probe` (env.filters is public API): prints what the
    lookup returned exactly, so that nil, '', [] and undefined are told apart."""
    from liquid2.undefined import is_undefined
    if is_undefined(v):
        return "U"
    tk = token_of(v)
    if tk[0] == "I":
        return f"i{tk[1]}"
    if tk[0] == "N":
        return "NOW"
    if tk[0] == "T":
        return "TODAY"
    return f"d{tk[1]}"


def token_of_probe(s: str) -> tuple | None:
    if s == "U":
        return None
    if s == "NOW":
        return ("N",)
    if s == "TODAY":
        return ("T",)
    m = re.fullmatch(r"([id])(-?\d+)", s)
    if not m:
        return ("D", 998)
    return ("I", int(m.group(2))) if m.group(1) == "i" else ("D", int(m.group(2)))


# ------------------------------------------------------------------ loader


def make_loader(sources: dict[str, str], matter: dict[str, Any]):
    from liquid2.loader import BaseLoader, TemplateSource

    class MatterLoader(BaseLoader):
        def get_source(self, env, template_name, *, context=None, **kwargs):  # type: ignore[no-untyped-def]
            from liquid2.exceptions import TemplateNotFoundError
            if template_name not in sources:
                raise TemplateNotFoundError(template_name)
            return TemplateSource(sources[template_name], template_name, None, matter.get(template_name))

    return MatterLoader()


# =============================================================== A: public API

# program AST -> (liquid source, partial sources, model ops, decoder)


class Prog:
    def __init__(self, probe: bool = False) -> None:
        self.partials: dict[str, str] = {}
        self.n_partials = 0
        self.probe = probe
        self.needs: set[str] = set()  # extra render arguments the source refers to

    def out_expr(self, name: str) -> str:
        return name + (" | probe" if self.probe else "")

    def lit(self, v: tuple) -> str:
        if v == T_ELIST:
            self.needs.add("e_list")
        if v == T_EDICT:
            self.needs.add("e_dict")
        return lit(v)

    def src(self, nodes: list[tuple]) -> str:
        out = []
        for n in nodes:
            t = n[0]
            if t == "out":
                out.append("{{ " + self.out_expr(n[1]) + " }}" + SEP)
            elif t == "assign":
                out.append("{% assign " + n[1] + " = " + self.lit(n[2]) + " %}")
            elif t == "incr":
                out.append("{% increment " + n[1] + " %}" + SEP)
            elif t == "decr":
                out.append("{% decrement " + n[1] + " %}" + SEP)
            elif t == "with":
                args = ", ".join(f"{k}: {self.lit(v)}" for k, v in n[1])
                out.append("{% with " + args + " %}" + self.src(n[2]) + "{% endwith %}")
            elif t == "for":
                out.append("{% for " + n[1] + " in (7..7) %}" + self.src(n[2]) + "{% endfor %}")
            elif t == "fori":
                # the loop item is a caller-supplied value: items_ = [value]
                self.needs.add("items_")
                out.append("{% for " + n[1] + " in items_ %}" + self.src(n[3]) + "{% endfor %}")
            elif t == "capture":
                out.append("{% capture c %}" + self.src(n[1]) + "{% endcapture %}{{ c }}")
            elif t == "include":
                self.n_partials += 1
                name = f"p{self.n_partials}"
                self.partials[name] = self.src(n[2])
                args = "".join(f", {k}: {self.lit(v)}" for k, v in n[1])
                out.append("{% include '" + name + "'" + args + " %}")
            elif t == "lambda":
                # an arrow function given to a filter that stops at the first match (early exit:
                # 8 is the second of three items); one- and two-parameter forms
                filt = n[3] if len(n) > 3 else "find"
                if len(n) > 2 and n[2]:
                    out.append("{{ (7..9) | " + filt + ": (" + n[1] + ", " + n[2] + ") => " + n[1] + " == 8 }}" + SEP)
                else:
                    out.append("{{ (7..9) | " + filt + ": " + n[1] + " => " + n[1] + " == 8 }}" + SEP)
            elif t == "liquid":
                # {% liquid %} line statements: assign + echo
                out.append("{% liquid assign " + n[1] + " = " + self.lit(n[2]) + "\n echo " + self.out_expr(n[1]) + " %}" + SEP)
            else:
                raise ValueError(n)
        return "".join(out)

    def ops(self, nodes: list[tuple]) -> list[tuple]:
        out: list[tuple] = []
        for n in nodes:
            t = n[0]
            if t == "out":
                out.append(("lookup", n[1]))
            elif t == "assign":
                out.append(("assign", n[1], n[2]))
            elif t in ("incr", "decr"):
                out.append((t, n[1]))
            elif t == "with":
                out.append(("extend", list(n[1]), self.ops(n[2])))
            elif t == "for":
                out.append(("extend", [("forloop", ("D", 100)), (n[1], ("I", 7))], self.ops(n[2])))
            elif t == "fori":
                out.append(("extend", [("forloop", ("D", 100)), (n[1], n[2])], self.ops(n[3])))
            elif t == "capture":
                out += self.ops(n[1]) + [("assign", "c", ("D", 50))]
            elif t == "include":
                out.append(("extend", list(n[1]), [("extend", [], self.ops(n[2]))]))
            elif t == "lambda":
                if len(n) > 2 and n[2]:
                    out.append(("extend", [(n[2], ("I", 1)), (n[1], ("I", 8))], []))
                else:
                    out.append(("extend", [(n[1], ("I", 8))], []))
            elif t == "liquid":
                out += [("assign", n[1], n[2]), ("lookup", n[1])]
        return out

    def kinds(self, nodes: list[tuple]) -> list[tuple]:
        """Output segments in execution order: ('L', name) | ('C',) | ('X',) ignored text."""
        out: list[tuple] = []
        for n in nodes:
            t = n[0]
            if t == "out":
                out.append(("L", n[1]))
            elif t in ("incr", "decr"):
                out.append(("C",))
            elif t in ("with", "for", "include"):
                out += self.kinds(n[2])
            elif t == "fori":
                out += self.kinds(n[3])
            elif t == "capture":
                out += self.kinds(n[1])
            elif t == "lambda":
                out.append(("X", "8"))
            elif t == "liquid":
                out.append(("L", n[1]))
        return out


def layer_vals(over: dict[str, tuple] | None = None) -> dict[str, tuple]:
    v = {k: ("D", n) for k, n in TOK.items()}
    v.update(over or {})
    return v


def api_world(S: str, name: str, vals: dict[str, tuple] | None = None) -> dict[str, list]:
    v = layer_vals(vals)
    return {"eg": [(name, v["E"])] if "E" in S else [],
            "tg": [(name, v["T"])] if "T" in S else [],
            "m": [(name, v["M"])] if "M" in S else [],
            "ra": [(name, v["R"])] if "R" in S else []}


SHAPES = ["plain", "for", "capture", "assign_in_block", "include", "nested", "lambda", "liquid", "render", "render2", "render_with", "extends_block",
          "lambda2", "lambda_for", "render3", "render2_in_block"]
LAMBDA_SHAPES = ("lambda", "lambda2", "lambda_for")
RENDER_SHAPES = ("render", "render2", "render_with", "extends_block", "render3", "render2_in_block")


def api_program(S: str, name: str, shape: str, vals: dict[str, tuple] | None = None) -> tuple[list[tuple], list[tuple]]:
    """(pre, body): pre = counter / locals set-up; body = the lookups."""
    v = layer_vals(vals)
    pre: list[tuple] = []
    if "C" in S:
        pre.append(("incr", name))
        if vals and "_counter_zero" in vals:
            pre.append(("decr", name))  # the counter layer then holds 0
    if "L" in S and shape not in ("assign_in_block", "liquid"):
        pre.append(("assign", name, v["L"]))
    B = "B" in S
    out = ("out", name)
    bind = [(name, v["B"])] if B else [("w_", ("D", 90))]
    if shape == "plain":
        body = [("with", bind, [out])] if B else [out]
    elif shape == "for":
        if B and vals and "B" in vals:
            body = [("fori", name, v["B"], [out])]  # the block binding is a caller-supplied loop item
        else:
            body = [("for", name if B else "q", [out])]
    elif shape == "capture":
        body = [("capture", [("with", bind, [out])] if B else [out])]
    elif shape == "assign_in_block":
        inner = ([("assign", name, v["L"])] if "L" in S else []) + [out]
        body = [("with", bind, inner)]
    elif shape == "include":
        body = [("include", [(name, v["B"])] if B else [], [out])]
    elif shape == "nested":
        body = [("with", bind, [("for", "q", [out, ("include", [], [out])])])]
    elif shape == "lambda":
        body = [("lambda", "z"), ("with", bind, [("lambda", name), out])] if B else [("lambda", name), out]
    elif shape in ("lambda2", "lambda_for"):
        # early-exit arrow functions whose parameters are named like the looked-up name:
        # two-parameter form with the name as item parameter, as index parameter, and the
        # one-parameter form, under find / has / find_index; each followed by a look-up
        seq = [("lambda", name, "z", "find"), out, ("lambda", "z", name, "has"), out,
               ("lambda", name, None, "find_index"), out, ("lambda", name, "q", "find_index"), out]
        if shape == "lambda_for":
            seq = [("for", "q", seq)]
        body = [("with", bind, seq)] if B else seq
    elif shape == "liquid":
        inner = ([("liquid", name, v["L"])] if "L" in S else []) + [out]
        body = [("with", bind, inner)] if B else inner
    else:
        raise ValueError(shape)
    return pre, body + [out]


def run_api(S: str, shape: str, path: int, none_for_empty: bool,
            vals: dict[str, tuple] | None = None, probe: bool = False) -> dict[str, Any]:
    """Build everything through the public API, render, return decoded outputs."""
    from liquid2 import Environment

    name = ("today" if (len(S) % 2) else "now") if "U" in S else "x"
    w = api_world(S, name, vals)
    py = {k: {n: pyval(v) for n, v in items} for k, items in w.items()}
    lv = layer_vals(vals)

    def opt(d: dict) -> Any:
        return d if d or not none_for_empty else None

    P = Prog(probe)
    if shape == "extends_block":
        # a block rendered through an inheritance chain, inside a with / for of the base template;
        # counter and assignment happen IN the overriding block
        pre, _ = api_program(S, name, "plain", vals)
        ns = [(name, lv["B"])] if "B" in S else [("forloop", ("D", 100)), ("q", ("I", 7))]
        opener = ("{% with " + name + ": " + P.lit(lv["B"]) + " %}", "{% endwith %}") if "B" in S else ("{% for q in (7..7) %}", "{% endfor %}")
        P.partials["base"] = opener[0] + "{% block b %}{% endblock %}" + opener[1] + "{{ " + P.out_expr(name) + " }}" + SEP
        src = "{% extends 'base' %}{% block b %}" + P.src(pre) + "{{ " + P.out_expr(name) + " }}" + SEP + "{% endblock %}"
        part_matter = {"base": {name: "v8"}}
        nodes = None
    elif shape == "render2_in_block":
        # render -> render below an overriding block: the page's locals (assigned in the base
        # template before the block) and counters must be invisible two isolated levels down
        pre, _ = api_program(S, name, "plain", vals)
        ns = []
        P.partials["r"] = "{{ " + P.out_expr(name) + " }}" + SEP
        P.partials["r1"] = "{% with w_: 'v90' %}{% render 'r' %}{% endwith %}"
        P.partials["base"] = P.src(pre) + "{% block b %}{% endblock %}{{ " + P.out_expr(name) + " }}" + SEP
        src = "{% extends 'base' %}{% block b %}{% render 'r1' %}{% endblock %}"
        part_matter = {"r": {name: "v8"}, "r1": {name: "v8"}, "base": {name: "v8"}}
        nodes = None
    elif shape == "render3":
        # three levels of isolation: the outer tag's arguments and the middle partial's own
        # locals must be invisible in the innermost partial
        pre, _ = api_program(S, name, "plain", vals)
        ns = [(name, lv["B"])] if "B" in S else []
        args = "".join(f", {k}: {P.lit(v)}" for k, v in ns)
        P.partials["r"] = "{{ " + P.out_expr(name) + " }}" + SEP
        P.partials["r1"] = "{% with w_: 'v90' %}{% render 'r' %}{% endwith %}"
        P.partials["r3"] = "{% assign " + name + " = 'v70' %}{% render 'r1' %}"
        src = P.src(pre) + "{% render 'r3'" + args + " %}" + "{{ " + P.out_expr(name) + " }}" + SEP
        part_matter = {"r": {name: "v8"}, "r1": {name: "v8"}, "r3": {name: "v8"}}
        nodes = None
    elif shape in ("render", "render2", "render_with"):
        pre, _ = api_program(S, name, "plain", vals)
        ns = [(name, lv["B"])] if "B" in S else []
        args = "".join(f", {k}: {P.lit(v)}" for k, v in ns)
        P.partials["r"] = "{{ " + P.out_expr(name) + " }}" + SEP
        if shape == "render":
            src = P.src(pre) + "{% render 'r'" + args + " %}" + "{{ " + P.out_expr(name) + " }}" + SEP
        elif shape == "render_with":
            # the binding is written into the namespace AFTER copy() has chained it (render_tag.py)
            bound = (" with " + P.lit(lv["B"]) + " as " + name) if ns else ""
            src = P.src(pre) + "{% render 'r'" + bound + " %}" + "{{ " + P.out_expr(name) + " }}" + SEP
        else:
            # a render inside a rendered partial (inside a block of that partial)
            src = P.src(pre) + "{% render 'r1'" + args + " %}" + "{{ " + P.out_expr(name) + " }}" + SEP
            P.partials["r1"] = "{% with w_: 'v90' %}{% render 'r' %}{% endwith %}"
        # the partials' own matter must be invisible
        part_matter = {"r": {name: "v8"}, "r1": {name: "v8"}}
        nodes = None
    else:
        pre, body = api_program(S, name, shape, vals)
        nodes = pre + body
        src = P.src(nodes)
        part_matter = {k: {name: "v8"} for k in P.partials}
    sources = dict(P.partials)
    sources["main"] = src
    matter = dict(part_matter)
    eg, tg, mm, ra = (copy.deepcopy(py[k]) for k in ("eg", "tg", "m", "ra"))
    # helpers the source refers to (not part of the modelled world: other names)
    if "e_list" in P.needs:
        ra["e_list"] = []
    if "e_dict" in P.needs:
        ra["e_dict"] = {}
    if "items_" in P.needs:
        ra["items_"] = [pyval(lv["B"])]
    snap = copy.deepcopy((eg, tg, mm, ra))
    if path != 0:
        matter["main"] = opt(mm)
    env = Environment(loader=make_loader(sources, matter), globals=opt(eg))
    if probe:
        env.filters["probe"] = probe_filter
    if path == 0:
        t = env.from_string(src, globals=opt(tg), overlay_data=opt(mm))
        text = t.render(**ra)
    elif path == 1:
        t = env.get_template("main", globals=opt(tg))
        text = t.render(ra) if ra else t.render()
    else:
        loop = asyncio.new_event_loop()
        try:
            t = loop.run_until_complete(env.get_template_async("main", globals=opt(tg)))
            text = loop.run_until_complete(t.render_async(**ra))
        finally:
            loop.close()
    segs = text.split(SEP)
    problems = []
    if (eg, tg, mm, ra) != snap:
        problems.append("caller mapping changed")
    if opt(eg) is not None and eg and env.globals is not eg:
        problems.append("env.globals is not the caller's mapping")
    if t.global_data is env.globals or (tg and t.global_data is tg):
        problems.append("template.global_data aliases a caller mapping (make_globals did not allocate)")
    return {"name": name, "world": w, "pre": pre, "nodes": nodes, "prog": P, "src": src, "segs": segs,
            "partials": dict(P.partials), "problems": problems, "ns": ns if shape in RENDER_SHAPES else None}


def spec_value(S: str, visible: str, vals: dict[str, tuple] | None = None) -> tuple | None:
    """The property's own order, evaluated directly (oracle)."""
    lv = layer_vals(vals)
    for layer in LAYERS:
        if layer in S and layer in visible:
            if layer in TOK:
                return lv[layer]
            if layer == "U":
                return ("U",)
            return ("I", 0) if vals and "_counter_zero" in vals else ("I", 1)
    return None


def part_a(chk: C.Check, thorough: bool) -> list[dict[str, Any]]:
    items: list[dict[str, Any]] = []
    stats = chk.coverage.setdefault("partA", {"renders": 0, "lookups": 0, "winner": {}, "_nontrivial": set(),
                                              "falsy_renders": 0, "falsy_value_won": {}})

    def one(S: str, shape: str, path: int, nfe: bool, vals: dict[str, tuple] | None = None, probe: bool = False) -> None:
        dec = token_of_probe if probe else token_of_text
        r = run_api(S, shape, path, none_for_empty=nfe, vals=vals, probe=probe)
        stats["renders"] += 1
        if vals:
            stats["falsy_renders"] += 1
        if len(S) >= 2:
            stats["_nontrivial"].add((S, shape, repr(vals)))
        name = r["name"]
        replay = {"layers": S, "shape": shape, "api_path": ["from_string", "get_template", "get_template_async+render_async"][path],
                  "source": r["src"], "partials": r["partials"], "output": r["segs"]}
        if vals:
            replay["layer_values"] = {k: FALSY_NAME.get(v, str(v)) for k, v in vals.items()}
        for p in r["problems"]:
            chk.finding("api:" + p[:40], p, replay)
        if shape in RENDER_SHAPES:
            segs = r["segs"]
            ok_shape = len(segs) == (3 if "C" not in S else 4) and segs[-1] == ""
            if not ok_shape:
                chk.finding("api:render-shape", "unexpected output shape", replay)
                return
            inner, outer = dec(segs[-3]), dec(segs[-2])
            # oracle: inside the partial the parent's locals and counters are invisible
            want_in = spec_value(S, "RMTEU" if shape in ("render2", "render3", "render2_in_block") else "BRMTEU", vals)
            want_out = spec_value(S, "LRMTEUC", vals)
            wheres = ("inside {% render %}", "after {% render %}")
            if shape == "extends_block":
                # in the block every layer is visible, block-scoped bindings of the page first;
                # what the block assigned stays in the block
                want_in = spec_value(S, LAYERS, vals)
                want_out = spec_value(S, "RMTEUC", vals)
                wheres = ("in a block through extends", "after the block through extends")
            for got, want, where in ((inner, want_in, wheres[0]), (outer, want_out, wheres[1])):
                stats["lookups"] += 1
                g = ("U",) if got in (("N",), ("T",)) else got
                if (g != want and shape == "extends_block" and where == wheres[0] and "B" in S and "L" in S
                        and g == layer_vals(vals)["L"]):
                    # known: what the block assigned wins over the with-binding that encloses the block
                    stats["block_assign_shadowed_enclosing_binding"] = stats.get("block_assign_shadowed_enclosing_binding", 0) + 1
                    chk.finding("block-assign-shadows-enclosing-binding-through-extends",
                                "in a {% block %} rendered through {% extends %}, a variable assigned in the block is found before the "
                                f"with / for binding that encloses the block tag (layers {S}: {name} resolved to {got}, the documented "
                                f"order gives {want})", replay)
                elif g != want:
                    chk.finding("precedence:" + where, f"layers {S}{' values ' + str(replay['layer_values']) if vals else ''}: {name} resolved to {got}, the documented order gives {want} {where}", replay)
                elif want in FALSY:
                    stats["falsy_value_won"][FALSY_NAME[want]] = stats["falsy_value_won"].get(FALSY_NAME[want], 0) + 1
            case = (f"{'chk_copy2' if shape == 'render2' else 'chk_copy'} {cworld(r['world'])} {cops(r['prog'].ops(r['pre']))} {cdict(r['ns'])} "
                    f"{ck(name)} {coval(inner)} {coval(outer)}")
            if shape == "render3":
                case = (f"chk_copy3 {cworld(r['world'])} {cops(r['prog'].ops(r['pre']))} {cdict(r['ns'])} "
                        f"{ck(name)} {coval(inner)} {coval(outer)}")
            if shape == "render2_in_block":
                case = (f"chk_copy_blk {cworld(r['world'])} {cops(r['prog'].ops(r['pre']))} "
                        f"{ck(name)} {coval(inner)} {coval(outer)}")
            if shape == "extends_block":
                bops = r["prog"].ops(r["pre"]) + [("lookup", name)]
                btrace = [("C", int(segs[0]) if re.fullmatch(r"-?\d+", segs[0]) else 12345)] if "C" in S else []
                btrace.append(("L", name, inner))
                case = f"chk_block {cworld(r['world'])} {cdict(r['ns'])} {cops(bops)} {ck(name)} {ctrace(btrace)} {coval(outer)}"
            items.append({"case": case, "model": f"render 30 {cworld(r['world'])} {cops(r['prog'].ops(r['pre']))}",
                          "replay": replay})
            return
        P: Prog = r["prog"]
        kinds = P.kinds(r["nodes"])
        segs = r["segs"]
        if len(segs) != len(kinds) + 1 or segs[-1] != "":
            chk.finding("api:output-shape", f"expected {len(kinds)} output segments", replay)
            return
        trace: list[tuple] = []
        # expected trace in model order = lookups / counters in execution order,
        # which is the order of the output segments
        for kind, seg in zip(kinds, segs):
            if kind[0] == "L":
                trace.append(("L", kind[1], dec(seg)))
            elif kind[0] == "C":
                trace.append(("C", int(seg) if re.fullmatch(r"-?\d+", seg) else 12345))
        # direct oracle on the lookups of the multiply defined name:
        # first lookup sees every layer, the last one (after all blocks) no block scope
        looks = [x for x in trace if x[0] == "L" and x[1] == name]
        stats["lookups"] += len(looks)
        if looks:
            first, last = looks[0][2], looks[-1][2]
            want_first = spec_value(S, LAYERS, vals)
            if shape == "for" and "B" in S and not (vals and "B" in vals):
                want_first = ("I", 7)  # the block binding is the loop item
            checks = [(g_[2], want_first, "in the block") for g_ in looks[:-1]] if len(looks) > 2 else [(first, want_first, "in the block")]
            for got, want, where in checks + [(last, spec_value(S, "LRMTEUC", vals), "after the block")]:
                g = ("U",) if got in (("N",), ("T",)) else got
                if g != want:
                    chk.finding("precedence:" + where, f"layers {S}{' values ' + str(replay['layer_values']) if vals else ''}, shape {shape}: {name} resolved to {got}, the documented order gives {want} {where}", replay)
                elif want in FALSY:
                    stats["falsy_value_won"][FALSY_NAME[want]] = stats["falsy_value_won"].get(FALSY_NAME[want], 0) + 1
            win = next((l for l in LAYERS if l in S), "-")
            stats["winner"][win] = stats["winner"].get(win, 0) + 1
        replay["decoded_trace"] = trace
        ops = P.ops(r["nodes"])
        case = f"chk {cworld(r['world'])} {cops(ops)} {ctrace(trace)}"
        items.append({"case": case, "model": f"observe (render 30 {cworld(r['world'])} {cops(ops)})",
                      "replay": replay})

    for bits in range(256):
        S = "".join(l for i, l in enumerate(LAYERS) if bits >> i & 1)
        for si, shape in enumerate(SHAPES):
            paths = (0, 1, 2) if thorough else ((bits + si) % 3,)
            if not thorough and shape in LAMBDA_SHAPES:
                paths = ((bits + si) % 2, 2)  # early-exit arrow functions: always sync AND async
            for path in paths:
                one(S, shape, path, bool((bits + si + path) % 2))

    # Falsy layer values (nil, false, 0, '', [], {}): presence decides, not truthiness.
    # Every subset x every data layer of it (quick: its winning layer) x every falsy value,
    # shapes in rotation, nil both sync and async.
    n = 0
    for bits in range(256):
        S = "".join(l for i, l in enumerate(LAYERS) if bits >> i & 1)
        data_layers = [l for l in S if l in TOK]
        for li, layer in enumerate(data_layers if thorough else data_layers[:1]):
            for fi, fv in enumerate(FALSY):
                n += 1
                shape = SHAPES[n % len(SHAPES)]
                if thorough:
                    paths = (0, 1, 2)
                elif fv == T_NIL:
                    paths = (n % 2, 2)
                else:
                    paths = (n % 3,)
                for path in paths:
                    one(S, shape, path, bool((n + path) % 2), vals={layer: fv}, probe=True)
    # the counter layer holding 0
    for path in (0, 2):
        one("C", "plain", path, False, vals={"_counter_zero": T_ZERO}, probe=True)
    return items


# ====================================================== B: real RenderContext


class Halt(Exception):
    pass


def run_ctx(w: dict[str, list], lim: int, ops: list[tuple], none_for_empty: bool) -> dict[str, Any]:
    from liquid2 import Environment, RenderContext
    from liquid2.exceptions import ContextDepthError
    from liquid2.undefined import is_undefined

    py = {k: {n: pyval(v) for n, v in items} for k, items in w.items()}
    eg, tg, mm, ra = (py[k] for k in ("eg", "tg", "m", "ra"))
    ids = [id(x) for x in (eg, tg, mm, ra)]

    def opt(d: dict) -> Any:
        return d if d or not none_for_empty else None

    env = Environment(globals=opt(eg))
    env.context_depth_limit = lim  # type: ignore[misc]
    t = env.from_string("", globals=opt(tg), overlay_data=opt(mm))
    ctx = RenderContext(t, global_data=t.make_globals(dict(ra)))
    trace: list[tuple] = []
    n = [0]

    multi = [0]

    def holders(m: Any, k: str) -> int:
        if hasattr(m, "_maps"):
            return sum(holders(x, k) for x in m._maps)
        return 1 if k in m else 0

    def look(k: str) -> None:
        n[0] += 1
        if holders(ctx.scope, k) >= 2:
            multi[0] += 1
        if n[0] % 2:
            v = ctx.get([k], token=None)
        else:
            v = ctx.resolve(k)
        trace.append(("L", k, None if is_undefined(v) else token_of(v)))

    def run(ops: list[tuple]) -> None:
        for op in ops:
            kind = op[0]
            if kind == "lookup":
                look(op[1])
            elif kind == "assign":
                ctx.assign(op[1], pyval(op[2]))
            elif kind == "incr":
                trace.append(("C", ctx.increment(op[1])))
            elif kind == "decr":
                trace.append(("C", ctx.decrement(op[1])))
            elif kind == "push":
                ctx.scope.push({k: pyval(v) for k, v in op[1]})
            elif kind == "pop":
                ctx.scope.pop()
            elif kind == "extend":
                with ctx.extend({k: pyval(v) for k, v in op[1]}):
                    run(op[2])

    status = 0
    try:
        run(ops)
    except ContextDepthError:
        status = 1
    except IndexError:
        status = 2
    except Exception as e:  # noqa: BLE001
        status = 3
        trace.append(("L", "x", ("D", 997)))
        err = type(e).__name__
    scope_dicts: list[list | None] = []
    for m in ctx.scope._maps:
        scope_dicts.append([(k, token_of(v)) for k, v in m.items()] if type(m) is dict else None)
    problems = []
    if [id(x) for x in (eg, tg, mm, ra)] != ids:
        problems.append("identity")
    if any(m is x for m in ctx.scope._maps for x in (eg, tg, mm, ra)):
        problems.append("a caller mapping sits directly in the scope chain")
    if ctx.locals is eg or ctx.locals is tg or ctx.locals is mm or ctx.locals is ra:
        problems.append("locals aliases a caller mapping")
    if t.global_data is env.globals or t.global_data is tg:
        problems.append("template.global_data aliases a caller mapping (make_globals did not allocate)")
    return {
        "trace": trace, "status": status, "size": ctx.scope.size(), "scope": scope_dicts,
        "locals": [(k, token_of(v)) for k, v in ctx.locals.items()],
        "counters": [(k, token_of(v)) for k, v in ctx.counters.items()],
        "caller": [[(k, token_of(v)) for k, v in d.items()] for d in (eg, tg, mm, ra)],
        "problems": problems, "multi": multi[0],
    }


def c_observation(res: dict[str, Any]) -> str:
    sd = C.clist((codict(d) for d in res["scope"]), "(option (dict N))")
    return (f"({ctrace(res['trace'])}, {res['status']}, ({C.cnat(res['size'])}, {sd}), "
            f"({cdict(res['locals'])}, {cdict(res['counters'])}), "
            f"{C.clist((cdict(d) for d in res['caller']), '(dict N)')})")


def fz(r, tok: tuple) -> tuple:
    """Every fifth generated value is one of the falsy ones."""
    return r.choice(FALSY) if r.random() < 0.2 else tok


def gen_ops(r, depth: int, n: int, raw: bool, names: list[str]) -> list[tuple]:
    out: list[tuple] = []
    for _ in range(n):
        k = r.choice(names)
        x = r.random()
        if x < 0.38:
            out.append(("lookup", k))
        elif x < 0.55:
            out.append(("assign", k, fz(r, ("D", r.randint(10, 19)) if r.random() < 0.8 else ("I", r.randint(-3, 3)))))
        elif x < 0.65:
            out.append(("incr", k))
        elif x < 0.72:
            out.append(("decr", k))
        elif x < 0.80 and raw:
            out.append(("push", gen_ns(r, names)) if r.random() < 0.5 else ("pop",))
        elif depth > 0:
            out.append(("extend", gen_ns(r, names), gen_ops(r, depth - 1, r.randint(0, 4), raw, names)))
        else:
            out.append(("lookup", k))
    return out


def gen_ns(r, names: list[str]) -> list[tuple[str, tuple]]:
    ks = r.sample(names, r.randint(0, 2))
    return [(k, fz(r, ("D", r.randint(20, 29)))) for k in ks]


def gen_world(r, names: list[str]) -> dict[str, list]:
    w = {}
    base = {"eg": 60, "tg": 50, "m": 40, "ra": 30}
    for key in ("eg", "tg", "m", "ra"):
        ks = [k for k in names if r.random() < 0.45]
        r.shuffle(ks)
        w[key] = [(k, fz(r, ("D", base[key] + i))) for i, k in enumerate(ks)]
    return w


def part_b(chk: C.Check, thorough: bool) -> list[dict[str, Any]]:
    r = C.rng("c10", "B")
    items = []
    cases: list[tuple[dict, int, list[tuple], bool]] = []
    expect_first: dict[int, tuple] = {}  # case index -> (falsy value the first lookup must return, subset, layer)
    # (1) exhaustive: all 256 subsets, layer contents installed through the real operations
    for bits in range(256):
        S = "".join(l for i, l in enumerate(LAYERS) if bits >> i & 1)
        for name in (("now", "today") if "U" in S else ("x",)):
            w = api_world(S, name)
            ops: list[tuple] = []
            if "C" in S:
                ops.append(("decr" if bits % 3 == 0 else "incr", name))
            if "L" in S:
                ops.append(("assign", name, ("D", 2)))
            look = [("lookup", name)]
            inner = [("extend", [(name, ("D", 1))] if "B" in S else [], look + [("extend", [], look)])]
            cases.append((w, 30, ops + inner + look, bool(bits % 2)))
    # (1b) falsy layer values: every subset x its winning data layer (thorough: every data
    # layer) x nil / false / 0 / '' / [] / {} - the lookup must answer with the falsy value
    for bits in range(256):
        S = "".join(l for i, l in enumerate(LAYERS) if bits >> i & 1)
        data_layers = [l for l in S if l in TOK]
        for layer in (data_layers if thorough else data_layers[:1]):
            for fv in FALSY:
                name = ("now" if bits % 2 else "today") if "U" in S else "x"
                lv = layer_vals({layer: fv})
                w = api_world(S, name, {layer: fv})
                ops = []
                if "C" in S:
                    ops.append(("incr", name))
                if "L" in S:
                    ops.append(("assign", name, lv["L"]))
                look = [("lookup", name)]
                ops += [("extend", [(name, lv["B"])] if "B" in S else [], look + [("extend", [], look)])] + look
                # the first lookup sees every layer: the winning data layer's value (the falsy
                # one when that layer wins)
                expect_first[len(cases)] = (lv[data_layers[0]], S, layer, fv)
                cases.append((w, 30, ops, bool(bits % 2)))
    cases.append((api_world("", "x"), 30, [("incr", "x"), ("decr", "x"), ("lookup", "x"), ("assign", "x", T_NIL), ("lookup", "x"),
                                           ("extend", [("x", T_FALSE)], [("lookup", "x"), ("extend", [("x", T_ESTR)], [("lookup", "x")])]),
                                           ("push", [("x", T_ELIST)]), ("lookup", "x"), ("pop",), ("lookup", "x")], False))
    # (2) corpus: boundaries of the depth limit, pops to empty, finally-pop after raw pops
    x1 = [("x", ("D", 1))]
    for lim in (3, 4, 5, 6):
        cases.append((api_world("RE", "x"), lim,
                      [("extend", x1, [("lookup", "x"), ("extend", [], [("assign", "x", ("D", 2)), ("extend", [], [("lookup", "x")])]),
                                       ("lookup", "y")]), ("lookup", "x")], False))
    cases.append((api_world("LE", "x"), 30, [("pop",), ("lookup", "x"), ("pop",), ("pop",), ("pop",), ("lookup", "now"), ("pop",), ("lookup", "x")], True))
    cases.append((api_world("E", "x"), 30, [("extend", x1, [("pop",), ("pop",), ("pop",), ("pop",), ("pop",)]), ("lookup", "x")], False))
    cases.append((api_world("E", "x"), 30, [("assign", "x", ("D", 2)), ("extend", x1, [("pop",), ("lookup", "x")]), ("lookup", "x")], False))
    cases.append((api_world("", "x"), 30, [("incr", "x"), ("incr", "x"), ("decr", "y"), ("lookup", "x"), ("lookup", "y"),
                                             ("assign", "y", ("I", 5)), ("lookup", "y"), ("decr", "y")], True))
    names = ["x", "y", "now", "today"]
    # (2b) for every seed: the all-empty world and the worlds with exactly one non-empty
    # caller mapping (falsy / nearly falsy chain maps: `global_data or {}` territory)
    sparse = [{"eg": [], "tg": [], "m": [], "ra": []}]
    for key, tokv in (("eg", 6), ("tg", 5), ("m", 4), ("ra", 3)):
        for nm in ("x", "now"):
            w0 = {"eg": [], "tg": [], "m": [], "ra": []}
            w0[key] = [(nm, ("D", tokv))]
            sparse.append(w0)
    for wi, w0 in enumerate(sparse):
        for j in range(24 if thorough else 8):
            cases.append((w0, r.choice([30, 30, 4, 5, 6]), gen_ops(r, 3, r.randint(1, 9), j % 4 == 3, names), bool((wi + j) % 2)))
    # (3) random nested sequences
    for i in range(6000 if thorough else 700):
        raw = r.random() < 0.3
        lim = r.choice([30, 30, 30, 4, 5, 6, 7])
        w = gen_world(r, names)
        ops = gen_ops(r, 3, r.randint(1, 9 if not thorough else 14), raw, names)
        cases.append((w, lim, ops, bool(i % 2)))
    st = chk.coverage.setdefault("partB", {"sequences": 0, "ops": 0, "depth_errors": 0, "index_errors": 0,
                                           "lookups": 0, "lookups_name_in_two_or_more_layers": 0, "_nontrivial": set()})
    for ci, (w, lim, ops, nfe) in enumerate(cases):
        res = run_ctx(w, lim, ops, nfe)
        if ci in expect_first:
            want_, S_, layer_, fv = expect_first[ci]
            got = next((x[2] for x in res["trace"] if x[0] == "L"), "no lookup")
            st["falsy_sequences"] = st.get("falsy_sequences", 0) + 1
            if got != want_:
                chk.finding("precedence:falsy value treated as absent",
                            f"layers {S_}, layer {layer_} bound to {FALSY_NAME[fv]}: the name resolved to {got}, the documented order gives {want_}, on a real RenderContext",
                            {"world": w, "ops": ops, "trace": res["trace"], "how": "harness/c10.py run_ctx"})
        st["sequences"] += 1
        st["ops"] += len(ops)
        st["depth_errors"] += res["status"] == 1
        st["index_errors"] += res["status"] == 2
        st["lookups"] += sum(1 for t in res["trace"] if t[0] == "L")
        st["lookups_name_in_two_or_more_layers"] += res["multi"]
        if res["multi"]:
            st["_nontrivial"].add(repr((w, lim, ops)))
        replay = {"world": w, "depth_limit": lim, "ops": ops, "implementation": {k: res[k] for k in
                  ("trace", "status", "size", "scope", "locals", "counters", "caller")},
                  "how": "harness/c10.py run_ctx"}
        for p in res["problems"]:
            chk.finding("ctx:" + p[:40], p, replay)
        # direct oracle: the caller's mappings are unchanged
        if res["caller"] != [w["eg"], w["tg"], w["m"], w["ra"]]:
            chk.finding("ctx:caller-mapping-changed", "a caller mapping changed under context operations", replay)
        case = f"observe_eqb (observe (exec_list {C.cnat(lim)} {cops(ops)} (build_base {cworld(w)}))) {c_observation(res)}"
        items.append({"case": case, "model": f"observe (exec_list {C.cnat(lim)} {cops(ops)} (build_base {cworld(w)}))",
                      "replay": replay})
    return items


# ===================================================== C: ReadOnlyChainMap alone


def part_c(chk: C.Check, thorough: bool) -> list[dict[str, Any]]:
    from liquid2.context import builtin
    from liquid2.utils import ReadOnlyChainMap

    r = C.rng("c10", "C")
    items = []
    names = ["x", "y", "now"]
    st = chk.coverage.setdefault("partC", {"chains": 0, "ops": 0})
    for i in range(1500 if thorough else 250):
        store: list[list[tuple[str, tuple]]] = []
        pystore: list[dict] = []

        def new_dict() -> int:
            d = gen_ns(r, names)
            store.append(d)
            pystore.append({k: pyval(v) for k, v in d})
            return len(store) - 1

        def gen_ref(depth: int) -> tuple[str, Any]:
            x = r.random()
            if x < 0.6 or depth == 0:
                a = new_dict()
                return (f"RDict {C.cnat(a)}", pystore[a])
            if x < 0.75:
                return ("RBuiltin", builtin)
            subs = [gen_ref(depth - 1) for _ in range(r.randint(0, 3))]
            return ("(RChain " + C.clist((s[0] for s in subs), "mref") + ")", ReadOnlyChainMap(*[s[1] for s in subs]))

        refs = [gen_ref(2) for _ in range(r.randint(0, 3))]
        cm = ReadOnlyChainMap(*[x[1] for x in refs])
        ops: list[tuple] = []
        trace: list[tuple] = []
        status = 0
        get_checks = []
        try:
            for _ in range(r.randint(1, 8)):
                x = r.random()
                if x < 0.5:
                    k = r.choice(names)
                    ops.append(("lookup", k))
                    try:
                        v = cm[k]
                        trace.append(("L", k, token_of(v)))
                    except KeyError:
                        trace.append(("L", k, None))
                    # .get with a default agrees with __getitem__
                    g = cm.get(k, "v77")
                    want = token_of(g)
                    if (trace[-1][2] or ("D", 77)) != want:
                        chk.finding("chainmap:get", "ReadOnlyChainMap.get disagrees with __getitem__", {"key": k})
                elif x < 0.75:
                    d = gen_ns(r, names)
                    ops.append(("push", d))
                    cm.push({k: pyval(v) for k, v in d})
                else:
                    ops.append(("pop",))
                    cm.pop()
        except IndexError:
            status = 2
        size = cm.size()
        total_len = len(cm)
        scope = [[(k, token_of(v)) for k, v in m.items()] if type(m) is dict else None for m in cm._maps]
        st["chains"] += 1
        st["ops"] += len(ops)
        sd = C.clist((codict(d) for d in scope), "(option (dict N))")
        cstore = C.clist((cdict(d) for d in store), "(dict N)")
        cchain = C.clist((x[0] for x in refs), "mref")
        case = (f"(let r := exec_list 30 {cops(ops)} (raw_state {cstore} {cchain}) in "
                f"list_eqb obs_eqb (trace_of r) {ctrace(trace)} && N.eqb (status_code (status_of r)) {status} "
                f"&& Nat.eqb (cm_size (scope (state_of r))) {C.cnat(size)} "
                f"&& Nat.eqb (mlen (store_of (state_of r)) (RChain (scope (state_of r)))) {C.cnat(total_len)} "
                f"&& list_eqb (option_eqb dict_eqb) (scope_dicts (store_of (state_of r)) (scope (state_of r))) {sd})")
        items.append({"case": case, "model": f"observe (exec_list 30 {cops(ops)} (raw_state {cstore} {cchain}))",
                      "replay": {"store": store, "chain": [x[0] for x in refs], "ops": ops, "trace": trace,
                                 "status": status, "size": size, "scope": scope}})
    return items


# ============================= E: caching loaders that supply matter; repeated fetches and renders


def _front_matter(text: str) -> tuple[str, dict[str, str] | None]:
    if text.startswith("---\n"):
        head, _, body = text[4:].partition("\n---\n")
        return body, dict(line.split(": ", 1) for line in head.splitlines() if ": " in line)
    return text, None


def caching_loader(kind: str, sources: dict[str, str], matter: dict[str, dict | None], root: str, flip: bool = False):
    """A loader whose TemplateSource carries matter: caching dict-backed (matter handed
    over as a mapping), caching file-system backed (front matter parsed from the file),
    or a ChoiceLoader / CachingChoiceLoader over NON-caching delegates of both sorts
    (the templates are split between the two delegates; `flip` swaps the halves)."""
    from liquid2 import (CachingChoiceLoader, CachingDictLoader, CachingFileSystemLoader, ChoiceLoader, DictLoader,
                         FileSystemLoader)
    from liquid2.loader import TemplateSource

    def write_files(names: list[str]) -> None:
        for name in names:
            m = matter.get(name)
            head = ("---\n" + "".join(f"{k}: {v}\n" for k, v in m.items()) + "---\n") if m else ""
            with open(os.path.join(root, name), "w", encoding="utf-8") as fd:
                fd.write(head + sources[name])

    def split_fm(ts):  # type: ignore[no-untyped-def]
        body, m = _front_matter(ts.source)
        return TemplateSource(body, ts.name, ts.uptodate, m)

    if kind in ("choice", "cchoice"):
        class MatterDictLoader(DictLoader):
            def get_source(self, env, template_name, *, context=None, **kwargs):  # type: ignore[no-untyped-def]
                ts = super().get_source(env, template_name, context=context, **kwargs)
                return TemplateSource(ts.source, ts.name, ts.uptodate, matter.get(template_name))

        class FrontMatterFileLoader(FileSystemLoader):
            def get_source(self, env, template_name, *, context=None, **kwargs):  # type: ignore[no-untyped-def]
                return split_fm(super().get_source(env, template_name, context=context, **kwargs))

            async def get_source_async(self, env, template_name, *, context=None, **kwargs):  # type: ignore[no-untyped-def]
                return split_fm(await super().get_source_async(env, template_name, context=context, **kwargs))

        names = sorted(sources)
        in_dict = [n for i, n in enumerate(names) if (i % 2 == 0) != flip]
        in_files = [n for n in names if n not in in_dict]
        write_files(in_files)
        delegates = [DictLoader({}), MatterDictLoader({n: sources[n] for n in in_dict}), FrontMatterFileLoader(root)]
        return ChoiceLoader(delegates) if kind == "choice" else CachingChoiceLoader(delegates)

    if kind == "dict":
        class MatterCachingDictLoader(CachingDictLoader):
            def get_source(self, env, template_name, *, context=None, **kwargs):  # type: ignore[no-untyped-def]
                ts = super().get_source(env, template_name, context=context, **kwargs)
                return TemplateSource(ts.source, ts.name, ts.uptodate, matter.get(template_name))

            async def get_source_async(self, env, template_name, *, context=None, **kwargs):  # type: ignore[no-untyped-def]
                ts = await super().get_source_async(env, template_name, context=context, **kwargs)
                return TemplateSource(ts.source, ts.name, ts.uptodate, matter.get(template_name))

        return MatterCachingDictLoader(dict(sources))

    class FrontMatterLoader(CachingFileSystemLoader):
        @staticmethod
        def _split(ts):  # type: ignore[no-untyped-def]
            body, m = _front_matter(ts.source)
            return TemplateSource(body, ts.name, ts.uptodate, m)

        def get_source(self, env, template_name, *, context=None, **kwargs):  # type: ignore[no-untyped-def]
            return self._split(super().get_source(env, template_name, context=context, **kwargs))

        async def get_source_async(self, env, template_name, *, context=None, **kwargs):  # type: ignore[no-untyped-def]
            return self._split(await super().get_source_async(env, template_name, context=context, **kwargs))

    write_files(list(sources))
    return FrontMatterLoader(root)


LOADER_NAME = {"dict": "caching dict loader with matter", "fs": "caching file-system loader with front matter",
               "choice": "ChoiceLoader over matter-supplying dict and file-system loaders",
               "cchoice": "CachingChoiceLoader over matter-supplying dict and file-system loaders"}


def part_e(chk: C.Check, thorough: bool) -> list[dict[str, Any]]:
    from liquid2 import Environment

    items: list[dict[str, Any]] = []
    st = chk.coverage.setdefault("partE", {"by_loader": {}, "environments": 0, "fetches": 0, "cache_hits": 0, "renders": 0, "lookups": 0,
                                           "matter_layer_answered_after_a_cache_hit": 0, "from_string_renders": 0,
                                           "_nontrivial": set()})
    scratch = tempfile.mkdtemp(prefix="c10_", dir=os.environ.get("VERIF_SCRATCH", "/var/tmp"))
    loop = asyncio.new_event_loop()

    def check(got: tuple | None, want: tuple | None, sig: str, what: str, replay: dict) -> None:
        st["lookups"] += 1
        g = ("U",) if got in (("N",), ("T",)) else got
        if g != want:
            chk.finding("precedence:" + sig, f"{what}: resolved to {got}, the documented order gives {want}", replay)

    try:
        n_env = 0
        for bits in range(256):
            S = "".join(l for i, l in enumerate(LAYERS) if bits >> i & 1)
            name = ("today" if (len(S) % 2) else "now") if "U" in S else "x"
            combos = [("dict", False), ("dict", True), ("fs", False), ("fs", True),
                      ("choice", False), ("choice", True), ("cchoice", False), ("cchoice", True)]
            if not thorough:
                # two of the four caching dict / file-system combinations and two of the four
                # choice-loader combinations per subset, one of them async, in rotation
                combos = [combos[bits % 2], combos[3 - bits % 2]] + \
                         ([("choice", True), ("cchoice", False)] if bits % 2 == 0 else [("cchoice", True), ("choice", False)])
            for kind, is_async in combos:
                n_env += 1
                P = Prog(probe=True)
                pre, _ = api_program(S, name, "plain")
                out = ("out", name)
                nodes = pre + ([("with", [(name, ("D", 1))], [out])] if "B" in S else [out]) + [out, ("include", [], [out])]
                src = P.src(nodes) + "{% render 'rp' %}"
                kinds = P.kinds(nodes)
                ops = P.ops(nodes)
                sources = dict(P.partials)
                sources.update({
                    "main": src,
                    "rp": "{{ " + name + " | probe }}" + SEP,
                    "child": "{% extends 'base' %}{% block b %}{{ " + name + " | probe }}" + SEP + "{% endblock %}",
                    "base": "{% block b %}{% endblock %}{{ " + name + " | probe }}" + SEP,
                })
                own = {name: "v4"} if "M" in S else None
                matter: dict[str, dict | None] = {k: {name: "v8"} for k in sources}
                matter["main"] = own
                matter["child"] = own
                root = os.path.join(scratch, f"e{n_env}")
                os.mkdir(root)
                eg = {name: "v6"} if "E" in S else None
                env = Environment(loader=caching_loader(kind, sources, matter, root, flip=bool(bits & 2)), globals=eg)
                env.filters["probe"] = probe_filter
                st["environments"] += 1
                lk = f"{kind}{' async' if is_async else ' sync'}"
                st["by_loader"][lk] = st["by_loader"].get(lk, 0) + 1
                W1 = api_world(S, name)

                def fetch(tname: str, tg: dict | None):  # type: ignore[no-untyped-def]
                    st["fetches"] += 1
                    if tname in getattr(env.loader, "cache", ()):
                        st["cache_hits"] += 1
                    if is_async:
                        return loop.run_until_complete(env.get_template_async(tname, globals=tg))
                    return env.get_template(tname, globals=tg)

                def render(t: Any, ra: dict, twice: bool = True) -> str:
                    st["renders"] += 2 if twice else 1
                    if is_async:
                        a = loop.run_until_complete(t.render_async(**ra))
                        b = loop.run_until_complete(t.render_async(**ra)) if twice else a
                    else:
                        a = t.render(**ra)
                        b = (t.render(ra) if ra else t.render()) if twice else a
                    if a != b:
                        chk.finding("cached:render-not-repeatable", "two renders of one fetched template differ",
                                    {"source": src, "first": a, "second": b})
                    return a

                # (tg token, ra token) of the successive fetches of `main`
                plan = [(5 if "T" in S else None, 3 if "R" in S else None), (None, None), (7, 9 if "R" in S else None)]
                if thorough:
                    plan.append((5 if "T" in S else None, 3 if "R" in S else None))
                for fi, (tgv, rav) in enumerate(plan):
                    tg = {name: f"v{tgv}"} if tgv else None
                    ra = {name: f"v{rav}"} if rav else {}
                    Si = "".join(l for l in S if l not in "TR") + ("T" if tgv else "") + ("R" if rav else "")
                    vals = {"T": ("D", tgv or 0), "R": ("D", rav or 0)}
                    replay = {"layers": S, "loader": LOADER_NAME[kind], "async": is_async, "fetch": fi + 1, "template": "main",
                              "per_call_globals": tg, "render_args": ra, "source": src,
                              "partials": {k: v for k, v in sources.items() if k != "main"}}
                    segs = render(fetch("main", tg), ra, twice=thorough or (fi != 1 and "choice" not in kind)).split(SEP)
                    replay["output"] = segs
                    if len(segs) != len(kinds) + 2 or segs[-1] != "":
                        chk.finding("cached:output-shape", "unexpected output shape", replay)
                        continue
                    trace: list[tuple] = []
                    for kind_, seg in zip(kinds, segs):
                        if kind_[0] == "L":
                            trace.append(("L", kind_[1], token_of_probe(seg)))
                        elif kind_[0] == "C":
                            trace.append(("C", int(seg) if re.fullmatch(r"-?\d+", seg) else 12345))
                    looks = [x[2] for x in trace if x[0] == "L"]
                    tag = f"layers {S}, {LOADER_NAME[kind]}{' async' if is_async else ''}, fetch {fi + 1} of main"
                    sig = ("matter loader, fetch 1" if fi == 0 else "matter loader, later fetch") + (" (choice loader)" if "choice" in kind else "")
                    check(looks[0], spec_value(Si, LAYERS, vals), sig, tag + " (in the block)", replay)
                    check(looks[1], spec_value(Si, "LRMTEUC", vals), sig, tag + " (after the block)", replay)
                    check(looks[2], spec_value(Si, "LRMTEUC", vals), sig, tag + " (in the included partial)", replay)
                    check(token_of_probe(segs[-2]), spec_value(Si, "RMTEU", vals), sig, tag + " (in the rendered partial)", replay)
                    if fi and spec_value(Si, LAYERS, vals) == ("D", 4):
                        st["matter_layer_answered_after_a_cache_hit"] += 1
                    if len(Si) >= 2:
                        st["_nontrivial"].add((S, kind, is_async, fi))
                    ctg = cdict([(name, ("D", tgv))] if tgv else [])
                    cra = cdict([(name, ("D", rav))] if rav else [])
                    if fi == 0:
                        case = f"chk {cworld(W1)} {cops(ops)} {ctrace(trace)}"
                    elif kind == "choice":
                        # not a caching loader: every fetch constructs the template anew
                        case = f"chk {cworld(api_world(Si, name, vals))} {cops(ops)} {ctrace(trace)}"
                    else:
                        case = f"chk_refetch {cworld(W1)} {ctg} {cra} {cops(ops)} {ctrace(trace)}"
                    if thorough or "choice" not in kind or fi != 1:  # quick: the choice loaders' middle fetch is oracle-only
                        items.append({"case": case, "model": f"observe (exec 30 (Extend d0 {cops(ops)}) (refetch_state {cworld(W1)} {ctg} {cra}))",
                                      "replay": replay})
                # a child of a cached base (extends), fetched twice
                for fi, (tgv, rav) in enumerate(plan[:2] if not thorough else plan[:3]):
                    tg = {name: f"v{tgv}"} if tgv else None
                    ra = {name: f"v{rav}"} if rav else {}
                    Si = "".join(l for l in S if l in "MEU") + ("T" if tgv else "") + ("R" if rav else "")
                    vals = {"T": ("D", tgv or 0), "R": ("D", rav or 0)}
                    segs = render(fetch("child", tg), ra, twice=thorough or (fi == 1 and "choice" not in kind)).split(SEP)
                    replay = {"layers": S, "loader": LOADER_NAME[kind], "async": is_async, "fetch": fi + 1, "template": "child (extends base)",
                              "per_call_globals": tg, "render_args": ra, "sources": {k: sources[k] for k in ("child", "base")}, "output": segs}
                    if len(segs) != 3:
                        chk.finding("cached:output-shape", "unexpected output shape", replay)
                        continue
                    for seg, where in zip(segs, ("in the block of the child", "in the base template")):
                        check(token_of_probe(seg), spec_value(Si, "RMTEU", vals), "matter loader, extends" + (" (choice loader)" if "choice" in kind else ""),
                              f"layers {S}, {LOADER_NAME[kind]}{' async' if is_async else ''}, fetch {fi + 1} of child ({where})", replay)
                # the partial, cached through {% render %} with a context, now fetched directly: its OWN matter
                tg = {name: "v7"}
                segs = render(fetch("rp", tg), {}, twice=thorough).split(SEP)
                Si = "MT" + "".join(l for l in S if l in "EU")
                check(token_of_probe(segs[0]), spec_value(Si, "MTEU", {"M": ("D", 8), "T": ("D", 7)}),
                      "partial fetched directly" + (" (choice loader)" if "choice" in kind else ""),
                      f"layers {S}, {LOADER_NAME[kind]}{' async' if is_async else ''}: the partial rp fetched with get_template after a render tag had loaded it",
                      {"layers": S, "loader": kind, "async": is_async, "output": segs, "source": sources["rp"], "matter": {name: "v8"}, "globals": tg})
                # Environment.from_string(..., globals, overlay_data) rendered repeatedly
                if (kind, is_async) == combos[0]:
                    t = env.from_string(src, globals={name: "v5"} if "T" in S else None, overlay_data=own)
                    for ri, rav in enumerate((3 if "R" in S else None, None, 9)):
                        ra = {name: f"v{rav}"} if rav else {}
                        Si = "".join(l for l in S if l != "R") + ("R" if rav else "")
                        vals = {"R": ("D", rav or 0)}
                        segs = (loop.run_until_complete(t.render_async(**ra)) if is_async else t.render(**ra)).split(SEP)
                        st["from_string_renders"] += 1
                        replay = {"layers": S, "api": "from_string(globals, overlay_data)", "render": ri + 1, "render_args": ra,
                                  "source": src, "output": segs}
                        if len(segs) != len(kinds) + 2:
                            chk.finding("cached:output-shape", "unexpected output shape", replay)
                            continue
                        trace = []
                        for kind_, seg in zip(kinds, segs):
                            if kind_[0] == "L":
                                trace.append(("L", kind_[1], token_of_probe(seg)))
                            elif kind_[0] == "C":
                                trace.append(("C", int(seg) if re.fullmatch(r"-?\d+", seg) else 12345))
                        looks = [x[2] for x in trace if x[0] == "L"]
                        check(looks[0], spec_value(Si, LAYERS, vals), "from_string rendered repeatedly",
                              f"layers {S}, render {ri + 1} of one from_string template (in the block)", replay)
                        check(looks[1], spec_value(Si, "LRMTEUC", vals), "from_string rendered repeatedly",
                              f"layers {S}, render {ri + 1} of one from_string template (after the block)", replay)
                        Wi = api_world(Si, name, vals)
                        items.append({"case": f"chk {cworld(Wi)} {cops(ops)} {ctrace(trace)}",
                                      "model": f"observe (render 30 {cworld(Wi)} {cops(ops)})", "replay": replay})
    finally:
        loop.close()
        shutil.rmtree(scratch, ignore_errors=True)
    return items


# ================================================== D: immutability of the data


def make_data() -> dict[str, Any]:
    return {
        "ints": [3, 1, 2, 1],
        "strs": ["b", "A", "c", "b"],
        "mixed": [3, "a", None, 2.5, True, [1], {"a": 1}],
        "dicts": [{"a": 2, "b": "y", "t": ["q", "p"]}, {"a": 1, "b": "x"}, {"b": "z"}, {"a": None, "b": "y"}],
        "nested": [[3, 1], [2, [5, 4]], [], (9, 8)],
        "tup": (3, 1, 2),
        "tupnested": ([2, 1], (4, 3), {"a": [7, 6]}),
        "rng": range(3, 0, -1),
        "map": {"k2": [2, 1], "k1": {"z": [9, 8]}, "first": "F", "size": 99, "a": 5},
        "str": "hello <b>wörld</b> 12 apples",
        "numstr": "10",
        "empty": [],
        "emptyd": {},
        "none": None,
        "num": 7,
        "flt": 2.5,
        "flag": False,
        "deep": {"l1": {"l2": [{"l3": [2, 1]}, {"l3": [4, 3]}]}},
    }


PATHS = ["ints", "strs", "mixed", "dicts", "nested", "tup", "tupnested", "rng", "map", "map.k2", "map.k1",
         "str", "numstr", "empty", "emptyd", "none", "num", "flt", "flag", "deep", "deep.l1.l2", "dicts[0]",
         "dicts[0].t", "nested[1]", "nested[3]", "tupnested[2]", ""]
CONTAINER_PATHS = [p for p in PATHS if p not in ("str", "numstr", "none", "num", "flt", "flag")]
ROOTS = ["eg", "tg", "mm", "ra"]


def canon(o: Any) -> Any:
    """Type-exact, order-exact structural snapshot."""
    if type(o) is dict:
        return ("dict", tuple((canon(k), canon(v)) for k, v in o.items()))
    if type(o) is list:
        return ("list", tuple(canon(x) for x in o))
    if type(o) is tuple:
        return ("tuple", tuple(canon(x) for x in o))
    if type(o) is range:
        return ("range", o.start, o.stop, o.step)
    return (type(o).__name__, repr(o))


def idmap(o: Any, path: str = "", out: dict[str, int] | None = None) -> dict[str, int]:
    out = {} if out is None else out
    if isinstance(o, (dict, list, tuple, range)):
        out[path] = id(o)
    if isinstance(o, dict):
        for k, v in o.items():
            idmap(v, f"{path}.{k}", out)
    elif isinstance(o, (list, tuple)):
        for i, v in enumerate(o):
            idmap(v, f"{path}[{i}]", out)
    return out


class World:
    """The four caller-supplied mappings, with their snapshots."""

    def __init__(self) -> None:
        self.reset()

    def reset(self) -> None:
        self.data = {r: {r: make_data(), r + "_top": [2, 1, 3], "shared_name": r} for r in ROOTS}
        self.deep = {r: copy.deepcopy(self.data[r]) for r in ROOTS}
        self.canon = {r: canon(self.data[r]) for r in ROOTS}
        self.ids = {r: idmap(self.data[r]) for r in ROOTS}
        self.container_ids = {i for r in ROOTS for i in self.ids[r].values()}

    def check(self) -> list[str]:
        bad = []
        for r in ROOTS:
            if self.data[r] != self.deep[r]:
                bad.append(f"{r}: not deep-equal to its copy.deepcopy snapshot")
            elif canon(self.data[r]) != self.canon[r]:
                bad.append(f"{r}: type / order of a nested value changed")
            elif idmap(self.data[r]) != self.ids[r]:
                bad.append(f"{r}: a nested container was replaced by another object")
        return bad


ARG_ARITY = [0, 1, 1, 2, 2, 1, 1, 1, 1, 2, 1, 2, -1, 1, 1, 2]  # positional arguments of each ARG_SHAPES entry; -1 = keyword
ARG_SHAPES = ["", ": 'a'", ": 1", ": 'a', 1", ": 'b', 'y'", ": i => i.a", ": i => i", ": (i, j) => j", ": {P2}",
              ": 2, 1", ": '%Y'", ": 'l', 'L'", ": allow_false: true", ": nil", ": ' '", ": {P2}, 'x'"]


def filter_arity(f: Any) -> tuple[int, int, bool]:
    """(required, maximal) number of positional arguments after the left value, accepts keywords."""
    import inspect
    try:
        sig = inspect.signature(f)
    except (TypeError, ValueError):
        return 0, 3, True
    ps = list(sig.parameters.values())
    pos = [p for p in ps if p.kind in (p.POSITIONAL_ONLY, p.POSITIONAL_OR_KEYWORD)][1:]
    req = sum(1 for p in pos if p.default is p.empty)
    mx = 3 if any(p.kind == p.VAR_POSITIONAL for p in ps) else len(pos)
    kw = any(p.kind == p.VAR_KEYWORD or p.name == "allow_false" for p in ps)
    return req, mx, kw


def filter_sources(filters: dict[str, Any], thorough: bool, r) -> list[tuple[str, str, str]]:
    """(label, path, template with {R} for the root name). Argument shapes are
    drawn from those the filter's signature accepts, plus one it does not."""
    out = []
    arrayish = {"join", "first", "last", "concat", "map", "reverse", "sort", "sort_natural", "sort_numeric", "sum",
                "where", "reject", "uniq", "compact", "find", "find_index", "has", "size", "slice", "default",
                "json", "split"}
    for f in filters:
        if f in arrayish:
            paths = list(PATHS)
        elif thorough:
            paths = r.sample(PATHS, 12) + ["ints", "dicts"]
        else:
            paths = r.sample(PATHS, 3) + ["ints", "dicts"]
        req, mx, kw = filter_arity(filters[f])
        fits = [a for a, n in zip(ARG_SHAPES, ARG_ARITY) if (req <= n <= mx) or (n == -1 and kw and req == 0)]
        misfits = [a for a in ARG_SHAPES if a not in fits]
        for p in dict.fromkeys(paths):
            if thorough:
                shapes = fits + (r.sample(misfits, min(2, len(misfits))))
            elif f in arrayish:
                shapes = r.sample(fits, min(6, len(fits))) + r.sample(misfits, min(1, len(misfits)))
            else:
                shapes = r.sample(fits, min(3, len(fits))) + r.sample(misfits, min(1, len(misfits)))
            for a in shapes:
                P = "{R}" + ("." + p if p and not p.startswith("[") else p)
                P2 = "{R}.dicts" if p != "dicts" else "{R}.ints"
                fa = f + a.replace("{P2}", P2)
                expr = f"{P} | {fa}"
                kind = None if (thorough and f in arrayish) else r.randrange(4)
                forms = [
                    "{{ " + expr + " }}",
                    "{% assign y = " + expr + " %}{{ y }}{% assign z = y | reverse %}{{ z | join }}{{ y | first }}",
                    "{% for i in " + P + " %}{{ i | " + fa + " }}{% endfor %}",
                    "{{ " + expr + " }}{{ " + P + " | sort | " + fa + " }}{{ nosuch | " + fa + " }}",
                ]
                for fi, src in enumerate(forms):
                    if kind is None or kind == fi:
                        out.append((f"filter:{f}", p, src))
    return out


def tag_sources(thorough: bool, r) -> list[tuple[str, str, str]]:
    out = []
    for p in CONTAINER_PATHS + ["str", "num", "none"]:
        P = "{R}" + ("." + p if p and not p.startswith("[") else p)
        P2 = "{R}.dicts"
        loops = []
        for rev in ("", " reversed"):
            for lim in ("", " limit: 2", " limit: 0"):
                for off in ("", " offset: 1", " offset: continue", " offset: 5"):
                    loops.append(f"{P}{lim}{off}{rev}")
        for le in (loops if thorough else r.sample(loops, 6)):
            out.append(("tag:for", p, "{% for i in " + le + " %}{{ forloop.index }}{{ i }}{% if forloop.first %}{% continue %}{% endif %}"
                        "{% for j in i %}{{ j }}{% endfor %}{% else %}E{% endfor %}{% for i in " + le + " %}{{ i }}{% break %}{% endfor %}"))
        out += [
            ("tag:for-array-literal", p, "{% for i in " + P + ", 1, " + P2 + " %}{{ i | sort | join }}{% endfor %}"),
            ("tag:assign-array-literal", p, "{% assign y = " + P + ", " + P2 + " %}{{ y | sort_natural | join }}{{ y | concat: y | size }}"),
            ("tag:with", p, "{% with a: " + P + ", b: " + P2 + " %}{{ a | sort | join }}{{ a | concat: b | size }}{% assign a = 1 %}{{ a }}{% endwith %}{{ a }}"),
            ("tag:capture", p, "{% capture c %}{{ " + P + " | reverse | join }}{% endcapture %}{{ c | size }}"),
            ("tag:case", p, "{% case " + P + " %}{% when " + P2 + " %}a{% when " + P + " %}b{% when 1, 'x' %}c{% else %}d{% endcase %}"),
            ("tag:if", p, "{% if " + P + " contains 1 or " + P + " == " + P2 + " and " + P + " != empty %}a{% elsif " + P + " < " + P2 + " %}b{% else %}c{% endif %}"
                          "{% unless " + P + " %}u{% endunless %}{% if " + P + " in " + P2 + " %}i{% endif %}{% if not " + P + " %}n{% endif %}"),
            ("tag:cycle", p, "{% for k in (1..3) %}{% cycle " + P + ", " + P2 + ", 1 %}{% endfor %}"),
            ("tag:echo", p, "{% echo " + P + " | sort | first %}{% liquid assign y = " + P + " | reverse\n echo y | join\n for i in y\n echo i\n endfor %}"),
            ("tag:include", p, "{% include 'part' with " + P + " as a %}{% include 'part' for " + P + " as a %}{% include 'part', a: " + P + " %}{% include 'part2' with " + P + " %}"),
            ("tag:render", p, "{% render 'part' with " + P + " as a %}{% render 'part' for " + P + " as a %}{% render 'part', a: " + P + " %}{% render 'part2' for " + P + " %}"),
            ("tag:macro", p, "{% macro m(a, b=" + P2 + ") %}{{ a | sort | join }}{{ b | size }}{% for i in a reversed %}{{ i }}{% endfor %}{% endmacro %}{% call m(" + P + ") %}{% call m(b=" + P + ", a=" + P2 + ") %}"),
            ("tag:increment", p, "{% increment ints %}{% decrement " + "shared_name" + " %}{{ " + P + " | size }}{% increment {R} %}{{ {R} | size }}{{ ints }}"),
            ("tag:shadow", p, "{% assign {R} = 'shadow' %}{{ {R} }}{% assign shared_name = 'x' %}{% capture {R}_top %}c{% endcapture %}{{ {R}_top }}{% for {R} in " + P2 + " %}{{ {R}.a }}{% endfor %}"),
            ("tag:range", p, "{% for i in (1.." + P + ".size) %}{{ i }}{% endfor %}{% assign r = (1..3) %}{{ r | reverse | join }}{{ " + P + ".first }}{{ " + P + ".last }}{{ " + P + "[0] }}{{ " + P + "[-1] }}"),
            ("tag:ternary", p, "{{ " + P + " | sort if " + P + " else " + P2 + " | reverse || join }}{{ \"x${" + P + " | reverse | join}y\" }}"),
            ("tag:translate", p, "{% translate a: " + P + ", count: " + P + ".size %}one {{ a }}{% plural %}many {{ a }}{% endtranslate %}{{ 'm %(a)s' | t: a: " + P + " }}"),
            ("tag:extends", p, "{% extends 'base' %}{% block b %}{{ " + P + " | sort | join }}{{ block.super }}{% endblock %}"),
            ("tag:tablerow", p, "{% tablerow i in " + P + " cols: 2 limit: 3 %}{{ i }}{% endtablerow %}"),
        ]
    return out


def pair_sources(filters: list[str], thorough: bool, r) -> list[tuple[str, str, str]]:
    arr = [f for f in ("join", "first", "last", "concat", "map", "reverse", "sort", "sort_natural", "sort_numeric", "sum",
                       "where", "reject", "uniq", "compact", "find", "find_index", "has", "default", "slice") if f in filters]
    args = {"concat": ": {R}.ints", "map": ": 'a'", "where": ": 'a'", "reject": ": 'a'", "find": ": 'a', 1",
            "find_index": ": 'a', 1", "has": ": 'a'", "slice": ": 1, 2", "default": ": {R}.ints", "sort": "", }
    out = []
    for f1 in arr:
        for f2 in arr:
            ps = CONTAINER_PATHS if thorough else r.sample(CONTAINER_PATHS, 2)
            for p in ps:
                P = "{R}" + ("." + p if p and not p.startswith("[") else p)
                out.append((f"pair:{f1}|{f2}", p,
                            "{% assign y = " + P + " | " + f1 + args.get(f1, "") + " %}{{ y | " + f2 + args.get(f2, "") + " }}{{ y }}"))
    return out


FAIL_TAILS = ["", "{{ 1 | divided_by: 0 }}", "{{ nosuch_var_strict }}", "{% for i in (1..50) %}{{ i }}{% endfor %}",
              "{% include 'nosuch' %}", "{{ 1 | nosuchfilter }}", "{% break %}"]


def part_d(chk: C.Check, thorough: bool) -> None:
    from liquid2 import StrictUndefined
    from liquid2.exceptions import LiquidError
    from liquid2.shopify.environment import Environment  # the default environment + tablerow + base64 filters

    r = C.rng("c10", "D")
    W = World()
    partials = {
        "part": "{{ a | sort | join }}{% for i in a reversed %}{{ i }}{% endfor %}{{ a | concat: a | size }}{% assign a = 5 %}",
        "part2": "{{ part2 | reverse | join }}{{ part2 | first }}{{ forloop.index }}",
        "base": "B{% block b %}{{ eg.ints | reverse | join }}{% endblock %}",
    }
    sources = dict(partials)
    matter: dict[str, Any] = {}
    loader = make_loader(sources, matter)

    class LimitedEnv(Environment):
        loop_iteration_limit = 40
        output_stream_limit = 300
        local_namespace_limit = 4000
        context_depth_limit = 12

    touched: set[tuple[str, str]] = set()
    current = [("", "")]

    class Spy:
        """Forwards to the real filter; records that a caller-owned container reached it."""

        def __init__(self, f: Any) -> None:
            self.f = f
            for attr in ("with_context", "with_environment", "validate", "name"):
                if hasattr(f, attr):
                    setattr(self, attr, getattr(f, attr))

        def __call__(self, left: Any, *a: Any, **kw: Any) -> Any:
            if id(left) in W.container_ids or any(id(x) in W.container_ids for x in a):
                touched.add(current[0])
            return self.f(left, *a, **kw)

    def mk_env(cls: type, spy: bool, **kw: Any) -> Any:
        env = cls(loader=loader, globals=W.data["eg"], **kw)
        if spy:
            for k in list(env.filters):
                env.filters[k] = Spy(env.filters[k])
        return env

    def make_envs() -> list[tuple[str, Any, bool]]:
        return [("default+spy", mk_env(Environment, True), False),
                ("strict,auto_escape,limits", mk_env(LimitedEnv, False, undefined=StrictUndefined, auto_escape=True), False),
                ("default,async", mk_env(Environment, False), True)]

    envs = make_envs()
    raw_filters = dict(sorted(envs[2][1].filters.items()))  # the un-spied callables
    filters = list(raw_filters)
    cases = filter_sources(raw_filters, thorough, r) + tag_sources(thorough, r) + pair_sources(filters, thorough, r)
    st = chk.coverage.setdefault("partD", {"renders": 0, "ok": 0, "parse_rejected": 0, "errors": {}, "by_kind": {},
                                           "outputs_nonempty": 0})
    loop = asyncio.new_event_loop()
    exercised: set[tuple[str, str]] = set()
    ci = 0
    try:
        for label, path, src0 in cases:
            ci += 1
            tails = [FAIL_TAILS[0], FAIL_TAILS[1 + ci % (len(FAIL_TAILS) - 1)]]
            roots = [ROOTS[ci % 4]]
            for root in roots:
                for tail in tails:
                    src = src0.replace("{R}", root) + tail
                    for ei, (ename, env, is_async) in enumerate(envs):
                        if not thorough and (ei == 1) != bool(tail):
                            continue  # quick: plain tail on the spy and async environments, failing tail on the strict one
                        if not thorough and ei == (1 if ci % 2 else 2):
                            continue  # ... and of the latter two one per case, alternating
                        if thorough and tail and ei == 0:
                            continue  # thorough: plain tail on all three, failing tail on the strict and the async one
                        current[0] = (label, path)
                        matter["main"] = W.data["mm"]
                        sources["main"] = src
                        st["renders"] += 1
                        st["by_kind"][label.split(":")[0]] = st["by_kind"].get(label.split(":")[0], 0) + 1
                        outcome = "ok"
                        out = ""
                        try:
                            if is_async:
                                t = loop.run_until_complete(env.get_template_async("main", globals=W.data["tg"]))
                                out = loop.run_until_complete(t.render_async(**W.data["ra"]))
                            else:
                                t = env.get_template("main", globals=W.data["tg"])
                                out = t.render(**W.data["ra"]) if ci % 2 else t.render(W.data["ra"])
                        except LiquidError as e:
                            outcome = type(e).__name__
                        except Exception as e:  # noqa: BLE001 - C02's business; here only the data matters
                            outcome = "py:" + type(e).__name__
                        if outcome == "ok":
                            st["ok"] += 1
                            if out.strip():
                                st["outputs_nonempty"] += 1
                                exercised.add((label, path))
                        else:
                            st["errors"][outcome] = st["errors"].get(outcome, 0) + 1
                            if outcome != "LiquidSyntaxError":
                                exercised.add((label, path))
                        bad = W.check()
                        if bad:
                            sig = "mutation:" + label
                            chk.finding(sig, f"{label} on {root}.{path}: {bad[0]} (outcome {outcome}, env {ename})",
                                        {"source": src, "partials": partials, "root": root, "path": path, "environment": ename,
                                         "async": is_async, "outcome": outcome, "changed": bad,
                                         "how": "harness/c10.py part_d: Environment(globals=eg, loader matter=mm).get_template(globals=tg).render(**ra)"})
                            W.reset()
                            envs = make_envs()
                            break
    finally:
        loop.close()
    st["distinct_label_path_pairs_in_which_a_caller_container_object_reached_a_filter"] = len(touched)
    st["distinct_label_path_pairs_rendered_past_parsing"] = len(exercised)
    st["labels"] = len({c[0] for c in cases})
    chk.coverage["_d_nontrivial"] = len(touched | {e for e in exercised if not e[0].startswith("filter:")})


# ================= F: Mapping data whose look-up of a missing key has a side effect (defaultdict)


def part_f(chk: C.Check, thorough: bool) -> None:
    """collections.defaultdict as caller data: `obj[key]` of a missing key INSERTS it.  Every
    engine look-up is `obj[key]` in try/except, so look-ups of missing keys change the data
    (known finding defaultdict-miss-inserts-key).  Any OTHER change is reported as a violation."""
    from collections import defaultdict

    from liquid2 import Environment
    from liquid2.exceptions import LiquidError

    def dd() -> Any:
        return defaultdict(list, {"a": [1]})

    def fresh(root: str) -> dict[str, Any]:
        mm = {"mm": {"d": dd(), "l": [dd(), dd()]}}
        return {"eg": {"eg": {"d": dd(), "l": [dd(), dd()]}},
                "tg": {"tg": {"d": dd(), "l": [dd(), dd()]}},
                "mm": defaultdict(list, mm) if root == "mm" else mm,  # for the matter root the matter itself too
                "ra": {"ra": {"d": dd(), "l": [dd(), dd()]}}}

    def only_default_insertions(before: Any, after: Any) -> bool:
        """after == before except that defaultdicts gained keys bound to their default value."""
        if isinstance(before, defaultdict) and isinstance(after, defaultdict):
            if any(k not in after for k in before):
                return False
            for k, v in after.items():
                if k in before:
                    if not only_default_insertions(before[k], v):
                        return False
                elif v != after.default_factory():
                    return False
            return True
        if type(before) is not type(after):
            return False
        if isinstance(before, dict):
            return before.keys() == after.keys() and all(only_default_insertions(before[k], after[k]) for k in before)
        if isinstance(before, (list, tuple)):
            return len(before) == len(after) and all(only_default_insertions(x, y) for x, y in zip(before, after))
        return before == after

    forms = ["{{ R.d.missing }}", "{{ R.d.size }}", "{{ R.d.first }}", "{{ R.d.last }}", "{% if R.d.missing %}x{% endif %}",
             "{{ R.l | map: 'k' }}", "{{ R.l | where: 'k' }}", "{{ R.l | reject: 'k' }}", "{{ R.l | sort: 'k' }}",
             "{{ R.l | sort_natural: 'k' }}", "{{ R.l | sort_numeric: 'k' }}", "{{ R.l | sum: 'k' }}", "{{ R.l | uniq: 'k' }}",
             "{{ R.l | compact: 'k' }}", "{{ R.l | find: 'k', 1 }}", "{{ R.l | find_index: 'k' }}", "{{ R.l | has: 'k' }}",
             "{{ R.l | map: x => x.k }}", "{% for kv in R.d %}{{ R.d.other }}{% endfor %}", "{{ nosuch_name }}",
             # present keys only: must change nothing
             "{{ R.d.a | join }}", "{{ R.l | map: 'a' | join }}", "{% for kv in R.d %}{{ kv[0] }}{% endfor %}"]
    st = chk.coverage.setdefault("partF", {"renders": 0, "changed_by_default_insertion": 0, "unchanged": 0, "witnesses": []})
    loop = asyncio.new_event_loop()
    try:
        for root in ("eg", "tg", "mm", "ra"):
            for form in forms:
                for is_async in (False, True):
                    data = fresh(root)
                    before = copy.deepcopy(data)
                    src = form.replace("R.", root + ".")
                    env = Environment(loader=make_loader({"main": src}, {"main": data["mm"]}), globals=data["eg"])
                    st["renders"] += 1
                    try:
                        if is_async:
                            t = loop.run_until_complete(env.get_template_async("main", globals=data["tg"]))
                            loop.run_until_complete(t.render_async(**data["ra"]))
                        else:
                            env.get_template("main", globals=data["tg"]).render(**data["ra"])
                    except LiquidError:
                        pass
                    if data == before:
                        st["unchanged"] += 1
                        continue
                    replay = {"source": src, "async": is_async, "before": repr(before[root]), "after": repr(data[root]),
                              "how": "harness/c10.py part_f: data holds collections.defaultdict(list, {'a': [1]}); the loader matter is a defaultdict too"}
                    if all(only_default_insertions(before[k], data[k]) for k in before):
                        st["changed_by_default_insertion"] += 1
                        if len(st["witnesses"]) < 3:
                            st["witnesses"].append(replay)
                        chk.finding("defaultdict-miss-inserts-key",
                                    f"{src!r} (and the other look-ups of a missing key) inserted the key into a "
                                    "caller-supplied collections.defaultdict", replay)
                    else:
                        chk.finding("mutation:mapping-with-missing-hook", f"{src!r} changed caller data beyond a default insertion", replay)
    finally:
        loop.close()


# ==================================================================== main


def main(chk: C.Check, build: C.Build) -> None:
    warnings.simplefilter("ignore")
    proofs_ok = C.proof_stage(chk, build, NEEDED)
    thorough = chk.tier == "thorough"

    import time
    walls = {}
    t0 = time.time()
    items_a = part_a(chk, thorough)
    walls["A"] = round(time.time() - t0, 1)
    t0 = time.time()
    items_b = part_b(chk, thorough)
    walls["B"] = round(time.time() - t0, 1)
    t0 = time.time()
    items_c = part_c(chk, thorough)
    walls["C"] = round(time.time() - t0, 1)
    t0 = time.time()
    items_e = part_e(chk, thorough)
    walls["E"] = round(time.time() - t0, 1)
    t0 = time.time()
    part_d(chk, thorough)
    walls["D"] = round(time.time() - t0, 1)
    part_f(chk, thorough)
    chk.coverage["part_wall_s"] = walls

    for it, part in ((items_a, "A public API"), (items_b, "B RenderContext"), (items_c, "C ReadOnlyChainMap"),
                     (items_e, "E caching loaders with matter / repeated renders")):
        for x in it:
            x["replay"]["part"] = part
    items = items_a + items_b + items_c + items_e
    what = "ChainMap.v (render, ctx_copy, exec_list, cm_*) vs public API / RenderContext / ReadOnlyChainMap"
    t0 = time.time()
    shard = min(1000, max(250, -(-len(items) // (2 * C.JOBS))))
    C.correspond(chk, "c10", IMPORTS, DEFS, items, what=what, shard=shard)
    walls["coq_cases"] = round(time.time() - t0, 1)
    C.proofs_verdict(chk, proofs_ok)

    a, b, c, d = (chk.coverage[k] for k in ("partA", "partB", "partC", "partD"))
    nontrivial_d = chk.coverage.pop("_d_nontrivial")
    nontrivial_a = len(a.pop("_nontrivial"))
    nontrivial_b = len(b.pop("_nontrivial"))
    e_ = chk.coverage["partE"]
    nontrivial_e = len(e_.pop("_nontrivial"))
    chk.coverage.update({
        "evaluations": a["renders"] + b["sequences"] + c["chains"] + d["renders"] + e_["renders"] + e_["from_string_renders"],
        "distinct_nontrivial": nontrivial_a + nontrivial_b + nontrivial_d + nontrivial_e,
        "distinct_nontrivial_parts": {"A": nontrivial_a, "B": nontrivial_b, "D": nontrivial_d, "E": nontrivial_e},
        "rule": ("A: every one of the 2^8 subsets of the eight layers binds one name (x, or now/today when the built-in layer is in the subset) "
                 "to distinct values through Environment(globals) / get_template|from_string(globals, matter) / render(args) / assign / "
                 "with|for|include block / increment, in 16 program shapes (quick: one API path per case in rotation; thorough: all three); "
                 "B: the same 256 subsets plus seeded random nested operation sequences on a real RenderContext; C: random ReadOnlyChainMap "
                 "histories; E: caching loaders that supply matter (dict-backed, and file-system backed with front matter), every one of the 2^8 "
                 "subsets, the template fetched 3 times (with its globals, without, with other globals), every fetch rendered twice, "
                 "sync and async, partials reached through include/render/extends from the cached parent and then fetched directly, "
                 "and one from_string template rendered 3 times (non-trivial = fetches whose name is bound in >= 2 layers); "
                 "D: every registered filter x container path x argument shape, every expression-taking tag, filter pairs, "
                 "failing tails, 3 environments (one root and one failing tail per case in rotation; quick renders each case on the spied default environment and on one of the async / strict+failing-tail ones alternately, samples argument shapes, "
                 "paths of non-array filters, one of four template forms, 6 of 24 for-loop option sets and 2 paths per filter pair). "
                 "distinct_nontrivial = distinct A (subset, shape) pairs whose name is bound in >= 2 layers + distinct B sequences in which "
                 "some lookup found its name in >= 2 maps of the real chain (counted on the real objects at lookup time) + distinct D "
                 "(filter, path) pairs in which a caller-owned container object (by identity) was passed to the filter, plus (tag, path) "
                 "pairs rendered past parsing"),
        "samples": [items_a[3]["replay"], items_a[-1]["replay"], items_b[300]["replay"] if len(items_b) > 300 else items_b[-1]["replay"]],
        "exhaustive": False,
        "exhaustive_part": "the 2^8 layer subsets (A and B) are enumerated completely; everything else is sampled",
        "tier_proved": "kernel (store + chain maps + context operations); partial: data immutability under filters/tags is tie-only",
    })
    chk.assumptions += [
        "values bound to names are opaque tokens in the model: the theorems cover name resolution and which mapping object a write "
        "lands in, not what filters/tags do inside a list or dict value (tie only: part D)",
        "a dict has unique keys (NoDup (keys tg)); None and {} are the same to every constructor",
        "local_namespace_limit, the copy-depth test of RenderContext.copy and copy(block_scope=True) (macros) are outside the model",
        "caller data is built from dict/list/tuple/range/str/int/float/bool/None; iterators, generators and drop objects are not covered",
    ]
