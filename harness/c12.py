"""C12 — serialising a template and reparsing it preserves its behaviour.

Tie (correspondence, evaluated with vm_compute on Kernels/Printer.v):

  A  str(expression)                      == show (print_X ast)           characters
  B  real lexer tokens of that text       == strip (print_X ast)          tokens
  C  real parse of a token stream         == parse_X tokens               AST or error class
     (token streams: the printed text, hand-laid-out sources, mutated streams)
  D  str(template) of whole templates     == show_items (flattened AST)   characters

where `ast` is a neutral dump of the *real* AST (class names and fields).

Oracle (the property itself, on the implementation): for every generated
template, `from_string(str(t))` parses, renders like `t` (output or error
class) on >= 3 data sets, `str` is a fixpoint after one round, the reparsed
AST dumps to the same neutral form, and a pickled copy renders like `t`.
"""

from __future__ import annotations

import math
import pickle
import re
import warnings
from typing import Any

from . import common as C

IMPORTS = "From LQ Require Import Kernels.Printer."
NEEDED = ["theories/Base/Str.v", "theories/Kernels/Printer.v", "theories/Proofs/Printer_proofs.v"]

RE_WORD = re.compile(r"[\u0080-\uFFFFa-zA-Z_][\u0080-\uFFFFa-zA-Z0-9_-]*")
KEYWORDS = {"true", "false", "and", "or", "in", "not", "contains", "nil", "null", "if", "else",
            "with", "required", "as", "for"}
RESERVED = KEYWORDS | {"empty", "blank"}


_ENV: dict[str, Any] = {}


class Unsupported(Exception):
    """The construct is outside the Coq model (template strings, ...)."""


# ------------------------------------------------------------------ dump real AST


def float_neutral(v: float) -> tuple:
    if math.isinf(v):
        return ("finf", v < 0)
    if math.isnan(v):
        return ("fnan",)
    mant, e, exp = repr(v).partition("e")
    return ("float", mant, exp if e else None)


def dump_path(p: Any) -> list:
    from liquid2.builtin import Path
    out = []
    for seg in p.path:
        if isinstance(seg, Path):
            out.append(("p", dump_path(seg)))
        elif isinstance(seg, bool):
            raise Unsupported("bool segment")
        elif isinstance(seg, int):
            out.append(("i", seg))
        else:
            out.append(("n", str(seg)))
    return out


def dump_prim(e: Any) -> tuple:
    from liquid2.builtin import (Blank, Empty, FalseLiteral, FloatLiteral, IntegerLiteral, Null, Path,
                                 RangeLiteral, StringLiteral, TrueLiteral)
    if type(e).__name__ == "Continue":
        return ("continue",)
    if isinstance(e, Null):
        return ("nil",)
    if isinstance(e, TrueLiteral):
        return ("true",)
    if isinstance(e, FalseLiteral):
        return ("false",)
    if isinstance(e, Empty):
        return ("empty",)
    if isinstance(e, Blank):
        return ("blank",)
    if isinstance(e, IntegerLiteral):
        return ("int", int(e.value))
    if isinstance(e, FloatLiteral):
        return float_neutral(e.value)
    if isinstance(e, StringLiteral):
        return ("str", str(e.value))
    if isinstance(e, Path):
        return ("path", dump_path(e))
    if isinstance(e, RangeLiteral):
        return ("range", dump_prim(e.start), dump_prim(e.stop))
    raise Unsupported(type(e).__name__)


BINOPS = {"EqExpression": "OEq", "NeExpression": "ONe", "LtExpression": "OLt", "GtExpression": "OGt",
          "LeExpression": "OLe", "GeExpression": "OGe", "ContainsExpression": "OContains",
          "InExpression": "OIn", "LogicalAndExpression": "OAnd", "LogicalOrExpression": "OOr"}
OP_TEXT = {"OEq": "==", "ONe": "!=", "OLt": "<", "OGt": ">", "OLe": "<=", "OGe": ">=",
           "OContains": "contains", "OIn": "in", "OAnd": "and", "OOr": "or"}


def dump_bool(e: Any) -> tuple:
    name = type(e).__name__
    if name == "BooleanExpression":
        return dump_bool(e.expression)
    if name == "LogicalNotExpression":
        return ("not", dump_bool(e.expression))
    if name in BINOPS:
        return ("bin", BINOPS[name], dump_bool(e.left), dump_bool(e.right))
    return ("prim", dump_prim(e))


def dump_argval(v: Any) -> tuple:
    if type(v).__name__ == "LambdaExpression":
        return ("lambda", [str(p) for p in v.params], dump_bool(v.expression))
    return ("prim", dump_prim(v))


def dump_filters(fs: Any) -> list:
    out = []
    for f in fs or []:
        args = []
        for a in f.args:
            if type(a).__name__ == "KeywordArgument":
                args.append(("kw", str(a.name), dump_argval(a.value)))
            else:
                args.append(("pos", dump_argval(a.value)))
        out.append((str(f.name), args))
    return out


def dump_left(e: Any) -> tuple:
    if type(e).__name__ == "ArrayLiteral":
        return ("array", [dump_prim(i) for i in e.items])
    return ("prim", dump_prim(e))


def dump_fexpr(e: Any) -> tuple:
    name = type(e).__name__
    if name == "FilteredExpression":
        return ("filtered", dump_left(e.left), dump_filters(e.filters))
    if name == "TernaryFilteredExpression":
        return ("ternary", dump_left(e.left.left), dump_filters(e.left.filters), dump_bool(e.condition),
                dump_prim(e.alternative) if e.alternative is not None else None,
                dump_filters(e.filters), dump_filters(e.tail_filters))
    raise Unsupported(name)


def dump_loop(e: Any) -> tuple:
    opt = lambda x: dump_prim(x) if x is not None else None  # noqa: E731
    return (str(e.identifier), dump_left(e.iterable), opt(e.limit), opt(e.offset), opt(e.cols),
            bool(e.reversed))


# ------------------------------------------------------------------ dump real tokens


def int_of_spelling(s: str) -> int:
    m = re.fullmatch(r"(-?)([0-9]+)(?:[eE]\+?([0-9]+))?", s)
    assert m, s
    v = int(m.group(2)) * 10 ** int(m.group(3) or 0)
    return -v if m.group(1) else v


def survives_float(z: int) -> bool:
    try:
        return int(float(z)) == z
    except OverflowError:
        return False


def int_literals_exact() -> bool:
    """Does the implementation under test parse INT tokens without float()?"""
    if "int_exact" not in _ENV:
        from liquid2 import Environment
        t = Environment().from_string("{{ 9007199254740993 }}")
        _ENV["int_exact"] = t.render() == "9007199254740993"
    return _ENV["int_exact"]


def tok_path(t: Any) -> list:
    out = []
    for seg in t.path:
        if type(seg).__name__ == "PathToken":
            out.append(("p", tok_path(seg)))
        elif isinstance(seg, int):
            out.append(("i", seg))
        else:
            out.append(("s", seg))
    return out


def tok_atom(t: Any) -> tuple | None:
    from liquid2 import TokenType as T
    ty = t.type_
    if ty == T.WORD:
        return ("word", t.value)
    if ty == T.SINGLE_QUOTE_STRING:
        return ("str", "SQ", t.value)
    if ty == T.DOUBLE_QUOTE_STRING:
        return ("str", "DQ", t.value)
    if ty == T.INT:
        z = int_of_spelling(t.value)
        if int_literals_exact() and not survives_float(z):
            # This tree parses INT tokens exactly (proposed_fixes/C20/0001); the
            # model transcribes to_int(float(...)). Where the two differ the
            # case is left to the oracle.
            raise Unsupported("integer literal beyond 2**53 under exact INT parsing")
        return ("int", z)
    if ty == T.FLOAT:
        return float_neutral(float(t.value))
    if ty == T.PATH:
        return ("path", tok_path(t))
    if ty == T.TRUE:
        return ("true",)
    if ty == T.FALSE:
        return ("false",)
    if ty == T.NULL:
        return ("nil",)
    return None


def tok_neutral(t: Any) -> tuple:
    from liquid2 import TokenType as T
    a = tok_atom(t)
    if a is not None:
        return ("a", a)
    ty = t.type_
    if ty == T.RANGE:
        x, y = tok_atom(t.range_start), tok_atom(t.range_stop)
        if x is None or y is None:
            return ("other", "range")
        return ("range", x, y)
    simple = {T.EQ: ("op", "OEq"), T.NE: ("op", "ONe"), T.LT: ("op", "OLt"), T.GT: ("op", "OGt"),
              T.LE: ("op", "OLe"), T.GE: ("op", "OGe"), T.CONTAINS: ("op", "OContains"),
              T.IN: ("op", "OIn"), T.AND_WORD: ("op", "OAnd"), T.OR_WORD: ("op", "OOr"),
              T.NOT_WORD: ("TNot",), T.IF: ("TIf",), T.ELSE: ("TElse",), T.FOR: ("TFor",),
              T.WITH: ("TWith",), T.AS: ("TAs",), T.REQUIRED: ("TRequired",), T.PIPE: ("TPipe",),
              T.DOUBLE_PIPE: ("TDPipe",), T.COLON: ("TColon",), T.COMMA: ("TComma",),
              T.LPAREN: ("TLParen",), T.RPAREN: ("TRParen",), T.ARROW: ("TArrow",),
              T.ASSIGN: ("TAssign",)}
    if ty in simple:
        return simple[ty]
    if ty in (T.SINGLE_QUOTE_TEMPLATE_STRING, T.DOUBLE_QUOTE_TEMPLATE_STRING):
        raise Unsupported("template string token")
    return ("other", ty.name)


def toks_neutral(ts: Any) -> list:
    return [tok_neutral(t) for t in ts]


# ------------------------------------------------------------------ Coq terms


def c_opt(x: str | None, ty: str) -> str:
    return f"(None : option {ty})" if x is None else f"(Some {x})"


def c_path(segs: list) -> str:
    out = "PEnd"
    for s in reversed(segs):
        if s[0] == "n":
            out = f"(PName {C.cstr(s[1])} {out})"
        elif s[0] == "i":
            out = f"(PIndex {C.cZ(s[1])} {out})"
        else:
            out = f"(PSub {c_path(s[1])} {out})"
    return out


def c_float(f: tuple) -> str:
    if f[0] == "finf":
        return f"(FInf {C.cbool(f[1])})"
    if f[0] == "fnan":
        return "FNan"
    return f"(FFin {C.cstr(f[1])} {c_opt(C.cstr(f[2]) if f[2] is not None else None, 'str')})"


def c_prim(p: tuple) -> str:
    k = p[0]
    if k in ("nil", "true", "false", "empty", "blank", "continue"):
        return "P" + k.capitalize()
    if k == "int":
        return f"(PInt {C.cZ(p[1])})"
    if k in ("float", "finf", "fnan"):
        return f"(PFloat {c_float(p)})"
    if k == "str":
        return f"(PStr {C.cstr(p[1])})"
    if k == "path":
        return f"(PPath {c_path(p[1])})"
    if k == "range":
        return f"(PRange {c_prim(p[1])} {c_prim(p[2])})"
    raise ValueError(p)


def c_bool(e: tuple) -> str:
    if e[0] == "prim":
        return f"(BPrim {c_prim(e[1])})"
    if e[0] == "not":
        return f"(BNot {c_bool(e[1])})"
    return f"(BBin {e[1]} {c_bool(e[2])} {c_bool(e[3])})"


def c_argval(v: tuple) -> str:
    if v[0] == "prim":
        return f"(AVPrim {c_prim(v[1])})"
    return f"(AVLambda {C.clist(map(C.cstr, v[1]), 'str')} {c_bool(v[2])})"


def c_arg(a: tuple) -> str:
    if a[0] == "pos":
        return f"(APos {c_argval(a[1])})"
    return f"(AKw {C.cstr(a[1])} {c_argval(a[2])})"


def c_filters(fs: list) -> str:
    return C.clist((f"{{| f_name := {C.cstr(n)}; f_args := {C.clist(map(c_arg, args), 'arg')} |}}"
                    for n, args in fs), "filt")


def c_left(x: tuple) -> str:
    if x[0] == "prim":
        return f"(LPrim {c_prim(x[1])})"
    return f"(LArray {C.clist(map(c_prim, x[1]), 'prim')})"


def c_fexpr(e: tuple) -> str:
    if e[0] == "filtered":
        return f"(FFiltered {c_left(e[1])} {c_filters(e[2])})"
    return (f"(FTernary {c_left(e[1])} {c_filters(e[2])} {c_bool(e[3])} "
            f"{c_opt(c_prim(e[4]) if e[4] is not None else None, 'prim')} {c_filters(e[5])} {c_filters(e[6])})")


def c_loop(l: tuple) -> str:
    o = lambda x: c_opt(c_prim(x) if x is not None else None, "prim")  # noqa: E731
    return (f"{{| lp_ident := {C.cstr(l[0])}; lp_iter := {c_left(l[1])}; lp_limit := {o(l[2])}; "
            f"lp_offset := {o(l[3])}; lp_cols := {o(l[4])}; lp_reversed := {C.cbool(l[5])} |}}")


def c_tpath(segs: list) -> str:
    out = "TPEnd"
    for s in reversed(segs):
        if s[0] == "s":
            out = f"(TPStr DQ {C.cstr(s[1])} {out})"
        elif s[0] == "i":
            out = f"(TPIdx {C.cZ(s[1])} {out})"
        else:
            out = f"(TPSub {c_tpath(s[1])} {out})"
    return out


def c_atok(a: tuple) -> str:
    k = a[0]
    if k == "word":
        return f"(AWord {C.cstr(a[1])})"
    if k == "str":
        return f"(AStr {a[1]} {C.cstr(a[2])})"
    if k == "int":
        return f"(AInt {C.cZ(a[1])})"
    if k in ("float", "finf", "fnan"):
        return f"(AFloat {c_float(a)})"
    if k == "path":
        return f"(APath {c_tpath(a[1])})"
    return {"true": "ATrue", "false": "AFalse", "nil": "ANil"}[k]


def c_tok(t: tuple) -> str:
    k = t[0]
    if k == "a":
        return f"(TA {c_atok(t[1])})"
    if k == "range":
        return f"(TRange {c_atok(t[1])} {c_atok(t[2])})"
    if k == "op":
        return f"(TOp {t[1]})"
    if k == "other":
        return f"(TOther {C.cstr(t[1])})"
    return k


def c_toks(ts: list) -> str:
    return C.clist(map(c_tok, ts), "tok")


def c_err(exc: BaseException) -> str:
    """An implementation exception as a Coq [res] value."""
    from liquid2.exceptions import LiquidError
    if isinstance(exc, LiquidError):
        n = type(exc).__name__
        known = {"LiquidSyntaxError", "LiquidTypeError", "LiquidNameError", "LiquidValueError",
                 "UnknownFilterError"}
        return f"(LErr {n if n in known else 'OtherLiquidError'} None)"
    n = type(exc).__name__
    known = {"IndexError", "ValueError", "KeyError", "TypeError", "OverflowError", "AssertionError",
             "AttributeError", "RecursionError"}
    return f"(PyExc {n if n in known else 'OtherPyError'})"


def nonprintables(*texts: str) -> str:
    """The model's [printable] predicate for the characters that occur in a case."""
    bad = sorted({ord(ch) for t in texts for ch in t if not ch.isprintable()})
    return "(fun c => negb (memN c " + C.clist(map(str, bad), "N") + "))"


def strings_in(x: Any) -> list[str]:
    out: list[str] = []
    if isinstance(x, str):
        out.append(x)
    elif isinstance(x, (tuple, list)):
        for y in x:
            out += strings_in(y)
    return out


# ------------------------------------------------------------------ expression-level cases

KIND = {
    # kind: (wrapper of source -> template text, Coq printer, Coq parser, Coq eq_dec, dump, c_term)
    "fexpr": ("{{ %s }}", "print_fexpr", "parse_filtered", "fexpr_eq_dec", dump_fexpr, c_fexpr),
    "bool": ("{%% if %s %%}", "print_bool", "parse_bool", "bexpr_eq_dec", dump_bool, c_bool),
    "loop": ("{%% for %s %%}", "print_loop", "parse_loop", "loopexpr_eq_dec", dump_loop, c_loop),
}

def plain_env() -> Any:
    """An environment that does not validate filter arguments at parse time
    (the model's parsers stop where Filter.parse stops)."""
    if "plain" not in _ENV:
        from liquid2 import Environment
        _ENV["plain"] = Environment(validate_filter_arguments=False)
    return _ENV["plain"]


def lex_expr(kind: str, text: str) -> list:
    """The real lexer's expression tokens of `text` in the context of `kind`."""
    from liquid2 import tokenize
    toks = tokenize(plain_env(), KIND[kind][0] % text)
    assert len(toks) == 1, toks
    return list(toks[0].expression)


def real_parse(kind: str, tokens: list) -> Any:
    from liquid2 import TokenStream
    from liquid2.builtin import BooleanExpression, FilteredExpression, LoopExpression
    env = plain_env()
    st = TokenStream(tokens)
    if kind == "fexpr":
        return FilteredExpression.parse(env, st)
    if kind == "bool":
        return BooleanExpression.parse(env, st)
    return LoopExpression.parse(env, st)


def parse_case(kind: str, tokens: list, what: str) -> dict[str, Any] | None:
    """Correspondence C: model parser vs real parser on the same token stream."""
    _, _, cparse, ceq, dump, cterm = KIND[kind]
    try:
        nt = toks_neutral(tokens)
    except Unsupported:
        return None
    try:
        expr = real_parse(kind, tokens)
    except Exception as e:  # noqa: BLE001
        expected, got = c_err(e), type(e).__name__
    else:
        try:
            d = dump(expr)
        except Unsupported:
            return None
        expected, got = f"(Ok {cterm(d)})", d
    model = f"{cparse} {c_toks(nt)}"
    return {"case": f"(res_eqb (eqb_of {ceq}) ({model}) {expected})", "model": model,
            "replay": {"what": what, "kind": kind, "tokens": nt, "implementation": got}}


def print_cases(kind: str, expr: Any, src: str) -> tuple[list[dict[str, Any]], str]:
    """Correspondence A and B for one real expression object; returns the
    cases and the printed text."""
    _, cprint, _, _, dump, cterm = KIND[kind]
    text = str(expr)
    d = dump(expr)
    pr = nonprintables(*strings_in(d))
    term = f"({cprint} {pr} {cterm(d)})"
    out = [{"case": f"(str_eqb (show {term}) {C.cstr(text)})", "model": f"show {term}",
            "replay": {"what": "A str()", "kind": kind, "source": src, "ast": d, "str": text}}]
    try:
        nt = toks_neutral(lex_expr(kind, text))
    except Unsupported:
        return out, text
    except Exception as e:  # noqa: BLE001 - printed text does not lex: the oracle reports it
        out.append({"case": "false", "model": f"strip {term}",
                    "replay": {"what": "B printed text does not lex", "kind": kind, "source": src,
                               "str": text, "error": type(e).__name__}})
        return out, text
    out.append({"case": f"(toks_eqb (strip {term}) {c_toks(nt)})", "model": f"strip {term}",
                "replay": {"what": "B tokens of str()", "kind": kind, "source": src, "str": text,
                           "tokens": nt}})
    return out, text


def expr_cases(kind: str, src: str) -> list[dict[str, Any]]:
    """The expression-level correspondence case that starts from source `src`:
    C on the source's tokens, A and B on str() of the parsed expression, C on
    the tokens of the printed text — one Coq term sharing the embedded AST."""
    _, cprint, cparse, ceq, dump, cterm = KIND[kind]
    try:
        tokens = lex_expr(kind, src)
    except Exception:  # noqa: BLE001 - not lexable: nothing to compare at this level
        return []
    try:
        tk1 = toks_neutral(tokens)
    except Unsupported:
        return []
    replay: dict[str, Any] = {"kind": kind, "source": src, "tokens": tk1}
    try:
        expr = real_parse(kind, tokens)
    except Exception as e:  # noqa: BLE001
        replay["implementation"] = type(e).__name__
        model = f"{cparse} {c_toks(tk1)}"
        return [{"case": f"(res_eqb (eqb_of {ceq}) ({model}) {c_err(e)})", "model": model,
                 "replay": replay, "parts": 1}]
    try:
        d = dump(expr)
    except Unsupported:
        return []
    text = str(expr)
    replay.update({"ast": d, "str": text})
    pr = nonprintables(*strings_in(d))
    lets = f"let a := {cterm(d)} in let tk1 := {c_toks(tk1)} in let pa := {cprint} {pr} a in "
    conds = [f"res_eqb (eqb_of {ceq}) ({cparse} tk1) (Ok a)", f"str_eqb (show pa) {C.cstr(text)}"]
    outs = [f"{cparse} tk1", "show pa", "strip pa"]
    try:
        tk2 = toks_neutral(lex_expr(kind, text))
    except Unsupported:
        tk2 = None
    except Exception as e:  # noqa: BLE001 - printed text does not lex (the oracle reports it)
        replay["printed text"] = "does not lex: " + type(e).__name__
        conds.append("false")
        tk2 = None
    if tk2 is not None:
        replay["tokens of str"] = tk2
        lets += f"let tk2 := {c_toks(tk2)} in "
        conds.append("toks_eqb (strip pa) tk2")
        try:
            d2 = dump(real_parse(kind, lex_expr(kind, text)))
            exp2 = "(Ok a)" if d2 == d else f"(Ok {cterm(d2)})"
            replay["reparsed"] = "same" if d2 == d else d2
        except Unsupported:
            exp2 = None
        except Exception as e:  # noqa: BLE001
            exp2 = c_err(e)
            replay["reparsed"] = type(e).__name__
        if exp2:
            conds.append(f"res_eqb (eqb_of {ceq}) ({cparse} tk2) {exp2}")
            outs.append(f"{cparse} tk2")
    case = "(" + lets + " && ".join(f"({c})" for c in conds) + ")%bool"
    model = lets + "(" + ", ".join(outs) + ")"
    return [{"case": case, "model": model, "replay": replay, "parts": len(conds)}]


# ------------------------------------------------------------------ markup level: dump nodes to items

WC = {"": "WDefault", "-": "WMinus", "+": "WPlus", "~": "WTilde"}


def wcs(token: Any) -> list[str]:
    return [WC[str(w)] for w in token.wc]


def kw_pairs(args: Any) -> list:
    return [(str(a.name), dump_prim(a.value)) for a in args]


def dump_nodes(nodes: Any) -> list:
    out: list = []
    for n in nodes:
        out += dump_node(n)
    return out


def tag(token: Any, name: str, head: tuple = ("HNone",)) -> tuple:
    l, r = wcs(token)
    return ("tag", l, r, name, head)


def _line_comment(item: tuple) -> tuple:
    """Inside {% liquid %} the text of a comment runs to the end of the line or
    tag; the blanks around it carry no meaning and a round trip may change them."""
    if item[0] in ("comment", "bcomment"):
        return item[:-1] + (item[-1].strip(),)
    return item


def dump_node(n: Any) -> list:  # noqa: PLR0911, PLR0912, PLR0915
    """The flat item sequence of one node, in the order its __str__ writes it."""
    cls = type(n).__name__
    mod = type(n).__module__
    if cls == "ContentNode":
        return [("text", n.text)]
    if cls == "OutputNode":
        l, r = wcs(n.token)
        return [("output", l, r, ("HExpr", dump_fexpr(n.expression)))]
    if cls == "CommentNode":
        t = n.token
        l, r = wcs(t)
        tc = type(t).__name__
        if tc == "BlockCommentToken":
            return [("bcomment", l, r, t.text)]
        if tc == "InlineCommentToken":
            return [("icomment", l, r, t.text)]
        return [("comment", t.hashes, l, r, t.text)]
    if cls == "RawNode":
        a, b, c, d = wcs(n.token)
        return [("raw", a, b, c, d, n.text)]
    if cls == "LiquidNode":
        # Prints its tokens (outside the model): opaque text for the text
        # comparison, plus the nodes of its block for tree comparisons.
        return [("text", str(n)), ("inner", [_line_comment(i) for i in dump_nodes(n.block.nodes)])]
    if cls == "AssignNode":
        return [tag(n.token, "assign", ("HAssign", str(n.name), dump_fexpr(n.expression)))]
    if cls == "EchoNode":
        return [tag(n.token, "echo", ("HExpr", dump_fexpr(n.expression)))]
    if cls == "CaptureNode":
        return [tag(n.token, "capture", ("HWord", str(n.name)))] + dump_nodes(n.block.nodes) + [
            tag(n.end_tag_token, "endcapture")]
    if cls == "CaseNode":
        out = [tag(n.token, "case", ("HPrim", dump_prim(n.expression)))]
        if n.leading_whitespace:
            out.append(("text", n.leading_whitespace))
        for w in n.whens:
            out.append(tag(w.token, "when", ("HWhen", [dump_prim(e) for e in w.expression.expressions])))
            out += dump_nodes(w.block.nodes)
        if n.default is not None:  # never the truthiness of a block: an empty block is a block
            out.append(tag(n.default.token, "else"))
            out += dump_nodes(n.default.nodes)
        return out + [tag(n.end_tag_token, "endcase")]
    if cls == "CycleNode":
        return [tag(n.token, "cycle", ("HCycle", None if n.name is None else str(n.name),
                                       [dump_prim(i) for i in n.items]))]
    if cls in ("IncrementNode", "DecrementNode"):
        return [tag(n.token, cls[:-4].lower(), ("HIdent", str(n.name)))]
    if cls == "ExtendsNode":
        return [tag(n.token, "extends", ("HPrim", ("str", str(n.name.value))))]
    if cls == "BlockNode" and mod.endswith("extends_tag"):
        return ([tag(n.token, "block", ("HBlock", str(n.name), bool(n.required)))]
                + dump_nodes(n.block.nodes) + [tag(n.end_tag_token, "endblock", ("HIdent", str(n.name)))])
    if cls in ("ForNode", "TablerowNode"):
        name = "for" if cls == "ForNode" else "tablerow"
        out = [tag(n.token, name, ("HLoop", dump_loop(n.expression)))] + dump_nodes(n.block.nodes)
        if getattr(n, "default", None) is not None:
            out.append(tag(n.default.token, "else"))
            out += dump_nodes(n.default.nodes)
        return out + [tag(n.end_tag_token, "end" + name)]
    if cls in ("BreakNode", "ContinueNode"):
        return [tag(n.token, cls[:-4].lower())]
    if cls in ("IfNode", "UnlessNode"):
        name = "if" if cls == "IfNode" else "unless"
        out = [tag(n.token, name, ("HBool", dump_bool(n.condition)))] + dump_nodes(n.consequence.nodes)
        for alt in n.alternatives:
            out.append(tag(alt.token, "elsif", ("HBool", dump_bool(alt.expression))))
            out += dump_nodes(alt.block.nodes)
        if n.default is not None:  # never the truthiness of a block: an empty block is a block
            out.append(tag(n.default.token, "else"))
            out += dump_nodes(n.default.nodes)
        return out + [tag(n.end_tag_token, "end" + name)]
    if cls in ("IncludeNode", "RenderNode"):
        var = (bool(n.loop), dump_prim(n.var)) if n.var is not None else None
        return [tag(n.token, cls[:-4].lower(),
                    ("HInclude", dump_prim(n.name), var, None if n.alias is None else str(n.alias),
                     kw_pairs(n.args)))]
    if cls == "WithNode":
        return ([tag(n.token, "with", ("HKwargs", kw_pairs(n.args)))] + dump_nodes(n.block.nodes)
                + [tag(n.end_tag_token, "endwith")])
    if cls == "TranslateNode":
        out = [tag(n.token, "translate", ("HKwargs", kw_pairs(n.args.values())))]
        out += dump_nodes(n.singular_block.block.nodes)
        if n.plural_block is not None:
            out.append(tag(n.plural_block.block.token, "plural"))
            out += dump_nodes(n.plural_block.block.nodes)
        return out + [tag(n.end_tag_token, "endtranslate")]
    if cls == "MacroNode":
        params = [(str(p.name), dump_prim(p.value) if p.value is not None else None)
                  for p in n.args.values()]
        return ([tag(n.token, "macro", ("HMacro", str(n.name), params))] + dump_nodes(n.block.nodes)
                + [tag(n.end_tag_token, "endmacro")])
    if cls == "CallNode":
        return [tag(n.token, "call", ("HCall", str(n.name), [dump_prim(a.value) for a in n.args],
                                      kw_pairs(n.kwargs)))]
    raise Unsupported(cls)


def c_kws(kws: list) -> str:
    return C.clist((C.cpair(C.cstr(k), c_prim(v)) for k, v in kws), "(str * prim)")


def c_head(h: tuple) -> str:  # noqa: PLR0911
    k = h[0]
    if k == "HNone":
        return "HNone"
    if k == "HExpr":
        return f"(HExpr {c_fexpr(h[1])})"
    if k == "HAssign":
        return f"(HAssign {C.cstr(h[1])} {c_fexpr(h[2])})"
    if k == "HBool":
        return f"(HBool {c_bool(h[1])})"
    if k == "HLoop":
        return f"(HLoop {c_loop(h[1])})"
    if k == "HPrim":
        return f"(HPrim {c_prim(h[1])})"
    if k == "HWhen":
        return f"(HWhen {C.clist(map(c_prim, h[1]), 'prim')})"
    if k in ("HWord", "HIdent"):
        return f"({k} {C.cstr(h[1])})"
    if k == "HCycle":
        return (f"(HCycle {c_opt(C.cstr(h[1]) if h[1] is not None else None, 'str')} "
                f"{C.clist(map(c_prim, h[2]), 'prim')})")
    if k == "HBlock":
        return f"(HBlock {C.cstr(h[1])} {C.cbool(h[2])})"
    if k == "HInclude":
        var = None if h[2] is None else C.cpair(C.cbool(h[2][0]), c_prim(h[2][1]))
        return (f"(HInclude {c_prim(h[1])} {c_opt(var, '(bool * prim)')} "
                f"{c_opt(C.cstr(h[3]) if h[3] is not None else None, 'str')} {c_kws(h[4])})")
    if k == "HKwargs":
        return f"(HKwargs {c_kws(h[1])})"
    if k == "HMacro":
        ps = C.clist((C.cpair(C.cstr(n), c_opt(c_prim(v) if v is not None else None, "prim"))
                      for n, v in h[2]), "(str * option prim)")
        return f"(HMacro {C.cstr(h[1])} {ps})"
    if k == "HCall":
        return f"(HCall {C.cstr(h[1])} {C.clist(map(c_prim, h[2]), 'prim')} {c_kws(h[3])})"
    raise ValueError(h)


def c_item(it: tuple, pr: str) -> str:
    k = it[0]
    if k == "text":
        return f"(IText {C.cstr(it[1])})"
    if k == "output":
        return f"(IOutput {it[1]} {it[2]} (print_head {pr} {c_head(it[3])}))"
    if k == "tag":
        return f"(ITag {it[1]} {it[2]} {C.cstr(it[3])} (print_head {pr} {c_head(it[4])}))"
    if k == "comment":
        return f"(IComment {C.cstr(it[1])} {it[2]} {it[3]} {C.cstr(it[4])})"
    if k == "bcomment":
        return f"(IBlockComment {it[1]} {it[2]} {C.cstr(it[3])})"
    if k == "icomment":
        return f"(IInlineComment {it[1]} {it[2]} {C.cstr(it[3])})"
    if k == "raw":
        return f"(IRaw {it[1]} {it[2]} {it[3]} {it[4]} {C.cstr(it[5])})"
    raise ValueError(it)


def template_case(t: Any, src: str) -> dict[str, Any] | None:
    """Correspondence D: str(template) vs the model's text of its items."""
    try:
        items = dump_nodes(t.nodes)
    except Unsupported:
        return None
    items = [i for i in items if i[0] != "inner"]
    text = str(t)
    pr = nonprintables(*strings_in(items))
    term = f"(show_items {C.clist((c_item(i, pr) for i in items), 'item')})"
    return {"case": f"(str_eqb {term} {C.cstr(text)})", "model": term,
            "replay": {"what": "D str(template)", "source": src, "str": text, "items": items}}


# ------------------------------------------------------------------ generators: expressions as source text

NAMES = ["a", "b", "c", "x", "y", "items", "n", "s", "user", "title"]
ODD_NAMES = ["empty", "blank", "limit", "offset", "cols", "reversed", "continue", "true", "nil", "if",
             "for", "and", "not", "as", "with", "else", "required", "in", "or", "contains", "false", "null", "é1", "_u", "a-b", "a b", "it's", "", "1st", 'q"q', "x\ny", "$", "a.b",
             "\u2028x", "\u00a0", "\u3000é"]
STRINGS = ["", "a", "a b", "it's", 'say "hi"', "it's \"both\"", "back\\slash", "line\nbreak", "tab\tx",
           "${x}", "$5", "a${", "cr\rx", "\x08\x0c", "\x1b[0m", "\x7f", "é", " ", " ", "😀",
           "", "\U000e0001", "%}", "}}", "{{", "{% x %}", "{# c #}", "\\'", "'\\", "\\\\n", "nil",
           "continue", ",", "|", "a'b\"c\\d$e{f}", "\ud800", "x\udc00y", "\udbff\ud800 '"]
FLOATS = ["1.5", "-0.25", "3.0", "1.0e+16", "2.5e-7", "10000000000000000.0", "0.1", "1e-3", "123.456e5",
          "-2.0e22", "0.00001",
          # the overflow boundary: the largest double, the first spelling that rounds to inf, far beyond, underflow
          "1.7976931348623157e308", "1.7976931348623158e308", "1.7976931348623159e308", "-1.7976931348623159e308",
          "1.0e400", "-1.0e400", "1.0e999", "179769313486231580793728971405303415079934132710037826936173778980444968292764750946649017977587207096330286416692887910946555547851940402630657488671505820681908902000708383676273854845817711531764475730270069855571366959622842914819860834936475292719074168444365510704342711559699508093042880177904174497792.0",
          "1e-400", "-0.0", "4.9e-324"]
INTS = ["0", "1", "-1", "42", "-7", "1e3", "2E2", "9007199254740992", "-9223372036854775808",
        "100000000000000000000000", "007", "-0"]
OPS = ["==", "!=", "<>", "<", ">", "<=", ">=", "contains", "in", "and", "or"]
OP_PREC = {"or": 3, "and": 4, "==": 5, "!=": 5, "<>": 5, "<": 5, ">": 5, "<=": 5, ">=": 5,
           "contains": 6, "in": 6}


def src_string(r: Any, s: str) -> str:
    """A string literal denoting `s`, with a random choice of quote and escapes."""
    q = r.choice("'\"")
    out = []
    for i, ch in enumerate(s):
        o = ord(ch)
        if ch == q or ch == "\\":
            out.append("\\" + ch)
        elif ch == "$" and s[i + 1:i + 2] == "{":
            out.append("\\$")
        elif ch == "\n":
            out.append(r.choice(["\\n", "\n", "\\u000a"]))
        elif ch == "\t":
            out.append(r.choice(["\\t", "\t"]))
        elif ch == "\r":
            out.append("\\r")
        elif ch == "\x08":
            out.append(r.choice(["\\b", "\\u0008"]))
        elif ch == "\x0c":
            out.append("\\f")
        elif ch == "/" and r.random() < 0.3:
            out.append("\\/")
        elif o > 0xFFFF and r.random() < 0.5:
            o -= 0x10000
            out.append(f"\\u{0xD800 + (o >> 10):04X}\\u{0xDC00 + (o & 0x3FF):04x}")
        elif 0xD800 <= o <= 0xDFFF:
            out.append(ch)  # a lone surrogate has no escape: raw or not at all
        elif o <= 0xFFFF and (r.random() < 0.08 or o < 0x20):
            out.append(f"\\u{o:04x}")
        else:
            out.append(ch)
    return q + "".join(out) + q


def gen_path_src(r: Any, depth: int, *, nested: bool = False) -> str:
    odd = r.random() < 0.25 and not nested
    root = r.choice(ODD_NAMES if odd else NAMES)
    nseg = r.choice([0, 0, 0, 1, 1, 2, 3])
    wordlike = bool(RE_WORD.fullmatch(root))
    if nested:
        out = root
    elif wordlike and (root not in KEYWORDS or nseg) and r.random() < 0.85:
        out = root
    elif r.random() < 0.1 and not odd:
        out = f"[{r.choice(NAMES)}]" if r.random() < 0.5 else f"[{r.randint(-2, 3)}]"
    else:
        out = "[" + src_string(r, root) + "]"
    for _ in range(nseg):
        k = r.random()
        if k < 0.45:
            name = r.choice(NAMES + ["size", "first", "true", "empty", "a-b"])
            out += "." + name if r.random() < 0.8 else "[" + src_string(r, name) + "]"
        elif k < 0.6:
            out += "[" + src_string(r, r.choice(ODD_NAMES + STRINGS[:12])) + "]"
        elif k < 0.8:
            out += f"[{r.randint(-3, 5)}]"
        elif depth > 0:
            out += "[" + gen_path_src(r, depth - 1, nested=True) + "]"
        else:
            out += ".z"
    return out


def gen_tstring_src(r: Any) -> str:
    """A template string ('a${x | f}b'): outside the Coq model, exercised by
    the oracle."""
    q = r.choice("'\"")
    parts = []
    for _ in range(r.choice([1, 2, 3])):
        if r.random() < 0.6:
            parts.append(src_string(r, r.choice(["a", " b ", "it's", 'q"', "\\", "$", "${", "\n", "é"]))[1:-1]
                         .replace(q, "\\" + q) if False else
                         "".join("\\" + c if c in (q, "\\") else ("\\$" if c == "$" else ("\\n" if c == "\n" else c))
                                 for c in r.choice(["a", " b ", "it's", 'q"', "\\", "$", "${x}", "\n", "é"])))
        inner = gen_path_src(r, 1)
        if r.random() < 0.5:
            inner += " | " + r.choice(["upcase", "append: 'x'", 'append: "y"', "default: 'it\\'s'", "size"])
        parts.append("${" + r.choice(["", " "]) + inner + r.choice(["", " "]) + "}")
    if r.random() < 0.5:
        parts.append(r.choice(["!", " end", ""]))
    return q + "".join(parts) + q


def gen_prim_src(r: Any, depth: int = 2, *, rng_ok: bool = True) -> str:
    k = r.random()
    if k < 0.03 and rng_ok:
        return gen_tstring_src(r)
    if k < 0.34:
        return gen_path_src(r, depth)
    if k < 0.52:
        return src_string(r, r.choice(STRINGS))
    if k < 0.66:
        return r.choice(INTS)
    if k < 0.74:
        return r.choice(FLOATS)
    if k < 0.88:
        return r.choice(["true", "false", "nil", "null", "empty", "blank"])
    if rng_ok:
        small = ["0", "1", "-1", "3", "5", "-2", "1e1"]  # rendered: keep loops short
        a = r.choice([r.choice(small), gen_path_src(r, 1), src_string(r, r.choice(["1", "x"]))])
        b = r.choice([r.choice(small), gen_path_src(r, 1), src_string(r, "3"), "n", "empty"])
        return f"({a}..{b})"
    return r.choice(NAMES)


def gen_bool_src(r: Any, depth: int, *, minimal: bool | None = None) -> str:
    """A Boolean expression; grouping is written with parentheses either
    everywhere or only where the parser needs them."""
    def leaf() -> Any:
        return ("p", gen_prim_src(r, 1))

    def pick_op() -> str:
        # equality and logic never raise at render time; ordering and
        # membership raise LiquidTypeError on many operand types
        return r.choice(OPS) if r.random() < 0.35 else r.choice(["==", "!=", "and", "or", "and", "or", "<>"])

    def spine(d: int) -> Any:
        """`L op0 X` where L's right spine `x1 op1 (x2 op2 (... not z))` needs no
        parentheses of its own (precedences do not decrease) and ends, two or
        more infix levels down, in an open `not`: the whole of L must then be
        parenthesised, whatever the precedence of op0."""
        k = r.choice([2, 2, 3, 4])
        ops = sorted((pick_op() for _ in range(k)), key=lambda o: OP_PREC[o])
        t: Any = ("n", tree(d - 2) if r.random() < 0.4 else leaf())
        if r.random() < 0.3:
            t = ("n", t)
        for o in reversed(ops):
            t = ("b", o, tree(d - 3) if r.random() < 0.25 else leaf(), t)
        lower = [o for o in ["or", "and", "==", "!=", "contains"] if OP_PREC[o] <= OP_PREC[ops[0]]]
        other = tree(d - 2) if r.random() < 0.5 else leaf()
        if r.random() < 0.8:
            return ("b", r.choice(lower), t, other)       # the spine is a left operand
        return ("b", r.choice(lower), other, t)           # ... or a right operand

    def tree(d: int) -> Any:
        k = r.random()
        if d <= 0 or k < 0.25:
            return leaf()
        if k < 0.45:
            return ("n", tree(d - 1))
        if k < 0.6 and d >= 2:
            return spine(d)
        return ("b", pick_op(), tree(d - 1), tree(d - 1))

    def show(t: Any, pp: int, left: bool, mini: bool) -> tuple[str, bool]:
        if t[0] == "p":
            return t[1], False
        if t[0] == "n":
            x, _ = show(t[1], 0, False, mini)
            if left or not mini:
                return f"(not {x})", False
            return f"not {x}", True
        q = OP_PREC[t[1]]
        lhs, _ = show(t[2], q, True, mini)
        rhs, op = show(t[3], q, False, mini)
        txt = f"{lhs} {t[1]} {rhs}"
        if not mini or q < pp or (left and (q == pp or op)):
            return f"({txt})", False
        return txt, op

    mini = r.random() < 0.6 if minimal is None else minimal
    return show(tree(depth), 0, False, mini)[0]


FILTERS = [  # (name, argument generators) accepted by the default environment
    ("upcase", []), ("downcase", []), ("size", []), ("first", []), ("last", []), ("reverse", []),
    ("append", ["s"]), ("prepend", ["s"]), ("default", ["p"]), ("default", ["p", "k:allow_false"]),
    ("slice", ["i", "i"]), ("slice", ["i"]), ("join", ["s"]), ("split", ["s"]), ("plus", ["n"]),
    ("minus", ["n"]), ("times", ["n"]), ("truncate", ["i", "s"]), ("replace", ["s", "s"]),
    ("map", ["l1"]), ("where", ["l1"]), ("where", ["s", "p"]), ("map", ["s"]), ("sort", []),
    ("where", ["l2"]), ("compact", []), ("strip", []), ("escape", []), ("json", []),
]


def gen_lambda_src(r: Any, nparams: int) -> str:
    ps = r.sample(["i", "j", "it", "v"], nparams)
    if not ps:  # `() => e`: a syntax error since /repo 4122b4d, generated for the error path
        return "() => " + r.choice([gen_prim_src(r, 0, rng_ok=False), gen_bool_src(r, 2)])
    body_vars = [f"{ps[0]}.{r.choice(NAMES)}", ps[0], ps[-1]]
    k = r.random()
    if k < 0.4:
        body = r.choice(body_vars)
    elif k < 0.7:
        body = f"{r.choice(body_vars)} {r.choice(OPS)} {gen_prim_src(r, 0, rng_ok=False)}"
    else:
        body = gen_bool_src(r, r.choice([2, 3, 4]))
    head = ps[0] if nparams == 1 and r.random() < 0.8 else "(" + ", ".join(ps) + ")"
    return f"{head} => {body}"


def gen_arg_src(r: Any, kind: str) -> str:
    if kind == "s":
        return src_string(r, r.choice(STRINGS)) if r.random() < 0.8 else gen_path_src(r, 1)
    if kind in ("i", "n"):
        return r.choice(INTS[:6]) if r.random() < 0.7 else gen_path_src(r, 1)
    if kind == "p":
        return gen_prim_src(r, 1)
    if kind == "l1":
        return gen_lambda_src(r, 1)
    if kind == "l2":
        return gen_lambda_src(r, 2)
    if kind.startswith("k:"):
        return kind[2:] + r.choice([":", ": ", " = ", "="]) + gen_prim_src(r, 1, rng_ok=False)
    raise ValueError(kind)


def gen_filter_src(r: Any, *, valid: bool) -> str:
    if valid:
        name, kinds = r.choice(FILTERS)
        args = [gen_arg_src(r, k) for k in kinds]
    else:
        name = r.choice(["f", "g", "upcase", "empty", "blank", "map-x", "é"])
        args = []
        for _ in range(r.choice([0, 0, 1, 1, 2, 3, 4])):
            k = r.random()
            if k < 0.5:
                args.append(gen_prim_src(r, 1))
            elif k < 0.7:
                args.append(r.choice(["k", "key", "limit"]) + r.choice([":", ": ", "="])
                            + (gen_lambda_src(r, 1).replace("(", "").replace(")", "")
                               if r.random() < 0.3 else gen_prim_src(r, 1)))
            else:
                args.append(gen_lambda_src(r, r.choice([0, 1, 1, 2, 2, 3])))
    if not args:
        return name
    sep = r.choice([", ", ", ", ",", " , "])
    tail = r.choice(["", "", "", ","])
    return name + r.choice([": ", ":", " : "]) + sep.join(args) + tail


def gen_fexpr_src(r: Any, *, valid: bool = False, depth: int = 2) -> str:
    k = r.random()
    if k < 0.12:
        items = [gen_prim_src(r, 1, rng_ok=valid is False) for _ in range(r.choice([1, 2, 2, 3, 4]))]
        left = ", ".join(items) + ("," if len(items) == 1 or r.random() < 0.2 else "")
    else:
        left = gen_prim_src(r, depth)
    pipe = lambda: r.choice([" | ", " | ", "|", " |"])  # noqa: E731
    out = left + "".join(pipe() + gen_filter_src(r, valid=valid) for _ in range(r.choice([0, 0, 1, 1, 2, 3])))
    if r.random() < 0.3:
        out += " if " + gen_bool_src(r, r.choice([1, 2, 3, 4]))
        if r.random() < 0.65:
            out += " else " + gen_prim_src(r, 1)
            out += "".join(pipe() + gen_filter_src(r, valid=valid) for _ in range(r.choice([0, 0, 1, 2])))
        if r.random() < 0.4:
            out += " || " + (" | " if r.random() < 0.8 else " || ").join(
                gen_filter_src(r, valid=valid) for _ in range(r.choice([1, 1, 2])))
    return out


def gen_loop_src(r: Any, *, cols: bool = False) -> str:
    ident = r.choice(["i", "item", "x", "limit", "é"])
    k = r.random()
    kwvar = lambda: "['" + r.choice(["limit", "offset", "cols", "reversed", "continue", "in", "for"]) + "']"  # noqa: E731
    if k < 0.15:
        items = [kwvar() if r.random() < 0.3 else gen_prim_src(r, 1) for _ in range(r.choice([1, 2, 3]))]
        return f"{ident} in " + ", ".join(items) + ("," if len(items) == 1 else "")
    it = gen_prim_src(r, 1) if k < 0.7 else r.choice(["(1..3)", "(a..b)", "(1..n)", "items", "x.y", kwvar(), kwvar()])
    opts = []
    sep = lambda: r.choice([":", ": ", "=", " : "])  # noqa: E731
    if r.random() < 0.45:
        opts.append("limit" + sep() + (kwvar() if r.random() < 0.2 else gen_prim_src(r, 0, rng_ok=False)))
    if r.random() < 0.4:
        opts.append("offset" + sep() + (r.choice(["continue", "'continue'", "['continue']", "['continue']", kwvar()])
                                        if r.random() < 0.4 else gen_prim_src(r, 0, rng_ok=False)))
    if cols and r.random() < 0.6:
        opts.append("cols" + sep() + (kwvar() if r.random() < 0.2 else gen_prim_src(r, 0, rng_ok=False)))
    if r.random() < 0.3:
        opts.append("reversed")
    r.shuffle(opts)
    return f"{ident} in {it}" + "".join(r.choice([" ", ", ", " , "]) + o for o in opts)


def mutate_tokens(r: Any, toks: list) -> list:
    """A malformed variant of a token stream (for the parsers' error paths)."""
    toks = list(toks)
    if not toks:
        return toks
    k = r.random()
    i = r.randrange(len(toks))
    if k < 0.35:
        del toks[i]
    elif k < 0.6:
        j = r.randrange(len(toks))
        toks[i], toks[j] = toks[j], toks[i]
    elif k < 0.8:
        toks.insert(i, toks[r.randrange(len(toks))])
    else:
        toks = toks[:i]
    return toks


# ------------------------------------------------------------------ generators: whole templates

PARTIALS = {
    "a": "A{{ x }}{{ y }}",
    "p": "{% for i in items %}{{ i }}{% endfor %}{{ k }}",
    "base": "<{% block title %}T{% endblock %}|{% block body required %}{% endblock body %}|"
            "{% block 'side bar' %}S{{ block.super }}{% endblock %}>",
    "it's": "Q",
    "cyc": "{% cycle 'odd', 'even' %}{% cycle g: a, 'x' %}{% cycle nil, 1.5, b.c %}",
}
TEXTS = ["Hello", " ", "\n", "  \n  ", "a b", "{ ", "}", "%", "#", "x\ty", "é", ", ", "<b>", "\r\n", "0",
         "{ { ", "% }", "-", "~", "}}", "%}"]
WCS = ["", "", "", "-", "+", "~"]


def wc(r: Any) -> str:
    return r.choice(WCS)


def tg(r: Any, body: str) -> str:
    sp = r.choice([" ", " ", "", "  ", "\n"])
    return "{%" + wc(r) + sp + body + r.choice([" ", " ", "", "\n "]) + wc(r) + "%}"


def gen_text(r: Any) -> str:
    return "".join(r.choice(TEXTS) for _ in range(r.choice([1, 1, 2, 3])))


def gen_kwargs_src(r: Any, n: int | None = None) -> str:
    n = r.choice([0, 1, 1, 2, 3]) if n is None else n
    keys = r.sample(["k", "x", "y", "count", "limit", "empty"], n)
    return r.choice([", ", ","]).join(
        k + r.choice([":", ": ", "=", " = "]) + gen_prim_src(r, 1, rng_ok=False) for k in keys)


def gen_ident_src(r: Any) -> str:
    k = r.random()
    if k < 0.7:
        return r.choice(["f", "g", "foo", "x", "é", "empty"])
    return src_string(r, r.choice(["f", "a b", "for", "it's", "true", "é é", "1", 'q"']))


def gen_line(r: Any, depth: int) -> list[str]:
    """Lines of a {% liquid %} tag."""
    k = r.random()
    one = lambda e: e.replace("\n", " ")  # noqa: E731 - no raw newline inside a line statement
    if k < 0.3:
        return ["echo " + one(gen_fexpr_src(r, valid=True, depth=1))]
    if k < 0.45:
        return [f"assign {r.choice(NAMES)} = " + one(gen_fexpr_src(r, valid=True, depth=1))]
    if k < 0.55:
        return ["# " + r.choice(["note", "a | b", "{{ x }}", ""])]
    if k < 0.62:
        return ["comment", "  " + r.choice(["hidden", "echo 'no'", "x y z"]), "endcomment"]
    if k < 0.7:
        return [r.choice(["increment n", "decrement n", "cycle 1, 2, 3", "break", "continue"])]
    if depth <= 0:
        return ["echo 'x'"]
    if k < 0.85:
        body = [l for _ in range(r.choice([1, 2])) for l in gen_line(r, depth - 1)]
        out = ["if " + one(gen_bool_src(r, r.choice([2, 3, 4])))] + ["  " + l for l in body]
        if r.random() < 0.4:
            out += ["else"] + gen_line(r, depth - 1)
        return out + ["endif"]
    body = [l for _ in range(r.choice([1, 2])) for l in gen_line(r, depth - 1)]
    return ["for " + one(gen_loop_src(r))] + ["  " + l for l in body] + ["endfor"]


def gen_node(r: Any, depth: int, *, shopify: bool, in_msg: bool = False) -> str:  # noqa: PLR0911, PLR0912, PLR0915
    k = r.random()
    if in_msg:
        # translate message blocks allow text and bare variables only
        return gen_text(r) if k < 0.6 else "{{" + wc(r) + " " + r.choice(NAMES) + " " + wc(r) + "}}"
    block = lambda d=depth - 1: gen_block(r, d, shopify=shopify)  # noqa: E731
    if k < 0.18 or depth < 0:
        return gen_text(r)
    if k < 0.36:
        sp = r.choice([" ", " ", "", "\n"])
        return "{{" + wc(r) + sp + gen_fexpr_src(r, valid=True) + sp + wc(r) + "}}"
    if k < 0.41:
        return tg(r, f"assign {r.choice(NAMES)} = " + gen_fexpr_src(r, valid=True))
    if k < 0.45:
        return tg(r, "echo " + gen_fexpr_src(r, valid=True))
    if k < 0.5:
        h = r.choice(["#", "#", "##", "###"])
        body = r.choice([" note ", "x", " {{ a }} ", " a # b ", "\n multi\n line \n", ""])
        if h in body.replace(" ", "") + "}":
            body = " c "
        return r.choice([
            "{" + h + wc(r) + body + wc(r) + h + "}",
            "{%" + wc(r) + " # " + r.choice(["note", "a %", "x\n # y", ""]) + " " + wc(r) + "%}",
            tg(r, "comment") + r.choice(["hidden", " {{ a }} ", "{% if %}", "{% raw %}{% endcomment %}{% endraw %}",
                                         "{% comment %}nested{% endcomment %}", ""]) + tg(r, "endcomment"),
        ])
    if k < 0.53:
        return tg(r, "raw") + r.choice([" {{ a }} ", "x", "\n {% if %} \n", "", " "]) + tg(r, "endraw")
    if k < 0.56:
        return tg(r, r.choice(["increment ", "decrement "]) + gen_ident_src(r))
    if k < 0.59:
        name = r.choice(["", "", gen_ident_src(r) + r.choice([": ", ":"])])
        items = ", ".join(gen_prim_src(r, 1, rng_ok=False) for _ in range(r.choice([1, 2, 3])))
        return tg(r, "cycle " + name + items)
    if k < 0.63:
        tname = r.choice(["'a'", "'p'", '"a"', "s", "\"it's\""])
        how = r.choice(["", "", f" with {gen_prim_src(r, 1, rng_ok=False)}", f" for {r.choice(['items', 'x', '(1..2)'])}"])
        alias = f" as {gen_ident_src(r)}" if how and r.random() < 0.5 else ""
        kws = gen_kwargs_src(r)
        tname = tname if r.random() < 0.7 or tname == "s" else tname
        which = r.choice(["include", "render"])
        if which == "render" and tname == "s":
            tname = "'a'"
        return tg(r, f"{which} {tname}{how}{alias}" + ((r.choice([", ", " "]) + kws) if kws else ""))
    if depth <= 0:
        return gen_text(r)
    if k < 0.71:
        out = tg(r, r.choice(["if ", "unless "]) + gen_bool_src(r, r.choice([1, 2, 3, 4, 5])))
        kind = "endunless" if "unless" in out.split("%}")[0] else "endif"
        out += block()
        for _ in range(r.choice([0, 0, 1, 2])):
            out += tg(r, "elsif " + gen_bool_src(r, r.choice([1, 2, 3, 4]))) + block()
        if r.random() < 0.5:
            out += tg(r, "else") + block()
        return out + tg(r, kind)
    if k < 0.78:
        body = block() + (tg(r, r.choice(["break", "continue"])) if r.random() < 0.2 else "")
        out = tg(r, "for " + gen_loop_src(r)) + body
        if r.random() < 0.3:
            out += tg(r, "else") + block()
        return out + tg(r, "endfor")
    if k < 0.83:
        out = tg(r, "case " + gen_prim_src(r, 1, rng_ok=False)) + r.choice(["", " ", "\n  "])
        for _ in range(r.choice([0, 1, 2])):
            exprs = r.choice([", ", " or ", ","]).join(gen_prim_src(r, 1, rng_ok=False) for _ in range(r.choice([1, 2, 3])))
            out += tg(r, "when " + exprs) + block()
        if r.random() < 0.5:
            out += tg(r, "else") + block()
        return out + tg(r, "endcase")
    if k < 0.86:
        return tg(r, f"capture {r.choice(NAMES)}") + block() + tg(r, "endcapture")
    if k < 0.89:
        return tg(r, "with " + gen_kwargs_src(r)) + block() + tg(r, "endwith")
    if k < 0.92:
        name = gen_ident_src(r)
        params = ", ".join(p + ("" if r.random() < 0.5 else ":" + gen_prim_src(r, 0, rng_ok=False))
                           for p in r.sample(["p", "q", "z"], r.choice([0, 1, 2])))
        args = [gen_prim_src(r, 1, rng_ok=False) for _ in range(r.choice([0, 1, 2]))]
        args += ["q" + r.choice([":", "="]) + gen_prim_src(r, 0, rng_ok=False)] if r.random() < 0.4 else []
        r.shuffle(args)
        return (tg(r, f"macro {name} {params}") + block() + tg(r, "endmacro")
                + tg(r, f"call {name} " + ", ".join(args)))
    if k < 0.94:
        msg = lambda: "".join(gen_node(r, 0, shopify=shopify, in_msg=True) for _ in range(r.choice([1, 2, 3])))  # noqa: E731
        out = tg(r, "translate " + gen_kwargs_src(r, r.choice([0, 1, 2]))) + msg()
        if r.random() < 0.4:
            out += tg(r, "plural") + msg()
        return out + tg(r, "endtranslate")
    if k < 0.97:
        lines = [l for _ in range(r.choice([0, 1, 2, 3])) for l in gen_line(r, 2)]
        ws = r.choice(["\n", "\n  ", " "])
        if not lines:
            return "{%" + wc(r) + " liquid " + wc(r) + "%}"
        first = r.choice([" ", "\n", "\n  "])
        return "{%" + wc(r) + " liquid" + first + ws.replace(" ", "  ").join(lines).replace("\n\n", "\n") \
            + r.choice(["", "\n", " "]) + " " + wc(r) + "%}" if ws != " " or len(lines) == 1 else \
            "{%" + wc(r) + " liquid" + first + "\n".join(lines) + "\n" + wc(r) + "%}"
    if shopify:
        return tg(r, "tablerow " + gen_loop_src(r, cols=True)) + block() + tg(r, "endtablerow")
    return tg(r, "if true") + block() + tg(r, "endif")


def gen_block(r: Any, depth: int, *, shopify: bool) -> str:
    return "".join(gen_node(r, depth, shopify=shopify) for _ in range(r.choice([0, 1, 1, 2, 3])))


def gen_template(r: Any, *, shopify: bool) -> str:
    if r.random() < 0.06:
        blocks = ""
        for name in r.sample(["title", "body", "'side bar'", "other"], r.choice([1, 2, 3])):
            req = " required" if r.random() < 0.15 else ""
            end = r.choice(["", " " + name])
            blocks += gen_text(r) + tg(r, f"block {name}{req}") + gen_block(r, 1, shopify=shopify) + tg(r, "endblock" + end)
        return tg(r, "extends " + r.choice(["'base'", '"base"', "base"])) + blocks
    return "".join(gen_node(r, 2, shopify=shopify) for _ in range(r.choice([1, 2, 3, 4, 5])))


# Resource limits keep generated loops and outputs small; a limit error is an
# outcome like any other (same class on both sides). Module level: templates
# are pickled together with their environment.
from liquid2 import Environment as _Environment  # noqa: E402
from liquid2.shopify import Environment as _ShopifyEnvironment  # noqa: E402


class LimitedEnv(_Environment):
    loop_iteration_limit = 2000
    output_stream_limit = 100_000


class LimitedShopifyEnv(_ShopifyEnvironment):
    loop_iteration_limit = 2000
    output_stream_limit = 100_000


from liquid2 import DictLoader as _DictLoader  # noqa: E402
from liquid2.loader import TemplateSource as _TemplateSource  # noqa: E402


def _fresh() -> bool:
    return True


def _stale() -> bool:
    return False


class MatterLoader(_DictLoader):
    """A loader whose templates carry front matter (-> Template.overlay_data)
    and an `uptodate` callable."""

    def __init__(self, templates: dict[str, str], matter: dict[str, object], fresh: bool):
        super().__init__(templates)
        self.matter = matter
        self.fresh = fresh

    def get_source(self, env: Any, template_name: str, *, context: Any = None, **kwargs: object) -> Any:
        src = super().get_source(env, template_name, context=context, **kwargs)
        if template_name != "page":
            return src
        return _TemplateSource(src.source, template_name, _fresh if self.fresh else _stale, dict(self.matter))


OVERLAY = {"a": {"b": "ov-ab", "x y": 6, "c": [1, 2]}, "x": [{"a": 1, "b": "p"}, {"a": 0, "b": "q"}],
           "title": "OV-title", "user": {"name": "Ov", "age": 3}, "k": "ov-k", "z": False}
GLOBALS = {"title": "GL-title", "b": [7, 8, 9], "n": 2, "s": "gl-s", "items": ["g", "h"], "y": {"a": [5], "k": "w"},
           "c": "gl-c", "k": "gl-k"}


def meta_template(shop: bool, src: str, variant: int) -> Any:
    """`src` as a template that carries name, path, template globals, overlay
    data and an uptodate callable: built with from_string (variant 0/1) or by
    a loader with front matter (variant 2/3)."""
    if variant < 2:
        t = tag_envs()[shop].from_string(src, name="page.liquid", path="dir/sub/page.liquid",
                                         globals=dict(GLOBALS), overlay_data=dict(OVERLAY))
        t.uptodate = _fresh if variant == 0 else _stale
        return t
    cls = LimitedShopifyEnv if shop else LimitedEnv
    env = cls(loader=MatterLoader({**PARTIALS, "page": src}, OVERLAY, variant == 2))
    return env.get_template("page", globals=dict(GLOBALS))


def template_slots(t: Any) -> dict[str, Any]:
    return {"str": str(t), "name": t.name, "path": None if t.path is None else str(t.path),
            "full_name": t.full_name(), "global_data": dict(t.global_data),
            "overlay_data": dict(t.overlay_data), "uptodate": getattr(t.uptodate, "__name__", None),
            "is_up_to_date": t.is_up_to_date(), "env": type(t.env).__name__}


def pickle_meta_oracle(shop: bool, src: str, variant: int) -> tuple[str, str, dict[str, Any]] | None:
    """Pickling preserves a template that carries overlay data, template
    globals, name, path and an uptodate callable: every slot and the render
    outcome on data where names resolve only through overlay/global data."""
    try:
        t = meta_template(shop, src, variant)
    except Exception:  # noqa: BLE001
        return None
    info: dict[str, Any] = {"source": src, "variant": ["from_string fresh", "from_string stale",
                                                       "loader with front matter, fresh",
                                                       "loader with front matter, stale"][variant],
                            "overlay_data": OVERLAY, "globals": GLOBALS}
    try:
        t3 = pickle.loads(pickle.dumps(t))
    except Exception as e:  # noqa: BLE001
        info["error"] = f"{type(e).__name__}: {e}"[:300]
        return ("oracle:pickle-fails", f"a template with overlay data does not survive pickling: {type(e).__name__}", info)
    try:
        s1, s3 = template_slots(t), template_slots(t3)
    except Exception as e:  # noqa: BLE001
        info["error"] = f"{type(e).__name__}: {e}"[:300]
        return ("oracle:pickle-slots-differ", "the unpickled template is missing state", info)
    if s1 != s3:
        info["slots"] = {k: (s1[k], s3[k]) for k in s1 if s1[k] != s3[k]}
        return ("oracle:pickle-slots-differ",
                "the unpickled template differs in " + ", ".join(sorted(info["slots"])), info)
    outs = []
    for data in ({}, {"title": "ARG-title", "n": 1}):
        o1, o3 = render_outcome(t, data), render_outcome(t3, data)
        outs.append(o1)
        if o1 != o3:
            info.update({"data": data, "out": o1, "out3": o3})
            return ("oracle:pickle-differs", "the unpickled template renders differently where names "
                    "resolve through overlay data / template globals", info)
    info["outs"] = outs
    return ("", "", info)


def lit_src(text: str, q: str) -> str:
    """`text` as the inside of a q-delimited string literal (deterministic)."""
    out = []
    for i, ch in enumerate(text):
        if ch in (q, "\\"):
            out.append("\\" + ch)
        elif ch == "$" and text[i + 1:i + 2] == "{":
            out.append("\\$")
        elif ch == "\n":
            out.append("\\n")
        elif ord(ch) < 0x20:
            out.append(f"\\u{ord(ch):04x}")
        else:
            out.append(ch)
    return "".join(out)


def poison_sources(text: str) -> list[str]:
    """Templates that contain the literal `text` in the other contexts the
    string writer serves — and, where possible, under the OTHER delimiter than
    a plain string literal of `text` gets: as a literal part of a template
    string whose remaining text flips the quote choice."""
    plain_q = '"' if "'" in text and '"' not in text else "'"
    out = ["{{ '" + lit_src(text, "'") + "' }}", '{{ "' + lit_src(text, '"') + '" }}']
    if plain_q == '"':
        flip = '"'          # adding a double quote makes the writer choose single quotes
    elif '"' not in text:
        flip = "'"          # adding an apostrophe makes it choose double quotes
    else:
        flip = None
    if flip is not None:
        out.append("{{ '" + lit_src(text, "'") + "${a}" + lit_src(flip, "'") + "' }}")
        out.append("{{ '" + lit_src(flip, "'") + "${a | append: \"" + lit_src(text, '"') + "\"}"
                   + lit_src(text, "'") + "' }}")
    out.append("{{ a['" + lit_src(text, "'") + "'] }}{% assign z = b | default: x[\"" + lit_src(text, '"') + "\"] %}")
    out.append("{% increment '" + lit_src(text, "'") + "' %}{% cycle \"" + lit_src(text, '"') + "\": 1, 2 %}")
    out.append("{% liquid echo a['" + lit_src(text, "'") + "']\n echo '" + lit_src(text, "'") + "' %}")
    return out


def light_roundtrip(env: Any, src: str) -> tuple[str, dict[str, Any]] | None:
    """Reparse / fixpoint / tree equality / one render, for a poisoning template.
    Returns (what, info) on failure."""
    try:
        t = env.from_string(src)
    except Exception:  # noqa: BLE001 - not a template (e.g. a code point the lexer rejects)
        return None
    s1 = str(t)
    info = {"source": src, "str": s1}
    try:
        t2 = env.from_string(s1)
    except Exception as e:  # noqa: BLE001
        info["error"] = f"{type(e).__name__}"
        return ("str(template) does not parse: " + type(e).__name__, info)
    if str(t2) != s1:
        info["str2"] = str(t2)
        return ("str(parse(str(t))) differs from str(t)", info)
    try:
        if dump_nodes(t.nodes) != dump_nodes(t2.nodes):
            return ("the reparsed template has a different syntax tree", info)
    except Unsupported:
        pass
    data = {"a": {"x": 1}, "b": None, "x": {}}
    if render_outcome(t, data) != render_outcome(t2, data):
        return ("the reparsed template renders differently", info)
    return None


def history_oracle(env: Any, other_env: Any, src: str, s1: str, texts: list[str]) -> tuple[str, str, dict[str, Any]] | None:
    """str() must not depend on what was serialised before. After `src` has
    been serialised (`s1`), serialise templates that contain the same literal
    texts in other contexts and under the other delimiter (each must round
    trip), in the same and in another environment, then serialise `src` again:
    same text as the first time, and it still parses."""
    for i, text in enumerate(texts):
        for j, psrc in enumerate(poison_sources(text)):
            bad = light_roundtrip(env if (i + j) % 2 == 0 else other_env, psrc)
            if bad:
                return ("oracle:history-dependent-str",
                        "a template serialised after another one that contains the same literal text: " + bad[0],
                        {"serialised first": src, "first str": s1, "literal text": text, **bad[1]})
    try:
        s_again = str(env.from_string(src))
    except Exception:  # noqa: BLE001
        return None
    if s_again != s1:
        return ("oracle:history-dependent-str", "str() of the same source differs after other templates were serialised",
                {"source": src, "str": s1, "str again": s_again, "literal texts": texts})
    try:
        env.from_string(s_again)
    except Exception as e:  # noqa: BLE001
        return ("oracle:history-dependent-str", "str() after other templates were serialised does not parse",
                {"source": src, "str again": s_again, "error": type(e).__name__})
    return None


def literal_texts(t: Any, cap: int = 6) -> list[str]:
    """The distinct string values of a template's expressions (string literals,
    quoted path segments, names), those with exactly one kind of quote first."""
    found: list[str] = []

    def walk(e: Any, depth: int = 0) -> None:
        if depth > 12:
            return
        n = type(e).__name__
        if n == "StringLiteral":
            found.append(str(e.value))
        elif n == "Path":
            found.extend(str(s) for s in e.path if isinstance(s, str))
        for c in getattr(e, "children", lambda: [])() or []:
            walk(c, depth + 1)

    def nodes(ns: Any, depth: int = 0) -> None:
        if depth > 8:
            return
        for n in ns:
            try:
                for e in n.expressions():
                    walk(e)
            except Exception:  # noqa: BLE001
                pass
            for attr in ("name", "alias"):
                v = getattr(n, attr, None)
                if isinstance(v, str):
                    found.append(str(v))
            try:
                kids = list(n.children(None, include_partials=False))  # type: ignore[arg-type]
            except Exception:  # noqa: BLE001
                kids = []
            for k in kids:
                nodes(getattr(k, "nodes", [k]) if hasattr(k, "nodes") else [k], depth + 1)

    nodes(t.nodes)
    uniq = list(dict.fromkeys(x for x in found if all(ord(c) >= 8 for c in x)))
    one_quote = [x for x in uniq if ("'" in x) != ('"' in x)]
    rest = [x for x in uniq if x not in one_quote]
    return (one_quote + rest)[:cap]


EDGE_TEXTS = ["yes ", " no", " \n mid \n ", "x", "\t", " "]
MARKS = ["", "-", "~", "+"]


def empty_branch_templates(r: Any, per_subset: int) -> list[tuple[str, list[dict[str, Any]]]]:
    """Every block tag with each subset of its branches EMPTY (no content at
    all), whitespace-control markers on the branch tags, whitespace-edged text
    in the other branches and around the block, and data selecting each
    branch. An empty branch still has a tag, and the tag's markers trim its
    neighbours: dropping the tag of an empty branch changes the output."""
    out: list[tuple[str, list[dict[str, Any]]]] = []

    def mk(name: str, marks: tuple[str, str] | None = None) -> str:
        l, rr = marks if marks is not None else (r.choice(MARKS), r.choice(MARKS))
        return "{%" + l + " " + name + " " + rr + "%}"

    sharp = [False]

    def body(empty: bool) -> str:
        if empty:
            return ""
        # in the sharp layout the text ends in blanks that only the next tag's `-` removes
        return r.choice(["yes ", " \n mid \n ", "no \n"]) if sharp[0] else r.choice(EDGE_TEXTS)

    def frame(inner: str) -> str:
        return r.choice(["A ", "A\n", "A", " "]) + inner + r.choice([" |", "\n|", "|", " "])

    if_data = [{"x": True, "y": True}, {"x": False, "y": True}, {"x": False, "y": False}, {}]
    case_data = [{"n": 1}, {"n": 2}, {"n": 3}, {}]
    for_data = [{"items": [1, 2]}, {"items": []}, {"items": "ab"}, {}]
    for kind in ("if", "unless"):
        for mask in range(8):
            e = [bool(mask & 1), bool(mask & 2), bool(mask & 4)]
            for k in range(per_subset):
                # k == 0: the sharpest case, a lone marker on the left of each branch tag
                m = (lambda: ("-", "")) if k == 0 else (lambda: None)
                sharp[0] = k == 0
                src = frame(mk(f"{kind} x", m()) + body(e[0]) + mk("elsif y", m()) + body(e[1])
                            + mk("else", m()) + body(e[2]) + mk("end" + kind, None if k else ("", "")))
                out.append((src, if_data))
                if k == 1:  # no elsif
                    out.append((frame(mk(f"{kind} x") + body(e[0]) + mk("else", ("-", "")) + body(e[2])
                                      + mk("end" + kind, ("", ""))), if_data))
    for mask in range(8):
        e = [bool(mask & 1), bool(mask & 2), bool(mask & 4)]
        for k in range(per_subset):
            m = (lambda: ("-", "")) if k == 0 else (lambda: None)
            sharp[0] = k == 0
            src = frame(mk("case n") + r.choice(["", " ", "\n"]) + mk("when 1", m()) + body(e[0])
                        + mk("when 2, 'b'", m()) + body(e[1]) + mk("else", m()) + body(e[2])
                        + mk("endcase", None if k else ("", "")))
            out.append((src, case_data))
    for mask in range(4):
        e = [bool(mask & 1), bool(mask & 2)]
        for k in range(per_subset):
            m = (lambda: ("-", "")) if k == 0 else (lambda: None)
            sharp[0] = k == 0
            src = frame(mk("for i in items", m()) + body(e[0]) + mk("else", m()) + body(e[1])
                        + mk("endfor", None if k else ("", "")))
            out.append((src, for_data))
    # blocks without branches: empty body between marked tags
    for k in range(per_subset):
        for open_, close in (("capture z", "endcapture"), ("with k: 1", "endwith"), ("macro f", "endmacro"),
                             ("block b", "endblock"), ("raw", "endraw"), ("comment", "endcomment")):
            out.append((frame(mk(open_) + mk(close)), [{}, {"x": 1}]))
    return out


class Obj:
    """A plain object with attributes (templates must not see them)."""

    def __init__(self) -> None:
        self.b = "attr"

    def __str__(self) -> str:
        return "OBJ"


def data_sets(r: Any) -> list[dict[str, Any]]:
    rich = {"a": {"b": "ab", "x y": 5, "size": 3, "true": 1, "c": [10, 20, 30]}, "b": [1, 2, 3], "c": "sea",
            "x": [{"a": 1, "b": "p"}, {"a": 2, "b": "q"}, {"a": None}], "y": {"a": [1, [2, 3]], "k": "v"},
            "items": ["u", "v", "w", "x"], "n": 3, "s": "a", "user": {"name": "Al", "age": 41}, "title": "<T>",
            "empty": "EMPTY", "limit": 2, "true": {"foo": "tf"}, "a b": "spaced", "it's": "quoted",
            "é1": "acc", "_u": "under", "a-b": "dash", "continue": 1, "cols": 2, "k": "kk", "z": 0}
    alt = {"a": "str", "b": "", "c": 0, "x": "text", "y": [3, 1, 2], "items": [], "n": "2", "s": "p",
           "user": None, "title": False, "empty": [], "limit": "x", "offset": -1, "true": True, "nil": 5,
           "reversed": True, "blank": " ", "i": 7, "j": [1]}
    rnd: dict[str, Any] = {}
    for k in NAMES + ["empty", "limit", "k"]:
        rnd[k] = r.choice([0, 1, -3, 2.5, "", "w", "a b", True, False, None, [], [1, 2], ["a", "b", "c"],
                           {"a": 1}, {"b": [1, 2], "size": 9}, Obj(), (1, 2), range(3), "<&>", 12])
    return [{}, rich, alt, rnd]


def render_outcome(t: Any, data: dict[str, Any]) -> str:
    try:
        return "=" + t.render(**data)
    except RecursionError:
        return "!RecursionError"
    except Exception as e:  # noqa: BLE001 - the class of any error is the observable
        return "!" + type(e).__name__


def tag_envs() -> dict[bool, Any]:
    if "tag" not in _ENV:
        from liquid2 import DictLoader
        _ENV["tag"] = {False: LimitedEnv(loader=DictLoader(dict(PARTIALS))),
                       True: LimitedShopifyEnv(loader=DictLoader(dict(PARTIALS)))}
    return _ENV["tag"]


def oracle(env: Any, src: str, datas: list[dict[str, Any]]) -> tuple[str, str, dict[str, Any]] | None:
    """The property on the implementation. Returns (signature, what, replay)
    for the first failure, ("", "", info) if the property holds, or None if
    `src` is not a template."""
    try:
        t = env.from_string(src)
    except Exception:  # noqa: BLE001
        return None
    info: dict[str, Any] = {"source": src}
    s1 = str(t)
    info["str"] = s1
    try:
        t2 = env.from_string(s1)
    except Exception as e:  # noqa: BLE001
        info["error"] = f"{type(e).__name__}: {e}"[:300]
        return ("oracle:reparse-fails", f"str(template) does not parse: {type(e).__name__}", info)
    s2 = str(t2)
    if s2 != s1:
        info["str2"] = s2
        return ("oracle:str-not-fixpoint", "str(parse(str(t))) differs from str(t)", info)
    try:
        d1, d2 = dump_nodes(t.nodes), dump_nodes(t2.nodes)
        if d1 != d2:
            info["ast"], info["ast2"] = d1, d2
            return ("oracle:ast-differs", "the reparsed template has a different syntax tree", info)
        info["modelled"] = True
    except Unsupported:
        info["modelled"] = False
    outs = []
    for data in datas:
        o1, o2 = render_outcome(t, data), render_outcome(t2, data)
        outs.append(o1)
        if o1 != o2:
            info.update({"data": repr(data)[:600], "out": o1, "out2": o2})
            return ("oracle:render-differs", "the reparsed template renders differently", info)
    try:
        t3 = pickle.loads(pickle.dumps(t))
    except Exception as e:  # noqa: BLE001
        info["error"] = f"{type(e).__name__}: {e}"[:300]
        return ("oracle:pickle-fails", f"the template does not survive pickling: {type(e).__name__}", info)
    for data, o1 in zip(datas, outs):
        o3 = render_outcome(t3, data)
        if o1 != o3:
            info.update({"data": repr(data)[:600], "out": o1, "out3": o3})
            return ("oracle:pickle-differs", "the unpickled template renders differently", info)
    info["outs"] = outs
    return ("", "", info)


# ------------------------------------------------------------------ the check

EXPR_CORPUS = [
    # (kind, source): past defects (now fixed) and boundary shapes, run first
    ("fexpr", "nil"), ("fexpr", "x | slice: 1, 3"), ("fexpr", "['a b']"), ("fexpr", "['empty']"),
    ("fexpr", "[a]"), ("fexpr", "[1]"), ("fexpr", "x[true]"), ("fexpr", "true.foo"),
    ("fexpr", "x | default: y, allow_false: true"), ("fexpr", "x | default: empty"),
    ("fexpr", "x | where: i => (i.a or i.b) and i.c"), ("fexpr", "x | map: (i, j) => i"),
    ("fexpr", "x | f: k: i => not i.a, (a) => a, () => 1"), ("fexpr", "10000000000000000.0"),
    ("fexpr", "1.0e999"), ("fexpr", "'\\u0008\\u001b\\u007f \\ud83d\\ude00 \\udb40\\udc01'"),
    ("fexpr", "'\\${x} $5 a${'"), ("fexpr", "'it\\'s \"q\" \\\\'"), ("fexpr", "a, | first"), ("fexpr", "a, b,"),
    ("fexpr", "a | upcase if b else c | downcase || append: 'x' | prepend: 'y'"),
    ("fexpr", "a if b || f || g"), ("fexpr", "a if (not b) and c else nil"), ("fexpr", "(a..b)"),
    ("fexpr", "(['true']..empty)"), ("fexpr", "9007199254740993"), ("fexpr", "1e400"),
    ("fexpr", "x | f: () => 1"), ("fexpr", "x | where: () => a == not b, 2"), ("fexpr", "x | f: k: () => 1"),
    ("fexpr", "x | f: (a b) => 1"), ("fexpr", "x | f: k: 1 => 2"), ("fexpr", "x |"), ("fexpr", "x | f: a: "),
    ("bool", "(not a) and b"), ("bool", "not a and b"), ("bool", "(a and b) and c"), ("bool", "a and (b and c)"),
    ("bool", "(a == b) == c"), ("bool", "a == (b and c)"), ("bool", "(a and not b) or c"),
    ("bool", "(a == b) contains c"), ("bool", "(a contains b) == c"), ("bool", "a == not b"),
    ("bool", "not (true and (false and (false or a < b)))"), ("bool", "a <> b"), ("bool", "((a))"),
    ("bool", "(a and b == not c) or d"), ("bool", "((a or b) and c != not d) or e"),
    ("bool", "(a or b and c == d contains not e) or f"), ("bool", "(a == b contains not not c) and d"),
    ("bool", "(a and (b or c == not d)) or e"), ("bool", "a or (b and c == not d) or e"),
    ("bool", "((a and b == not c) == d) and e"), ("bool", "not (a and b == not c) or d"),
    ("bool", "(not a == not b and not c) or not d"), ("bool", "(a and b == not (c or not d)) and e"),
    ("bool", "a and (b == not c) or d"), ("bool", "(a == (b and not c)) or d"),
    ("fexpr", "x | where: i => (i.a and i.b == not i.c) or i.d"),
    ("fexpr", "x if (a and b == not c) or d else y"), ("fexpr", "x if (a or b != not not c) and d || f: (p, q) => (p and q == not p) or q"),
    ("bool", "(a"), ("bool", "a)"), ("bool", "a and"), ("bool", "not"), ("bool", "(1..3) == (a..b)"),
    ("loop", "i in x limit:2 offset:1 reversed"), ("loop", "i in x reversed, limit: 2 cols=3"),
    ("loop", "i in x offset:continue"), ("loop", "i in x offset: ['continue']"), ("loop", "i in 1, 2, 3"),
    ("loop", "i in x,"), ("loop", "i in a, ['limit']"), ("loop", "i in a, limit"), ("loop", "i in a, limit: 1"),
    ("loop", "i in ['limit'], ['limit'], ['offset']"), ("loop", "i in a, ['reversed'], ['cols'], b"),
    ("loop", "i in ['reversed'] reversed limit: ['limit'] offset: ['offset'] cols: ['cols']"),
    ("loop", "i in x offset: ['continue'] limit: ['continue']"), ("loop", "i in ['continue'], ['continue']"),
    ("fexpr", "1.0e400 | plus: -1.0e400"), ("fexpr", "1.7976931348623157e308, 1.7976931348623159e308"),
    ("bool", "1.0e999 == -1.0e999 or 1e-400 < 4.9e-324"),
    ("loop", "i in x limit"), ("loop", "i x"), ("loop", "i in"), ("loop", "i in x foo"),
]

TEMPLATE_CORPUS = [
    "{{ nil }}", "{{ x | slice: 1, 3 }}", "{{ ['a b'] }}{{ a['x y'] }}", "{% if a == nil %}1{% endif %}",
    "{% tablerow i in b cols:2 limit: 1 %}{{ i }}{% endtablerow %}",
    "{% if (not a) and b %}1{% else %}0{% endif %}", "{% if (a and not b) or c %}1{% else %}0{% endif %}",
    "{% if (a and b == not c) or n %}1{% else %}0{% endif %}{% unless ((a or b) and c != not z) or z %}1{% else %}0{% endunless %}",
    "{% if z %}{% elsif (b and n == 3 contains not z) or z %}1{% else %}0{% endif %}",
    "{{ 'T' if (a and b == not c) or z else 'F' }}{{ x | where: i => (i.a and i.b == not i.a) or i.zz | size }}",
    "{% liquid\nif (a and b == not c) or z\n echo 'T'\nelse\n echo 'F'\nendif %}",
    "{{ x | map: i => (i.a or i.b) and i.a | join: ',' }}", "{{ 10000000000000000.0 }}",
    "{{ 'a${b | append: \"x\\ny\"}c' }}", "{{ 'a\\${b}${c}' }}", "{{ '\\u001b' }}",
    "{% increment 'a b' %}{% cycle 'a b': 1, 2 %}{% cycle '': 1, 2 %}{% cycle 1, 2 %}",
    "{{ \"don't\" }}{{ 'don\\'t${a}\"' }}", "{{ 'don\\'t${a}\"' }}{{ \"don't\" }}",
    "{{ 'say \"hi\"' }}{{ \"say \\\"hi\\\"${a}'\" }}", "{{ a[\"don't\"] }}{{ '\"${a | append: \"don't\"}don\\'t' }}",
    "{% increment \"don't\" %}{{ 'don\\'t${a}\"' }}{% assign z = \"don't\" %}{{ z }}",
    "{% liquid echo \"don't\"\n echo 'don\\'t${a}\"' %}",
    "{% liquid echo a['\u00a0']\n echo ['\u2028'] %}{% echo a['\u00a0'] %}{{ a['\u2028'] }}",
    "{% include 'a' for b as c %}{% render 'a' with b as 'y z' %}", "{{ b, | first }}",
    "{% macro 'my f' p %}{{ p }}{% endmacro %}{% call 'my f' 1 %}", "{% block 'a b' %}x{% endblock %}",
    "{% liquid echo a\n# note  %}", "{% liquid\n  echo ['a b']\n echo y[\"a\\nb\"]\n echo [true] %}",
    "{{ ['\u2028'] }}{{ ['\u00a0x'].y }}{% echo ['\u2028'] %}{% liquid echo ['\u3000'] %}",
    "{{ '\ud800' }}{{ a['\udc00'] }}{% increment 'x\udfff y' %}{{ \"q${a}\udbff'\" }}",
    "{{ \"a${'b${\"c${x}\"}'}\" }}",
    "{% for i in b %}{{ i }}{% endfor %}", "{{ 1.0e400 }}|{{ -1.0e400 }}|{{ n | plus: 2.0e308 }}|{{ 1.7976931348623157e308 }}",
    "{% for i in b, ['limit'] %}{{ i }}{% endfor %}|{% for i in b offset: ['continue'] %}{{ i }}{% endfor %}"
    "|{% for i in b offset: continue %}{{ i }}{% endfor %}|{% for i in ['limit'], ['reversed'] %}{{ i }}{% endfor %}",
    "{% tablerow i in b, ['cols'] %}{{ i }}{% endtablerow %}{% tablerow i in b cols: ['cols'] offset: ['continue'] %}{{ i }}{% endtablerow %}",
    "{% include 'a' with ['with'] as x %}{% render 'a' for ['for'] as x %}{{ ['if'] if ['else'] else ['if'] }}"
    "{% case ['or'] %}{% when ['or'], ['and'] %}x{% endcase %}{% cycle ['required'], ['as'] %}", "{%- if a ~%} x {%+ else -%} y {%~ endif +%}",
    "{{- a -}} {{~ a ~}} {{+ a +}}", "{# c #}{## c # ##}{#- c -#}{% # c %}{% comment %} c {% endcomment %}",
    "{%- raw -%} {{ a }} {%- endraw -%}", "{% case n %} {% when 1, 2 or 3 %}x{% else %}y{% endcase %}",
    "{% extends 'base' %}{% block body %}B{{ block.super }}{% endblock %}",
    "{% translate x: a.b %}Hello {{ x }}{% plural %}Hellos{% endtranslate %}",
    "{% with a: 1, b: 'x' %}{{ a }}{{ b }}{% endwith %}{% capture z %}c{% endcapture %}{{ z }}",
    "{% assign q = 1, 2, 3 %}{{ q | join: '-' }}{% echo q | first %}",
]

# Quoted path segments with every escape, in both quote kinds, in {% liquid %}
# line statements (token printer: PathToken.__str__ / _quote_escaped) and in
# ordinary tags and output (AST printer: Path.__str__ / _string_repr).
_DQ_SEGMENTS = ['x\\"y', 'say \\"hi\\"', "it's", "a\\\\b", "l\\nm", "\\u0041b", 'q\\"\\\\\\"', "'\\\"", "\\\\",
                "\\t\\r\\b\\f\\/", "\\ud83d\\ude00", "\\$", "a b"]
_SQ_SEGMENTS = ["x\\'y", 'say "hi"', "a\\\\b", "l\\nm", "\\u0041b", "\\'\\\\", '"', "\\'\"", "\\\\\\'",
                "\\t\\r\\b\\f\\/", "\\u00e9", "\\$", "a b"]
for _q, _segs in (('"', _DQ_SEGMENTS), ("'", _SQ_SEGMENTS)):
    for _seg in _segs:
        _p = f"[{_q}{_seg}{_q}]"
        TEMPLATE_CORPUS.append(
            "{% liquid echo a" + _p + "\n assign z = labels" + _p + ".k | default: b" + _p + _p + "\n"
            " if " + _p + " == a.b" + _p + "\n  echo z\n endif %}")
        TEMPLATE_CORPUS.append(
            "{% echo a" + _p + " %}{{ labels" + _p + ".k | default: b" + _p + _p + " }}"
            "{% if " + _p + " == a.b" + _p + " %}y{% endif %}{% for i in a" + _p + " %}{{ i }}{% endfor %}")
    TEMPLATE_CORPUS.append("{% liquid echo a" + "".join(f"[{_q}{x}{_q}]" for x in _segs) + " %}")
    TEMPLATE_CORPUS.append("{{ a" + "".join(f"[{_q}{x}{_q}]" for x in _segs) + " }}")

# Known findings: the recorded witnesses are re-observed on every run.
KNOWN_WITNESSES: list[tuple[str, str, str]] = []   # (signature, source, what): none at present


def nested_tstring(depth: int) -> str:
    """`{{ "${'${"${x}"}'}" }}`: template strings nested in template strings."""
    inner = "x"
    for k in range(depth):
        q = "'\""[k % 2]
        inner = q + "a${" + inner + "}" + q
    return "{{ " + inner + " }}"


def special_observations(chk: Any, envs: dict[bool, Any]) -> dict[str, Any]:
    """Round-8 classes that need their own observation."""
    import subprocess
    import sys
    import time
    out: dict[str, Any] = {}
    env = envs[False]

    # (a) str() of nested template strings is linear, not exponential
    src = nested_tstring(18)
    t = env.from_string(src)
    t0 = time.perf_counter()
    s1 = str(t)
    dt = time.perf_counter() - t0
    out["str() of a template string nested 18 deep, seconds"] = round(dt, 4)
    if dt > 0.5:
        chk.finding("oracle:str-exponential-time",
                    f"str() of an 18-deep nested template string ({len(src)} characters) took {dt:.2f} s",
                    {"source": src})
    res = oracle(env, src, [{}, {"x": "X"}])
    if res and res[0]:
        chk.finding(res[0], res[1] + " (nested template strings)", res[2])

    # (b) a template pickled in another process (other string hash seed) behaves the same here
    sources = [
        "{% cycle 'odd', 'even' %} {% include 'cyc' %} {% cycle 'odd', 'even' %}",
        "{% cycle g: a, 'x' %}{% include 'cyc' %}{% cycle g: a, 'x' %}{% cycle 'g': a, 'x' %}",
        "{% for i in (1..3) %}{% cycle nil, 1.5, b.c %}{% include 'cyc' %}{% endfor %}",
        "{% assign x = 'é' %}{% increment n %}{{ x | append: \"'\" }}{% cycle 'odd', 'even' %}",
    ]
    child = ("import sys, json, pickle, base64; from harness import c12; e = c12.tag_envs()[False]; "
             "print(json.dumps([base64.b64encode(pickle.dumps(e.from_string(s))).decode() "
             "for s in json.load(sys.stdin)]))")
    import base64
    import json as _json
    import os
    for seed in ("1", "12345"):
        p = subprocess.run([sys.executable, "-W", "ignore", "-c", child], input=_json.dumps(sources),
                           env=dict(os.environ, PYTHONHASHSEED=seed), capture_output=True, text=True, timeout=120)
        if p.returncode != 0:
            chk.notes.append("cross-process pickle helper failed: " + p.stderr[-300:])
            break
        blobs = _json.loads(p.stdout.strip().splitlines()[-1])
        for src2, blob in zip(sources, blobs):
            here = env.from_string(src2)
            there = pickle.loads(base64.b64decode(blob))
            for data in ({}, {"a": 1, "b": {"c": 2}}):
                o1, o2 = render_outcome(here, data), render_outcome(there, data)
                if o1 != o2:
                    chk.finding("oracle:pickle-cross-process",
                                "a template pickled by another process (other string hash seed) renders differently",
                                {"source": src2, "writer PYTHONHASHSEED": seed, "out": o1, "out unpickled": o2})
    out["templates unpickled from another process"] = 2 * len(sources)

    # (c) known finding: str() recurses through the C stack once per nesting level
    for depth in (130, 160, 190, 230, 280):
        src = "{% if true %}" * depth + "x" + "{% endif %}" * depth
        try:
            t = env.from_string(src)
            if t.render() != "x":
                break
        except RecursionError:
            break
        try:
            str(t)
        except RecursionError:
            chk.finding("deep-nesting-recursionerror",
                        f"{depth} nested block tags parse and render, but str(template) raises RecursionError",
                        {"depth": depth})
            out["nesting depth at which str() raises RecursionError"] = depth
            break
    return out




def known_mechanism(items: Any) -> str | None:
    """The signature of a known finding whose mechanism occurs in `items`
    (none at present: float inf and the loop keywords are fixed)."""
    return None


def deep_not_in_left(x: Any) -> bool:
    """Is there an infix expression whose LEFT operand has, two or more infix
    levels down its right spine, a `not`? (Its printed form then depends on
    the propagation of the open-`not` flag through several levels.)"""
    if isinstance(x, tuple) and len(x) == 4 and x[0] == "bin":
        t, n = x[2], 0
        while isinstance(t, tuple) and t and t[0] == "bin":
            t, n = t[3], n + 1
        if n >= 2 and isinstance(t, tuple) and t and t[0] == "not":
            return True
    if isinstance(x, (tuple, list)):
        return any(deep_not_in_left(y) for y in x)
    return False


def features(d: Any, text: str) -> set[str]:
    """Which printer mechanisms an expression exercises (for the coverage count)."""
    f: set[str] = set()

    def walk(x: Any) -> None:
        if isinstance(x, tuple) and x:
            k = x[0]
            if k == "str" and len(x) == 2 and isinstance(x[1], str):
                if any(c in x[1] for c in "'\"\\\n\t$") or not x[1].isprintable():
                    f.add("string-escape")
            elif k == "path" and len(x) == 2:
                segs = x[1]
                if len(segs) > 1:
                    f.add("path-segments")
                if any(s[0] == "p" for s in segs):
                    f.add("nested-path")
                if any(s[0] == "n" and not RE_WORD.fullmatch(s[1]) for s in segs) or segs[0][0] != "n" \
                        or (len(segs) == 1 and segs[0][0] == "n" and segs[0][1] in RESERVED):
                    f.add("bracket-segment")
            elif k == "range":
                f.add("range")
            elif k == "not":
                f.add("not")
            elif k == "bin":
                f.add("infix")
            elif k == "lambda":
                f.add("lambda")
            elif k == "kw":
                f.add("keyword-arg")
            elif k == "array":
                f.add("array")
            elif k == "ternary":
                f.add("ternary")
            elif k in ("float", "int") and len(x) > 1:
                f.add("number")
        if isinstance(x, (tuple, list)):
            for y in x:
                walk(y)
    walk(d)
    if deep_not_in_left(d):
        f.add("not-deep-in-left-operand")
    if "(" in text.replace("(..", "") and ("not" in f or "infix" in f):
        f.add("parenthesised")
    return f


def main(chk: C.Check, build: C.Build) -> None:  # noqa: PLR0912, PLR0915
    warnings.simplefilter("ignore")
    proofs_ok = C.proof_stage(chk, build, NEEDED)
    thorough = chk.tier == "thorough"
    r = C.rng("c12")
    n_expr = 3600 if thorough else 400
    n_tpl = 2600 if thorough else 330

    # ---- expression level: correspondence A, B, C
    items: list[dict[str, Any]] = []
    exprs: list[tuple[str, str]] = list(EXPR_CORPUS)
    for _ in range(n_expr):
        kind = r.choice(["fexpr", "fexpr", "fexpr", "bool", "bool", "loop"])
        if kind == "fexpr":
            exprs.append((kind, gen_fexpr_src(r)))
        elif kind == "bool":
            exprs.append((kind, gen_bool_src(r, r.choice([1, 2, 3, 4, 4, 5, 6]))))
        else:
            exprs.append((kind, gen_loop_src(r, cols=True)))
    dist: dict[str, int] = {}
    nontrivial: set[tuple[str, str]] = set()
    n_unsupported = n_parse_err = n_mut = 0
    for kind, src in exprs:
        cs = expr_cases(kind, src)
        if not cs:
            n_unsupported += 1
            continue
        items += cs
        rp = cs[0]["replay"]
        if "ast" in rp:
            fs = features(rp["ast"], rp["str"])
            for f in fs:
                dist[f] = dist.get(f, 0) + 1
            if fs:
                nontrivial.add((kind, rp["str"]))
        else:
            n_parse_err += 1
        if r.random() < 0.3:
            try:
                c = parse_case(kind, mutate_tokens(r, lex_expr(kind, src)), "C parse(mutated tokens)")
            except Exception:  # noqa: BLE001
                c = None
            if c:
                items.append(c)
                n_mut += 1

    # ---- whole templates: the direct oracle and correspondence D
    envs = tag_envs()
    tpls: list[tuple[bool, str]] = [(True, s) for s in TEMPLATE_CORPUS]
    for _ in range(n_tpl):
        shop = r.random() < 0.3
        tpls.append((shop, gen_template(r, shopify=shop)))
    t_ok = t_noparse = t_unmodelled = t_meta = t_meta_used = t_deep_not = t_hist = t_hist_quote = 0
    outcomes = {"output": 0, "error": 0}
    tpl_nontrivial: set[str] = set()
    tpl_samples: list[dict[str, Any]] = []
    for shop, src in tpls:
        env = envs[shop]
        datas = data_sets(r)
        res = oracle(env, src, datas)
        if res is None:
            t_noparse += 1
            continue
        sig, what, info = res
        t = env.from_string(src)
        try:
            d_items = dump_nodes(t.nodes)
        except Unsupported:
            d_items = None
        if sig:
            km = known_mechanism(d_items) if d_items is not None else None
            chk.finding(km or sig, what + (": " + info.get("error", "") if info.get("error") else ""),
                        {"shopify_environment": shop, **info, "how": "harness/c12.py oracle(env, source, data)"})
            continue
        texts = literal_texts(t)
        if texts:
            h = history_oracle(env, envs[not shop], src, info["str"], texts)
            if h:
                chk.finding(h[0], h[1], {**h[2], "how": "harness/c12.py history_oracle"})
                continue
            t_hist += 1
            t_hist_quote += any(("'" in x) != ('"' in x) for x in texts)
        pm = pickle_meta_oracle(shop, src, t_ok % 4)
        if pm is not None and pm[0]:
            chk.finding(pm[0], pm[1], {"shopify_environment": shop, **pm[2],
                                       "how": "harness/c12.py pickle_meta_oracle(shopify, source, variant)"})
            continue
        if pm is not None:
            t_meta += 1
            # did overlay data / template globals decide the output?
            if pm[2]["outs"][0] != info["outs"][0] and pm[2]["outs"][0].startswith("="):
                t_meta_used += 1
        t_ok += 1
        if d_items is not None and deep_not_in_left(d_items):
            t_deep_not += 1
        for o in info["outs"]:
            outcomes["error" if o.startswith("!") else "output"] += 1
        if d_items is None:
            t_unmodelled += 1
        c = template_case(t, src)
        if c:
            items.append(c)
        if len(d_items or []) >= 2 and any(o.startswith("=") and len(o) > 1 for o in info["outs"]):
            tpl_nontrivial.add(info["str"])
            if len(tpl_samples) < 3 and len(src) < 260:
                tpl_samples.append({"source": src, "str": info["str"], "outputs": info["outs"][:2]})

    # ---- known findings: re-observe the recorded witnesses
    # ---- empty branches: the tag of a content-free branch must survive str()
    eb = empty_branch_templates(r, 24 if thorough else 4)
    eb_ok = eb_trim = 0
    for src, datas in eb:
        res = oracle(envs[False], src, datas)
        if res is None:
            chk.notes.append("empty-branch template does not parse: " + repr(src)[:120])
            continue
        sig, what, info = res
        if sig:
            chk.finding(sig, what + " (empty-branch family)",
                        {**info, "how": "harness/c12.py empty_branch_templates + oracle"})
            continue
        eb_ok += 1
        c = template_case(envs[False].from_string(src), src)
        if c:
            items.append(c)
        # did whitespace control of a branch tag matter? (some output lacks blanks that the source has)
        if len({o for o in info["outs"]}) > 1:
            eb_trim += 1

    special = special_observations(chk, envs)

    for sig, src, what in KNOWN_WITNESSES:
        res = oracle(envs[True], src, data_sets(r))
        if res is not None and res[0]:
            chk.finding(sig, f"{what} [{res[0]}: {src} -> {res[2].get('str')}]", {"witness": src, **res[2]})

    C.correspond(chk, "c12", IMPORTS, "", items, what="Printer (str / lex / parse)", shard=40)
    C.proofs_verdict(chk, proofs_ok)

    chk.coverage.update({
        "evaluations": len(exprs) + len(tpls) + len(eb),
        "distinct_nontrivial": len(nontrivial) + len(tpl_nontrivial),
        "rule": ("expression sources (filtered/ternary, Boolean, loop expressions) generated from a grammar with "
                 "random layout (quote kind, escapes, bracket vs dot segments, redundant or minimal parentheses, "
                 "`<>`, `=` vs `:`, trailing commas, option order) over names that include every reserved word, "
                 "plus a fixed corpus of past defects; each is lexed and parsed by liquid2, printed with str(), "
                 "lexed and parsed again, and every step is compared with Kernels/Printer.v (a third also with a "
                 "mutated token stream, for the error paths). Whole templates over every built-in tag, the Shopify "
                 "tablerow tag, all comment kinds, raw, {% liquid %} and all whitespace-control markers go through "
                 "the direct oracle (reparse, 4 data sets, fixpoint, tree equality incl. the statements of {% liquid %}, pickle; "
                 "and pickle of the same template carrying overlay data, template globals, name, path and an uptodate "
                 "callable — built by from_string or by a loader with front matter — comparing every slot and the "
                 "output on data where names resolve only through overlay data / globals) and the markup-level "
                 "text comparison. Non-trivial = distinct printed expressions that use at least one printer "
                 "mechanism (escape, bracket segment, grouping, lambda, keyword argument, ternary, range, array, "
                 "number) + distinct printed templates with >= 2 markup items that produced output."),
        "samples": [{"kind": it["replay"].get("kind"), "source": it["replay"].get("source"),
                     "str": it["replay"].get("str")} for it in items[len(EXPR_CORPUS)::max(1, len(items) // 4)][:4]]
                   + tpl_samples,
        "distribution": {"expression sources": len(exprs), "not lexable or outside the model": n_unsupported,
                         "rejected by the parser (error class compared)": n_parse_err,
                         "mutated token streams": n_mut, "mechanisms": dict(sorted(dist.items())),
                         "templates": len(tpls), "templates not parseable (skipped)": t_noparse,
                         "templates passing the oracle": t_ok,
                         "empty-branch templates (if/unless/case/for with each subset of branches empty, "
                         "markers on branch tags) passing the oracle": eb_ok,
                         "... whose output differs between the data sets selecting different branches": eb_trim,
                         "templates with a `not` >= 2 infix levels down the right spine of a left operand": t_deep_not,
                         "templates re-serialised after poisoning templates with the same literal texts": t_hist,
                         "... with a literal text that has exactly one kind of quote": t_hist_quote,
                         "templates pickled with overlay data, globals, name, path, uptodate": t_meta,
                         "... whose output on empty data depends on overlay data / template globals": t_meta_used,
                         "templates with a node outside the markup model": t_unmodelled,
                         "render outcomes": outcomes, **special},
        "exhaustive": False,
        "tier_proved": "kernel (expression printers and parsers over tokens); markup level, lexing of printed "
                       "text, rendering and pickling by correspondence and oracle only (C12 is partial)",
    })
    chk.assumptions += [
        "CPython's str.isprintable is an abstract predicate in the theorems (they hold for every predicate)",
        "a float value is represented by its repr; float(repr(x)) == x is CPython's",
        "the lexer's tokenisation of printed text is tied by comparison on the generated cases, not proved",
        "wf_* guards: strings without code points below 8 or lone surrogates, integers that survive "
        "to_int(float()), floats other than nan (no literal denotes it), ranges bounded as accept_range "
        "admits, lambdas with at least one parameter (exactly one after a keyword)",
        "template strings and the token printer of {% liquid %} are outside the Coq model (oracle only)",
    ]
