"""Shared by harness/c17.py and harness/c02.py: run the real lexer, turn its
complete outcome into a Coq term of the model's token types
(coq/theories/Kernels/Lex.v), and evaluate the C17 statements directly on the
Python tokens (the oracle).

The token -> term conversion is *strict*: every field of every token class is
either embedded in the term or checked here (class, `type_`, `source`,
`name == 'liquid'` ...); anything the model's types cannot express raises
Unrepresentable and is reported as a disagreement.
"""

from __future__ import annotations

from typing import Any

from . import common as C

KINDS = {
    "WORD": "KWord", "TRUE": "KTrue", "FALSE": "KFalse", "AND_WORD": "KAnd", "OR_WORD": "KOr",
    "IN": "KIn", "NOT_WORD": "KNot", "CONTAINS": "KContains", "NULL": "KNull", "IF": "KIf",
    "ELSE": "KElse", "WITH": "KWith", "REQUIRED": "KRequired", "AS": "KAs", "FOR": "KFor",
    "FLOAT": "KFloat", "INT": "KInt", "GE": "KGe", "LE": "KLe", "EQ": "KEq", "NE": "KNe",
    "GT": "KGt", "LT": "KLt", "DOUBLE_DOT": "KDoubleDot", "DOUBLE_PIPE": "KDoublePipe",
    "ASSIGN": "KAssign", "LPAREN": "KLParen", "RPAREN": "KRParen", "COLON": "KColon",
    "COMMA": "KComma", "PIPE": "KPipe", "EXCLAIM": "KExclaim", "QUESTION": "KQuestion",
    "ARROW": "KArrow", "SINGLE_QUOTE_STRING": "KSingleQuoteString",
    "DOUBLE_QUOTE_STRING": "KDoubleQuoteString",
}
WC = {"DEFAULT": "WDefault", "MINUS": "WMinus", "PLUS": "WPlus", "TILDE": "WTilde"}
PYKINDS = {"IndexError", "ValueError", "KeyError", "TypeError", "OverflowError",
           "ZeroDivisionError", "AssertionError", "OSError", "AttributeError",
           "RecursionError", "UnicodeError"}


class Unrepresentable(Exception):
    pass


_envs: dict[bool, Any] = {}


def env_for(shorthand: bool) -> Any:
    from liquid2 import Environment

    if shorthand not in _envs:
        class E(Environment):
            shorthand_indexes = shorthand
        _envs[shorthand] = E()
    return _envs[shorthand]


def outcome(src: str, shorthand: bool = False) -> tuple:
    """('ok', tokens) | ('lerr', class name, index|None, exc) | ('pyexc', class name, where)."""
    import liquid2
    from liquid2.exceptions import LiquidError

    try:
        return ("ok", liquid2.tokenize(env_for(shorthand), src))
    except LiquidError as e:
        tok = e.token
        return ("lerr", type(e).__name__, None if tok is None else tok.start, e)
    except Exception as e:  # noqa: BLE001
        return ("pyexc", type(e).__name__, innermost(e))


UTILITY_MODULES = ("limits", "filter", "stringify", "undefined", "utils.")


def innermost(e: BaseException) -> str:
    """Innermost liquid2 function on the traceback, as `module.function`; when
    that is a shared helper (limits.to_int, filter.num_arg ...) its liquid2
    caller is appended (`limits.to_int <- builtin.tags.x.f`) so that different
    mechanisms reaching the same helper have different signatures."""
    tb = e.__traceback__
    frames = []
    while tb is not None:
        fn = tb.tb_frame.f_code.co_filename
        if "/liquid2/" in fn:
            mod = fn.split("/liquid2/")[-1][:-3].replace("/", ".")
            frames.append(f"{mod}.{tb.tb_frame.f_code.co_name}")
        tb = tb.tb_next
    if not frames:
        return "?"
    where = frames[-1]
    if where.startswith(UTILITY_MODULES):
        callers = [f for f in frames[:-1] if not f.startswith(UTILITY_MODULES)]
        if callers:
            where += " <- " + callers[-1]
    return where


# ---------------------------------------------------------------- Coq terms


def sx(text: str, src: str, lo: int = 0) -> str:
    """A Coq term for `text`: a slice of the source `s` when it is one."""
    if text == "":
        return "([]:str)"
    i = src.find(text, lo)
    if i < 0:
        i = src.find(text)
    if i >= 0 and len(text) > 2:
        return f"(sub s {i} {i + len(text)})"
    return C.cstr(text)


def _wc(w: Any) -> str:
    return WC[w.name]


def etok_term(t: Any, src: str) -> str:
    from liquid2 import token as T

    if t.source is not src and t.source != src:
        raise Unrepresentable("token.source differs from the source")
    if type(t) is T.Token:
        k = KINDS.get(t.type_.name)
        if k is None:
            raise Unrepresentable(f"Token of type {t.type_.name}")
        return f"ETok {k} {sx(t.value, src, max(t.index, 0))} {nat(t.index)}"
    if type(t) is T.PathToken:
        if t.type_.name != "PATH":
            raise Unrepresentable("PathToken.type_")
        segs = []
        for p in t.path:
            if isinstance(p, bool):
                raise Unrepresentable("bool path segment")
            if isinstance(p, int):
                segs.append(f"ESegInt {C.cZ(p)}")
            elif isinstance(p, str):
                segs.append(f"ESegStr {sx(p, src, max(t.start, 0))}")
            else:
                segs.append(etok_term(p, src))
        return f"EPath {C.clist(segs, 'etok')} {nat(t.start)} {C.cZ(t.stop)}"
    if type(t) is T.TemplateStringToken:
        n = t.type_.name
        if n not in ("SINGLE_QUOTE_TEMPLATE_STRING", "DOUBLE_QUOTE_TEMPLATE_STRING"):
            raise Unrepresentable("TemplateStringToken.type_")
        parts = []
        for p in t.template:
            if type(p) is T.OutputToken:
                if p.type_.name != "OUTPUT" or [w.name for w in p.wc] != ["DEFAULT", "DEFAULT"]:
                    raise Unrepresentable("template string output token")
                if p.source != src:
                    raise Unrepresentable("token.source")
                parts.append(f"EOut {nat(p.start)} {nat(p.stop)} {C.clist((etok_term(e, src) for e in p.expression), 'etok')}")
            elif type(p) is T.Token:
                parts.append(etok_term(p, src))
            else:
                raise Unrepresentable("template string part " + type(p).__name__)
        dq = "true" if n.startswith("DOUBLE") else "false"
        return f"ETemplate {dq} {C.clist(parts, 'etok')} {nat(t.start)} {nat(t.stop)}"
    if type(t) is T.RangeToken:
        if t.type_.name != "RANGE":
            raise Unrepresentable("RangeToken.type_")
        return f"ERange ({etok_term(t.range_start, src)}) ({etok_term(t.range_stop, src)}) {nat(t.start)} {nat(t.stop)}"
    raise Unrepresentable("expression token " + type(t).__name__)


def nat(n: int) -> str:
    if not isinstance(n, int) or isinstance(n, bool) or n < 0:
        raise Unrepresentable(f"position {n!r}")
    return str(n)


def _elist(expr: list, src: str) -> str:
    return C.clist((etok_term(e, src) for e in expr), "etok")


def ltok_term(t: Any, src: str) -> str:
    from liquid2 import token as T

    if t.source != src:
        raise Unrepresentable("token.source")
    if type(t) is T.TagToken:
        if t.type_.name != "TAG" or [w.name for w in t.wc] != ["DEFAULT", "DEFAULT"]:
            raise Unrepresentable("line statement tag token")
        return f"LTag {nat(t.start)} {nat(t.stop)} {sx(t.name, src, t.start)} {_elist(t.expression, src)}"
    if type(t) in (T.CommentToken, T.BlockCommentToken):
        if t.type_.name != "COMMENT" or [w.name for w in t.wc] != ["DEFAULT", "DEFAULT"]:
            raise Unrepresentable("line statement comment token")
        cls = "CComment" if type(t) is T.CommentToken else "CBlock"
        return f"LComment {cls} {nat(t.start)} {nat(t.stop)} {sx(t.text, src, t.start)} {C.cstr(t.hashes)}"
    raise Unrepresentable("line statement " + type(t).__name__)


def mtok_term(t: Any, src: str) -> str:
    from liquid2 import token as T

    if t.source != src:
        raise Unrepresentable("token.source")
    ty = type(t)
    if ty is T.ContentToken:
        if t.type_.name != "CONTENT":
            raise Unrepresentable("ContentToken.type_")
        return f"MContent {nat(t.start)} {nat(t.stop)} {sx(t.text, src, t.start)}"
    if ty is T.RawToken:
        if t.type_.name != "RAW" or len(t.wc) != 4:
            raise Unrepresentable("RawToken")
        return (f"MRaw {nat(t.start)} {nat(t.stop)} {' '.join(_wc(w) for w in t.wc)} "
                f"{sx(t.text, src, t.start)}")
    if ty in (T.CommentToken, T.BlockCommentToken, T.InlineCommentToken):
        if t.type_.name != "COMMENT" or len(t.wc) != 2:
            raise Unrepresentable("CommentToken")
        cls = {T.CommentToken: "CComment", T.BlockCommentToken: "CBlock", T.InlineCommentToken: "CInline"}[ty]
        return (f"MComment {cls} {nat(t.start)} {nat(t.stop)} {_wc(t.wc[0])} {_wc(t.wc[1])} "
                f"{sx(t.text, src, t.start)} {C.cstr(t.hashes)}")
    if ty is T.OutputToken:
        if t.type_.name != "OUTPUT" or len(t.wc) != 2:
            raise Unrepresentable("OutputToken")
        return f"MOutput {nat(t.start)} {nat(t.stop)} {_wc(t.wc[0])} {_wc(t.wc[1])} {_elist(t.expression, src)}"
    if ty is T.TagToken:
        if t.type_.name != "TAG" or len(t.wc) != 2:
            raise Unrepresentable("TagToken")
        return (f"MTag {nat(t.start)} {nat(t.stop)} {_wc(t.wc[0])} {_wc(t.wc[1])} "
                f"{sx(t.name, src, t.start)} {_elist(t.expression, src)}")
    if ty is T.LinesToken:
        if t.type_.name != "LINES" or len(t.wc) != 2:
            raise Unrepresentable("LinesToken")
        return (f"MLines {nat(t.start)} {nat(t.stop)} {_wc(t.wc[0])} {_wc(t.wc[1])} "
                f"{sx(t.name, src, t.start)} {C.clist((ltok_term(x, src) for x in t.statements), 'ltok')} "
                f"{C.clist((sx(w, src, t.start) for w in t.whitespace), 'str')}")
    raise Unrepresentable("markup token " + ty.__name__)


def outcome_term(out: tuple, src: str) -> str:
    """The Coq term of type `res (list mtok)` equal to the implementation's outcome."""
    if out[0] == "ok":
        return "(Ok " + C.clist((mtok_term(t, src) for t in out[1]), "mtok") + ")"
    if out[0] == "lerr":
        cls = out[1] if out[1] == "LiquidSyntaxError" else "OtherLiquidError"
        pos = C.copt(C.cZ(out[2]) if out[2] is not None else None, "Z")
        return f"(LErr {cls} {pos})"
    k = out[1] if out[1] in PYKINDS else "OtherPyError"
    return f"(PyExc {k})"


def outcome_json(out: tuple) -> Any:
    if out[0] == "ok":
        return ["ok", [dump(t) for t in out[1]]]
    if out[0] == "lerr":
        return ["lerr", out[1], out[2], str(out[3].args[0]) if out[3].args else ""]
    return list(out)


def dump(t: Any) -> Any:
    from liquid2 import token as T

    n = type(t).__name__
    if isinstance(t, T.Token):
        return [t.type_.name, t.value, t.index]
    if isinstance(t, T.PathToken):
        return ["PATH", [dump(p) if isinstance(p, T.PathToken) else p for p in t.path], t.start, t.stop]
    if isinstance(t, T.TemplateStringToken):
        return [t.type_.name, [dump(p) for p in t.template], t.start, t.stop]
    if isinstance(t, T.RangeToken):
        return ["RANGE", dump(t.range_start), dump(t.range_stop), t.start, t.stop]
    if isinstance(t, T.OutputToken):
        return ["OUTPUT", t.start, t.stop, [w.name for w in t.wc], [dump(e) for e in t.expression]]
    if isinstance(t, T.LinesToken):
        return ["LINES", t.start, t.stop, [w.name for w in t.wc], t.name,
                [dump(e) for e in t.statements], t.whitespace]
    if isinstance(t, T.TagToken):
        return ["TAG", t.start, t.stop, [w.name for w in t.wc], t.name, [dump(e) for e in t.expression]]
    if isinstance(t, T.CommentToken):
        return [n, t.start, t.stop, [w.name for w in t.wc], t.text, t.hashes]
    if isinstance(t, T.RawToken):
        return ["RAW", t.start, t.stop, [w.name for w in t.wc], t.text]
    if isinstance(t, T.ContentToken):
        return ["CONTENT", t.start, t.stop, t.text]
    return ["?", n]


# ---------------------------------------------------------------- oracle


def _espan(e: Any) -> tuple[int, int]:
    return e.start, e.stop


def _check_expr(expr: list, lo: int, hi: int, src: str, what: str, gaps: bool = True) -> str | None:
    """Expression tokens nested in [lo, hi], in order, each within the source;
    plain tokens spell the text of their span; children recursively."""
    from liquid2 import token as T

    prev = lo
    for n, e in enumerate(expr):
        a, b = _espan(e)
        if gaps and isinstance(e, T.PathToken):
            # the path token covers all of the text it was scanned from: what follows
            # it up to the next token is only whitespace, a quote or closing markup
            nb = expr[n + 1].start if n + 1 < len(expr) else hi
            gap = src[b:max(b, nb)]
            if gap.strip(" \t\r\n'\"+-~%}"):
                return (f"text: {what}: path token {dump(e)} stops at {b}, but the path text continues "
                        f"({gap!r} before the next token)")
        if not (lo <= a and a <= b and b <= hi):
            return f"nesting: {what}: token {dump(e)} not inside [{lo},{hi}]"
        if a < prev:
            return f"order: {what}: token {dump(e)} starts before the previous one ends ({prev})"
        prev = b
        if isinstance(e, T.Token):
            if src[e.index:e.index + len(e.value)] != e.value:
                return f"text: {what}: token {dump(e)} does not spell source[{a}:{b}]"
        elif isinstance(e, T.PathToken):
            r = _check_path(e, src, what)
            if r:
                return r
        elif isinstance(e, T.TemplateStringToken):
            # like a plain string token, the span is the text between the quotes
            q = src[e.start - 1:e.start]
            if q not in ("'", '"') or src[e.stop:e.stop + 1] != q:
                return (f"text: {what} template string [{e.start},{e.stop}) = {src[e.start:e.stop][:30]!r} is not the text between "
                        f"its quotes ({src[max(e.start - 1, 0):e.stop + 1][:32]!r})")
            parts = e.template
            r = _check_expr([p for p in parts], a, b, src, what + " template string")
            if r:
                return r
            for p in parts:
                if isinstance(p, T.OutputToken):
                    r = _check_expr(p.expression, p.start, p.stop, src, what + " ${}")
                    if r:
                        return r
        elif isinstance(e, T.RangeToken):
            r = _check_expr([e.range_start, e.range_stop], a, b, src, what + " range", gaps=False)  # ".." and ")" follow
            if r:
                return r
    return None


def _check_path(p: Any, src: str, what: str) -> str | None:
    from liquid2 import token as T

    prev = p.start
    for seg in p.path:
        if isinstance(seg, T.PathToken):
            if not (p.start <= seg.start <= seg.stop <= p.stop):
                return f"nesting: {what}: nested path {dump(seg)} not inside {dump(p)}"
            if seg.start < prev:
                return f"order: {what}: nested path {dump(seg)} out of order"
            prev = seg.stop
            r = _check_path(seg, src, what)
            if r:
                return r
    return None


def oracle(out: tuple, src: str) -> str | None:
    """C17 evaluated on the implementation's outcome. Returns 'mechanism: text'
    of the first failure."""
    from liquid2 import token as T

    n = len(src)
    if out[0] == "lerr":
        i = out[2]
        if i is not None and not (0 <= i <= n):
            return f"error-position: error index {i} outside [0,{n}]"
        return None
    if out[0] == "pyexc":
        return None  # C02's business
    toks = out[1]
    at = 0
    for t in toks:
        if t.start != at:
            return f"tiling: token {dump(t)[:3]} starts at {t.start}, previous stop is {at}"
        if not t.start < t.stop:
            return f"tiling: empty token {dump(t)[:3]}"
        at = t.stop
        span = src[t.start:t.stop]
        if isinstance(t, T.ContentToken):
            if t.text != span:
                return f"text: content text != source[{t.start}:{t.stop}]"
        elif isinstance(t, T.RawToken):
            if not (span.startswith("{%") and span.endswith("%}") and t.text in span):
                return "text: raw token"
        elif isinstance(t, T.CommentToken):
            ok = (span.startswith("{%") and span.endswith("%}")) if isinstance(
                t, (T.BlockCommentToken, T.InlineCommentToken)) else (
                span.startswith("{" + t.hashes) and span.endswith(t.hashes + "}") and len(t.hashes) >= 1)
            if not ok or t.text not in span:
                return f"text: comment token {dump(t)}"
            if type(t) is T.CommentToken and str(t) != span:
                return f"text: comment token {dump(t)} does not spell its span {span!r}"
        elif isinstance(t, T.OutputToken):
            if not (span.startswith("{{") and span.endswith("}}")):
                return "text: output token delimiters"
            r = _check_expr(t.expression, t.start + 2, t.stop - 2, src, "output")
            if r:
                return r
        elif isinstance(t, T.LinesToken):
            if not (span.startswith("{%") and span.endswith("%}")):
                return "text: liquid tag delimiters"
            prev = t.start
            for st in t.statements:
                if not (t.start + 2 <= st.start <= st.stop <= t.stop - 2) or st.start < prev:
                    return (f"nesting: line statement {dump(st)[:3]} not in order strictly between the delimiters of "
                            f"[{t.start},{t.stop}] (it spans {src[st.start:st.stop][-12:]!r})")
                prev = st.stop
                if isinstance(st, T.TagToken):
                    if src[st.start:st.start + len(st.name)] != st.name:
                        return "text: line statement name"
                    r = _check_expr(st.expression, st.start, st.stop, src, "line statement")
                    if r:
                        return r
        elif isinstance(t, T.TagToken):
            if not (span.startswith("{%") and span.endswith("%}") and t.name in span):
                return "text: tag token delimiters"
            r = _check_expr(t.expression, t.start + 2, t.stop - 2, src, "tag")
            if r:
                return r
    if at != n:
        return f"tiling: last token stops at {at}, source length {n}"
    return None


def ast_positions(src: str) -> tuple[int, str | None]:
    """Parse `src` and check the position of every syntax-tree node and
    expression: (number of nodes visited, first failure or None). Sources that
    do not parse are skipped (0, None)."""
    from liquid2 import Environment
    from liquid2.ast import Node
    from liquid2.exceptions import LiquidError
    from liquid2.expression import Expression

    try:
        t = env_for(False).from_string(src)
    except LiquidError:
        return 0, None
    except Exception:  # noqa: BLE001  (C02's business)
        return 0, None
    n = len(src)
    count = 0
    fail: str | None = None

    def fields(o: Any) -> dict:
        d = {}
        if hasattr(o, "__dict__"):
            d.update(vars(o))
        for c in type(o).__mro__:
            for a in getattr(c, "__slots__", ()) or ():
                if isinstance(a, str) and hasattr(o, a):
                    d[a] = getattr(o, a)
        return d

    def walk(o: Any, depth: int, inside: tuple[int, int] | None = None) -> None:
        nonlocal count, fail
        if depth > 60 or fail:
            return
        if isinstance(o, (Node, Expression)):
            count += 1
            tok = getattr(o, "token", None)
            if tok is not None:
                a, b = tok.start, tok.stop
                if getattr(tok, "source", src) == src and not (0 <= a < n and a <= b <= n):
                    fail = f"ast-position: {type(o).__name__}.token spans [{a},{b}) outside the source of length {n}"
                    return
                if inside is not None and getattr(tok, "source", src) == src and not (inside[0] <= a < inside[1]):
                    fail = (f"ast-position: {type(o).__name__}.token starts at {a}, outside its own "
                            f"liquid tag [{inside[0]},{inside[1]})")
                    return
                if type(o).__name__ == "LiquidNode" and getattr(tok, "source", src) == src:
                    inside = (a, b)   # line statements lie inside their {% liquid %} tag
            for v in fields(o).values():
                walk(v, depth + 1, inside)
            return
        if isinstance(o, (list, tuple)):
            for v in o:
                walk(v, depth + 1, inside)
        elif isinstance(o, dict):
            for v in o.values():
                walk(v, depth + 1, inside)
        elif (hasattr(o, "__dict__") and type(o).__module__.startswith("liquid2")
              and not isinstance(o, Environment) and type(o).__name__ != "Template"):
            for v in fields(o).values():
                walk(v, depth + 1, inside)

    walk(t.nodes, 0)
    return count, fail


# ---------------------------------------------------------------- error locations

_BOUNDARY = None


def expected_location(src: str, index: int) -> tuple[int, int] | None:
    """(line, column) of `index`, computed independently of liquid2 by counting
    line boundaries before it (for a source whose only boundary is "\n":
    line = src.count("\n", 0, index) + 1, column = index - last newline - 1).
    None when the position is at/after the end of a source that ends with a
    boundary (the formatter then reports the end of the last line)."""
    import re

    global _BOUNDARY
    if _BOUNDARY is None:
        _BOUNDARY = re.compile("\r\n|[\n\r\x0b\x0c\x1c\x1d\x1e\x85\u2028\u2029]")
    if index >= len(src):
        if not src or _BOUNDARY.search(src[-1]):
            return None
        index = len(src)
    line, last = 1, 0
    for m in _BOUNDARY.finditer(src):
        if m.end() <= index:
            line += 1
            last = m.end()
        else:
            break
    return line, index - last


def location_check(e: Any, src: str) -> str | None:
    """The line and column that a LiquidError prints (context(), detailed_message(),
    str()) are the line and column of its token's start. Returns
    'mechanism: text' of the first failure."""
    import re

    tok = getattr(e, "token", None)
    # "..., found KIND": the error points at the token it describes, not at its neighbour
    first = str(e.args[0]) if getattr(e, "args", None) else ""
    m0 = re.search(r"found ([A-Z_]+)$", first.split("\n")[0])
    kind = getattr(getattr(tok, "type_", None), "name", None)
    if m0 and kind and type(tok).__name__ == "Token" and kind != m0.group(1):
        return (f"error-location: the message says 'found {m0.group(1)}' but the error carries the {kind} token"
                + (f" at {tok.start}" if tok.start >= 0 else " (no position)"))
    if tok is None or tok.start < 0 or getattr(tok, "source", None) != src:
        return None
    # "... at index N" (escape sequences in string literals): N is an offset into the source, at the escape
    m1 = re.search(r" at index (\d+)$", first.split("\n")[0])
    if m1 and "\\" not in src[max(int(m1.group(1)) - 1, 0):int(m1.group(1)) + 1]:     # the backslash or the letter after it
        n1 = int(m1.group(1))
        return (f"escape-index: the message says 'at index {n1}' but source[{n1}] is {src[n1:n1 + 1]!r}, not in the "
                f"escape sequence (at {[i for i in range(len(src)) if src.startswith(chr(92) + 'u', i)][-1:]})")
    # a lexer error token spans the text it holds, inside the source
    if type(tok).__name__ == "ErrorToken":
        if not (0 <= tok.start <= tok.stop <= len(src)):
            return f"error-position: error token [{tok.start}:{tok.stop}) outside the source ({len(src)} characters)"
        if src[tok.start:tok.stop] != tok.value:
            return f"error-position: error token [{tok.start}:{tok.stop}) spans {src[tok.start:tok.stop][:20]!r}, its value is {tok.value[:20]!r}"
    exp = expected_location(src, tok.start)
    try:
        ctx = e.context()
        msg = e.detailed_message()
        text = str(e)
    except Exception as e2:  # noqa: BLE001
        return f"error-format: formatting {type(e).__name__} raised {type(e2).__name__}"
    if ctx is None:
        return f"error-location: context() is None for a token at {tok.start}"
    if exp is None:
        return None
    if (ctx[0], ctx[1]) != exp:
        return (f"error-location: context() says line {ctx[0]} column {ctx[1]}, "
                f"token.start={tok.start} is line {exp[0]} column {exp[1]}")
    lines = src[: tok.start].count("\n")
    cur = ctx[3]
    real = src.split("\n")[lines] if not re.search("[\r\x0b\x0c\x1c\x1d\x1e\x85\u2028\u2029]", src) else None
    if real is not None and cur != real.rstrip():
        return f"error-location: context() current line {cur!r} is not source line {exp[0]} {real.rstrip()!r}"
    ml = msg.split("\n")
    if text != msg:
        return "error-location: str(exc) differs from detailed_message()"
    if len(ml) < 5:
        return f"error-location: detailed_message() has {len(ml)} lines"
    m = re.search(r"(\d+):(\d+)$", ml[1])
    if not m or (int(m.group(1)), int(m.group(2))) != exp:
        return (f"error-location: detailed_message() header {ml[1]!r} does not end with "
                f"{exp[0]}:{exp[1]} (token.start={tok.start})")
    if not ml[3].startswith(f"{exp[0]} | "):
        return f"error-location: detailed_message() source line {ml[3]!r} is not numbered {exp[0]}"
    if real is not None and ml[3] != f"{exp[0]} | {real.rstrip()}":
        return f"error-location: detailed_message() shows {ml[3]!r}, source line {exp[0]} is {real.rstrip()!r}"
    # the pointer line: column spaces, then carets
    pm = re.match(r"^\s*\| ( *)(\^+)", ml[4])
    if pm and not isinstance(tok, tuple) and type(tok).__name__ in ("Token", "ErrorToken", "TagToken", "PathToken"):
        if len(pm.group(1)) != exp[1]:
            return (f"error-location: pointer is under column {len(pm.group(1))}, "
                    f"token starts at column {exp[1]}")
    return None


# ---------------------------------------------------------------- variable spans and undefined-variable locations


class _Universal(dict):
    """A mapping in which every look-up succeeds (and yields the mapping itself)."""

    def __missing__(self, k: Any) -> Any:
        return self

    def __hash__(self) -> int:  # type: ignore[override]
        return 1

    def __eq__(self, o: object) -> bool:
        return self is o


_strict_envs: dict[bool, Any] = {}


def strict_env(shorthand: bool = False) -> Any:
    if shorthand not in _strict_envs:
        from liquid2 import Environment, StrictUndefined

        class E(Environment):
            shorthand_indexes = shorthand
        _strict_envs[shorthand] = E(undefined=StrictUndefined)
    return _strict_envs[shorthand]


def _all_variables(an: Any) -> list[tuple[str, Any]]:
    out = []
    for group in (an.variables, an.globals, an.locals):
        for name, vs in group.items():
            for v in vs:
                out.append((name, v))
    return out


def variable_spans(src: str, shorthand: bool = False) -> tuple[int, str | None]:
    """For every variable that static analysis reports for `src` (analyze and
    analyze_async): source[span] spells that variable's own path - re-parsing the
    slice alone gives a path with the same segments that spans the whole slice -
    and starts with the variable's root. (count, first failure)."""
    import asyncio

    from liquid2.exceptions import LiquidError

    env = env_for(shorthand)
    try:
        t = env.from_string(src)
        an = t.analyze(include_partials=False)
    except LiquidError:
        return 0, None
    except Exception:  # noqa: BLE001
        return 0, None
    try:
        loop = asyncio.new_event_loop()
        try:
            an2 = loop.run_until_complete(t.analyze_async(include_partials=False))
        finally:
            loop.close()
    except Exception as e:  # noqa: BLE001
        return 0, f"variable-span: analyze_async raised {type(e).__name__} where analyze did not"
    a1 = sorted((n, v.span.start, v.span.end, repr(v.segments)) for n, v in _all_variables(an))
    a2 = sorted((n, v.span.start, v.span.end, repr(v.segments)) for n, v in _all_variables(an2))
    if a1 != a2:
        return len(a1), "variable-span: analyze_async reports other variable spans than analyze"
    count = 0
    for name, v in _all_variables(an):
        sp = v.span
        if sp.template_name not in ("", None) and sp.template_name != t.name:
            continue
        count += 1
        a, b = sp.start, sp.end
        if not (0 <= a < b <= len(src)):
            return count, f"variable-span: {v} has span [{a},{b}) outside the source of length {len(src)}"
        text = src[a:b]
        root = v.segments[0]
        if isinstance(root, str) and not (text.startswith(root) or text[0] == "["):
            return count, f"variable-span: span [{a},{b}) of {v} is {text!r}, which does not start with its root {root!r}"
        try:
            an3 = env.from_string("{{ " + text + " }}").analyze(include_partials=False)
        except Exception:  # noqa: BLE001
            return count, f"variable-span: span [{a},{b}) of {v} is {text!r}, which is not a variable path"
        whole = [w for _n, w in _all_variables(an3) if w.span.start == 3 and w.span.end == 3 + len(text)]
        if text == str(v):
            continue    # e.g. a keyword used as a range bound is reported as the variable of that name
        if not whole or repr(whole[0].segments) != repr(v.segments):
            return count, (f"variable-span: span [{a},{b}) of {v} is {text!r}, which reads as "
                           f"{[str(w) for w in whole] or 'no single path'}, not as {v}")
    return count, None


def nested_path_check(src: str, nodes: list[dict], must_raise: bool, shorthand: bool = False) -> tuple[int, str | None]:
    """`src` contains one generated variable path whose nested paths have known
    positions (harness/lexgen.py nested_path). (1) analyze() must report exactly
    those spans for those roots; (2) under StrictUndefined, with every root but
    one bound to a mapping in which all look-ups succeed, the UndefinedError
    (render and render_async) must carry the token of the unbound root's own
    path - its start, its text - and print that line and column."""
    import asyncio

    from liquid2.exceptions import LiquidError, UndefinedError

    env = env_for(shorthand)
    checks = 0
    try:
        an = env.from_string(src).analyze(include_partials=False)
    except Exception as e:  # noqa: BLE001
        return 0, f"variable-span: analysis of a valid generated source raised {type(e).__name__}: {src!r}"
    got = sorted((n, v.span.start, v.span.end) for n, v in _all_variables(an) if n.startswith("nv"))
    want = sorted({(nd["root"], nd["start"], nd["start"] + len(nd["text"])) for nd in nodes})
    checks += len(want)
    if sorted(set(got)) != want:
        return checks, f"variable-span: analyze() reports {sorted(set(got))} for the nested paths at {want}"
    u = _Universal()
    senv = strict_env(shorthand)
    t = senv.from_string(src)
    for nd in nodes:
        data = {o["root"]: u for o in nodes if o is not nd}
        data["a"] = "s"
        for how in ("render", "render_async"):
            err: Any = None
            try:
                if how == "render":
                    t.render(**data)
                else:
                    loop = asyncio.new_event_loop()
                    try:
                        loop.run_until_complete(t.render_async(**data))
                    finally:
                        loop.close()
            except UndefinedError as e:
                err = e
            except LiquidError as e:
                return checks, f"undefined-location: {how} raised {type(e).__name__}, not UndefinedError, for unbound {nd['root']}"
            except Exception:  # noqa: BLE001  (C02's business)
                continue
            if err is None:
                if must_raise:
                    return checks, f"undefined-location: {how} under StrictUndefined did not raise for unbound {nd['root']}"
                continue
            checks += 1
            tok = err.token
            if tok is None or tok.start != nd["start"] or src[tok.start:tok.stop] != nd["text"]:
                where = None if tok is None else (tok.start, src[tok.start:tok.stop])
                return checks, (f"undefined-location: {how}: {nd['root']!r} is unbound, its path {nd['text']!r} starts at "
                                f"{nd['start']}, the error points at {where}")
            lf = location_check(err, src)
            if lf:
                return checks, lf
    return checks, None


class KeptErrors:
    """Errors that are kept and looked at again after the same process has
    parsed other templates. An error must go on describing ITS OWN source: the
    token (source text, start, stop), str() and context() are what they were
    when it was raised, and a located token still lies in the source the error
    was raised for. (A token object shared between parses - an end-of-input
    token that a later parse writes its own position into - breaks this.)"""

    def __init__(self) -> None:
        self.items: list[tuple[Any, str, Any, str]] = []
        self.rechecked = 0

    @staticmethod
    def _snap(err: Any) -> Any:
        tok = getattr(err, "token", None)
        t = None if tok is None else (type(tok).__name__, getattr(tok, "source", None), getattr(tok, "start", None), getattr(tok, "stop", None))
        try:
            text = str(err)
        except Exception as e:  # noqa: BLE001
            text = f"<str() raised {type(e).__name__}>"
        try:
            ctx = repr(err.context())
        except Exception as e:  # noqa: BLE001
            ctx = f"<context() raised {type(e).__name__}>"
        return (t, text, ctx)

    def keep(self, err: Any, src: str, how: str) -> None:
        self.items.append((err, src, self._snap(err), how))

    def recheck(self) -> list[tuple[str, dict[str, Any]]]:
        """Failures as (text, replay); the kept errors are dropped afterwards."""
        out = []
        for err, src, snap, how in self.items:
            self.rechecked += 1
            now = self._snap(err)
            fail = None
            if now != snap:
                what = "token" if now[0] != snap[0] else ("str()" if now[1] != snap[1] else "context()")
                detail = ""
                if what == "token" and now[0] and snap[0]:
                    detail = (f": [{snap[0][2]}:{snap[0][3]}) of its own source ({len(snap[0][1] or '')} characters) became "
                              f"[{now[0][2]}:{now[0][3]}) of {'the same' if now[0][1] == snap[0][1] else 'ANOTHER'} text")
                fail = f"error-kept: the {what} of a kept {type(err).__name__} changed after other templates were parsed{detail}"
            else:
                tok = getattr(err, "token", None)
                if tok is not None and getattr(tok, "start", -1) >= 0 and getattr(tok, "source", None) == src:
                    if not (0 <= tok.start <= len(src)):
                        fail = f"error-kept: kept token starts at {tok.start}, outside its source ({len(src)})"
                    else:
                        fail = location_check(err, src)
            if fail:
                out.append((fail, {"source": src, "error": type(err).__name__, "raised_by": how,
                                   "how": "keep the error, parse / tokenize the following templates of the stream, inspect the error again"}))
        self.items = []
        return out


def program_check(templates: dict[str, str], entry: str, expect_name: str, strict: bool) -> tuple[int, str | None]:
    """Render a multi-template program (render and render_async). For the
    LiquidError it raises: the token's source is the source of the template the
    error names, the span lies inside that source, that template is the one
    that contains the failing construct, and the printed line / column / pointer
    agree with an independent line count in that source."""
    import asyncio

    from liquid2 import DictLoader, Environment, StrictUndefined
    from liquid2.exceptions import LiquidError

    env = Environment(loader=DictLoader(templates), undefined=StrictUndefined) if strict else Environment(
        loader=DictLoader(templates))
    checks = 0
    for how in ("render", "render_async"):
        err: Any = None
        try:
            t = env.get_template(entry)
            if how == "render":
                t.render()
            else:
                loop = asyncio.new_event_loop()
                try:
                    loop.run_until_complete(t.render_async())
                finally:
                    loop.close()
        except LiquidError as e:
            err = e
        except Exception:  # noqa: BLE001  (C02's business)
            continue
        if err is None:
            return checks, f"program-location: {how} of a program with a failing construct in {expect_name!r} raised nothing"
        tok = getattr(err, "token", None)
        if tok is None or tok.start < 0:
            continue
        checks += 1
        name = err.template_name
        if name not in templates:
            return checks, f"program-location: {how}: {type(err).__name__} names template {name!r}, which is not one of {sorted(templates)}"
        src = templates[name]
        if tok.source != src:
            owner = [k for k, v in templates.items() if v == tok.source]
            return checks, (f"program-location: {how}: {type(err).__name__} names template {name!r} ({len(src)} characters) but its "
                            f"token [{tok.start}:{tok.stop}) belongs to the source of {owner or 'another text'}")
        if not (0 <= tok.start <= tok.stop <= len(src)):
            return checks, f"program-location: {how}: token [{tok.start}:{tok.stop}) outside the source of {name!r} ({len(src)})"
        if name != expect_name:
            return checks, f"program-location: {how}: the failing construct is in {expect_name!r}, the error names {name!r}"
        lf = location_check(err, src)
        if lf:
            return checks, lf
    return checks, None


def extraction_check(src: str) -> tuple[int, str | None]:
    """The line number that message extraction reports for each 'M<k>' message
    is the line the message is written on (counted independently)."""
    import re

    from liquid2.exceptions import LiquidError
    from liquid2.messages import extract_from_template

    try:
        got = sorted((m.message[0], m.lineno) for m in extract_from_template(env_for(False).from_string(src)))
    except LiquidError as e:
        return 0, f"extraction-line: a generated template did not parse: {type(e).__name__}"
    except Exception:  # noqa: BLE001  (C15's business)
        return 0, None
    want = sorted((m.group(0), src.count("\n", 0, m.start()) + 1) for m in re.finditer(r"M\d+", src))
    if got != want:
        return len(want), f"extraction-line: extract_from_template reports {got}, the messages are written on {want}"
    return len(want), None


# ---------------------------------------------------------------- correspondence with one retry


def correspond(chk: Any, tag: str, imports: str, defs: str, items: list, *, what: str, shard: int) -> dict:
    """C.correspond, except that shard files that did not evaluate at all (coqc
    killed, e.g. under memory pressure - the output is empty) are evaluated a
    second time before anything is reported.  Disagreements and persistent
    build errors are reported exactly as C.correspond reports them."""
    import json
    import re
    import time

    cases = [it["case"] for it in items]
    rc = C.run_cases(tag, imports, defs, cases, shard=shard)
    for attempt in (1, 2):
        if not rc["errors"]:
            break
        failed = sorted({int(m.group(1)) for e in rc["errors"] for m in [re.match(r"s(\d+)\.v", e)] if m})
        idx = [i for k in failed for i in range(k * shard, min((k + 1) * shard, len(cases)))]
        if not idx:
            break
        time.sleep(5 * attempt)
        rc2 = C.run_cases(f"{tag}_retry{attempt}", imports, defs, [cases[i] for i in idx],
                          shard=max(20, shard // 4))
        rc = {"n": rc["n"], "bad": sorted(set(rc["bad"]) | {idx[j] for j in rc2["bad"]}),
              "errors": rc2["errors"], "wall": rc["wall"] + rc2["wall"]}
    for e in rc["errors"]:
        chk.notes.append("coq case error: " + e[:400])
    if rc["bad"]:
        ids = rc["bad"][:3]
        outs = C.eval_terms(tag, imports, defs, [items[i]["model"] for i in ids])
        for i, o in zip(ids, outs):
            chk.notes.append(f"{what}: model/implementation disagree on case #{i}: "
                             f"{json.dumps(items[i]['replay'], default=str)[:300]} model={o[:300]}")
        if not chk.violations:
            i, o = ids[0], outs[0]
            chk.finding("correspondence:" + what,
                        f"model and implementation disagree ({len(rc['bad'])} of {rc['n']} cases); no direct property failure found",
                        {"case": items[i]["replay"], "model": o, "broken": f"correspondence {what}",
                         "disagreeing_cases": rc["bad"][:50]}, no_input=True)
    elif rc["errors"] and not chk.violations:
        chk.finding("correspondence:" + what + ":build", "generated case files did not evaluate",
                    {"errors": rc["errors"][:3], "broken": f"correspondence {what} (coqc on generated cases)"},
                    no_input=True)
    chk.coverage["model_cases"] = chk.coverage.get("model_cases", 0) + rc["n"]
    chk.coverage["model_disagreements"] = chk.coverage.get("model_disagreements", 0) + len(rc["bad"])
    w = chk.coverage.setdefault("correspondence_wall_s", {})
    w[what] = round(w.get(what, 0) + rc["wall"], 1)
    return rc
