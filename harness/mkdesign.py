"""Merge design_notes/*.md and seeded/*/meta.json into DESIGN.md (run by hand)."""

from __future__ import annotations

import json
import re
from pathlib import Path

VERIF = Path(__file__).resolve().parent.parent


def main() -> None:
    p = VERIF / "DESIGN.md"
    s = p.read_text()
    notes = []
    for f in sorted((VERIF / "design_notes").glob("C*.md")):
        txt = f.read_text().strip()
        if not txt.startswith("#"):
            txt = f"### {f.stem} — as built\n\n" + txt
        # demote top-level headings so they nest under section 14
        txt = re.sub(r"^(#{1,2}) ", "### ", txt, flags=re.M)
        notes.append(txt)
    s = re.sub(r"(<!-- BEGIN design_notes[^>]*-->).*?(<!-- END design_notes -->)",
               lambda m: m.group(1) + "\n\n" + "\n\n".join(notes) + "\n\n" + m.group(2), s, flags=re.S)
    rows = ["| mutant | property | what it needs to manifest | caught by | how |", "|---|---|---|---|---|"]
    for f in sorted((VERIF / "seeded").glob("*/meta.json")):
        m = json.loads(f.read_text())
        rows.append(f"| {f.parent.name} | {m.get('property')} | {m.get('needs', '')} | {m.get('caught_by', '')} | {m.get('how_caught', '')} |")
    s = re.sub(r"(<!-- BEGIN seeded[^>]*-->).*?(<!-- END seeded -->)",
               lambda m: m.group(1) + "\n\n" + "\n".join(rows) + "\n\n" + m.group(2), s, flags=re.S)
    # summary table from the committed evidence
    srows = ["| property | theorems (all closed under the global context) | quick: evaluations | distinct non-trivial | model cases | disagreements | wall s |",
             "|---|---|---|---|---|---|---|"]
    for f in sorted((VERIF / "evidence").glob("C*.json")):
        e = json.loads(f.read_text())
        c = e.get("coverage", {})
        srows.append(f"| {e['property_id']} | {c.get('obligations')} | {c.get('evaluations')} | {c.get('distinct_nontrivial')} | "
                     f"{c.get('model_cases', '')} | {c.get('model_disagreements', '')} | {e.get('wall_s')} ({e.get('tier')}) |")
    s = re.sub(r"(<!-- BEGIN summary[^>]*-->).*?(<!-- END summary -->)",
               lambda m: m.group(1) + "\n\n" + "\n".join(srows) + "\n\n" + m.group(2), s, flags=re.S)
    # findings table
    frows = ["| property | status | signature | commit | what |", "|---|---|---|---|---|"]
    files = [VERIF / "known_findings.json"] + sorted((VERIF / "known_findings.d").glob("*.json"))
    for f in files:
        if not f.exists():
            continue
        for e in json.loads(f.read_text())["findings"]:
            what = " ".join(str(e.get("what", "")).split()).replace("|", "\\|")
            frows.append(f"| {e['property']} | {e['status']} | {e.get('signature', '')} | {e.get('commit', '')} | {what[:400]} |")
    s = re.sub(r"(<!-- BEGIN findings[^>]*-->).*?(<!-- END findings -->)",
               lambda m: m.group(1) + "\n\n" + "\n".join(frows) + "\n\n" + m.group(2), s, flags=re.S)
    p.write_text(s)


if __name__ == "__main__":
    main()
