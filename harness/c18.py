"""C18 — whitespace control changes nothing but whitespace.

Tie.  Programs (nested if/unless/for/case/capture/with blocks, outputs, echo /
assign tags, the three kinds of comment, {% liquid %} tags, raw) are generated as
token trees, printed to Liquid source with a marker assignment, and run on the
real `Environment(default_trim=...).from_string(src).render(**data)` of the
working tree.  The Coq model Kernels/Trim.v is given the *token tree the real
lexer produced* (the harness checks its printed program against
`env.tokenize(src)` token by token, and splits a content token where the lexer
did) and must reproduce exactly: the rendered output (or LiquidSyntaxError),
the (left_trim, right_trim) pair of every ContentNode of the parsed AST, and
the trimmed text of every RawNode.  `Environment.trim` is compared on its own
for every (default_trim, left, right) on generated texts, and the whitespace
set of the model against CPython's `str.isspace` / `str.strip()` for every
code point below 0x110000.

Every template is rendered through render() AND render_async(), each without
and with all resource limits set, in every configuration; the four outputs
must be identical and go through the same oracles.  The three default_trim
environments are long-lived and visited in varying orders; every program is
rendered again on them, interleaved, and must repeat its first outputs.

Direct oracle (failing-input search, on the implementation only):
  * outputs of all marker assignments x default_trim x suppress of one program
    and one data set are equal once whitespace is erased;
  * with no trimming in force (no marker or "+", default_trim "+", suppression
    off) the output is the verbatim concatenation computed by a reference
    renderer that knows nothing about trimming;
  * every ContentNode's trim pair is the pair of markers of the adjacent markup
    tokens (computed from the real token list);
  * a corpus with every built-in tag that writes text inside `{% if true %}`:
    suppression on/off may differ only in whitespace;
  * branch_corpus: the only text of a block tag is in one branch (for/else,
    elsif, else, when, case else), nested in an otherwise blank block, data
    selecting that branch: the text must survive suppression;
  * outcome class: every marker assignment of one program (including the
    markers of comment/endcomment/raw/endraw tags inside block comments) must
    lex to the printed tokens - a marker that makes a syntax error or swallows
    text is a violation;
  * the witness of content-run-split-at-final-newline (fixed by /repo 33ea620)
    is re-observed on every run.
"""

from __future__ import annotations

import asyncio
import itertools
import os
import warnings
from typing import Any, Iterator

from . import common as C

IMPORTS = "From LQ Require Import Kernels.Trim."
NEEDED = ["theories/Base/Str.v", "theories/Kernels/Trim.v", "theories/Proofs/Trim_proofs.v"]

MARKS = ["", "-", "~", "+"]                 # digit 0..3, as Trim.wc_of_digit
WC_COQ = {"": "Default", "-": "Minus", "~": "Tilde", "+": "Plus"}
DTS = ["+", "-", "~"]

WS_CHARS = [chr(c) for c in range(0x110000) if chr(c).isspace()]
WS_COMMON = [" ", " ", " ", "\n", "\n", "\t", "\r", "\r\n"]
NOT_WS = "\u200b"                            # ZERO WIDTH SPACE: not str.isspace()
WORDS = ["a", "b", "xy", "Z", "q1", "-", "~", "+", "é", "{", "}", "%", "#"]


def erase(s: str) -> str:
    """Python's own notion of whitespace (not the model's)."""
    return "".join(ch for ch in s if not ch.isspace())


# --------------------------------------------------------------------------
# token trees (Python mirror of Trim.tree)
#
# item := ("C", text) | ("L", via_tag, kind, w) | ("R", text)
#       | ("B", kind, param, body, secs)       secs := [(guard, body)]
# guard := ("cond", c) | ("when", [ints]) | ("else",)
# Marker positions are numbered in source order: 2 per leaf / tag, 4 per raw.

LEAF_KINDS = {
    # kind: (via_tag, writes)
    "out": (False, True), "liqecho": (False, True), "cmt1": (False, False),
    "cmt2": (False, False), "cmt2n": (False, False), "cmt2r": (False, False),
    "cmt3": (False, False), "liqassign": (False, False),
    "echo": (True, True), "assign": (True, False),
}


def n_positions(items: list) -> int:
    n = 0
    for it in items:
        if it[0] == "L":
            n += 2
        elif it[0] == "R":
            n += 4
        elif it[0] == "B":
            n += 4 + n_positions(it[3]) + sum(2 + n_positions(b) for _, b in it[4])
    return n


# Marker positions that exist in the source but not in the token the parser
# sees: the right marker of `{% comment %}`, the left marker of
# `{% endcomment %}`, and every marker of comment / raw tags nested inside a
# comment block.  They take every value of {none,-,~,+} too and must change
# nothing at all.
EXTRA = {"cmt2": 2, "cmt2n": 6, "cmt2r": 8}


def n_extra(items: list) -> int:
    n = 0
    for it in items:
        if it[0] == "L":
            n += EXTRA.get(it[2], 0)
        elif it[0] == "B":
            n += n_extra(it[3]) + sum(n_extra(b) for _, b in it[4])
    return n


_PAD = " "       # what stands between a marker and the markup's content: " " or "" (glued layout)


def set_glued(on: bool) -> None:
    """Layout switch of the printer: `{{- v0 -}}` or `{{-v0-}}`."""
    global _PAD
    _PAD = "" if on else " "


def leaf_src(kind: str, w: int | None, l: str, r: str, xs: Iterator[str] = iter(())) -> str:
    if kind == "out":
        return f"{{{{{l}{_PAD}v{w}{_PAD}{r}}}}}"
    if kind == "liqecho":
        return f"{{%{l}{_PAD}liquid echo v{w}{_PAD}{r}%}}"
    if kind == "cmt1":
        return f"{{#{l}{_PAD}c{_PAD}{r}#}}"
    if kind == "cmt2":
        x = [next(xs) for _ in range(2)]
        return f"{{%{l}{_PAD}comment{_PAD}{x[0]}%}} c {{%{x[1]}{_PAD}endcomment{_PAD}{r}%}}"
    if kind == "cmt2n":
        x = [next(xs) for _ in range(6)]
        return (f"{{%{l}{_PAD}comment{_PAD}{x[0]}%}} a {{%{x[1]}{_PAD}comment{_PAD}{x[2]}%}} b {{%{x[3]}{_PAD}endcomment{_PAD}{x[4]}%}}"
                f" c {{%{x[5]}{_PAD}endcomment{_PAD}{r}%}}")
    if kind == "cmt2r":
        x = [next(xs) for _ in range(8)]
        return (f"{{%{l}{_PAD}comment{_PAD}{x[0]}%}} a {{%{x[1]}{_PAD}raw{_PAD}{x[2]}%}} {{%{x[3]}{_PAD}endcomment{_PAD}{x[4]}%}} "
                f"{{%{x[5]}{_PAD}endraw{_PAD}{x[6]}%}} b {{%{x[7]}{_PAD}endcomment{_PAD}{r}%}}")
    if kind == "cmt3":
        return f"{{%{l}{_PAD}# c{_PAD}{r}%}}"
    if kind == "liqassign":
        return f"{{%{l}{_PAD}liquid assign z = 1{_PAD}{r}%}}"
    if kind == "echo":
        return f"{{%{l}{_PAD}echo v{w}{_PAD}{r}%}}"
    if kind == "assign":
        return f"{{%{l}{_PAD}assign z = 1{_PAD}{r}%}}"
    raise ValueError(kind)


OPEN = {"if": "if b{p}", "unless": "unless b{p}", "for": "for i in a{p}", "case": "case k{p}",
        "capture": "capture v{p}", "with": "with w: 1"}


def to_source(items: list, ms: Iterator[str], xs: Iterator[str] = iter(())) -> str:
    out = []
    for it in items:
        if it[0] == "C":
            out.append(it[1])
        elif it[0] == "L":
            l, r = next(ms), next(ms)
            out.append(leaf_src(it[2], it[3], l, r, xs))
        elif it[0] == "R":
            w0, w1, w2, w3 = next(ms), next(ms), next(ms), next(ms)
            out.append(f"{{%{w0}{_PAD}raw{_PAD}{w1}%}}{it[1]}{{%{w2}{_PAD}endraw{_PAD}{w3}%}}")
        else:
            _, kind, p, body, secs = it
            l, r = next(ms), next(ms)
            out.append(f"{{%{l}{_PAD}{OPEN[kind].format(p=p)}{_PAD}{r}%}}")
            out.append(to_source(body, ms, xs))
            for g, b in secs:
                l, r = next(ms), next(ms)
                if g[0] == "cond":
                    out.append(f"{{%{l}{_PAD}elsif b{g[1]}{_PAD}{r}%}}")
                elif g[0] == "when":
                    out.append(f"{{%{l}{_PAD}when {', '.join(map(str, g[1]))}{_PAD}{r}%}}")
                else:
                    out.append(f"{{%{l}{_PAD}else{_PAD}{r}%}}")
                out.append(to_source(b, ms, xs))
            l, r = next(ms), next(ms)
            out.append(f"{{%{l}{_PAD}end{kind}{_PAD}{r}%}}")
    return "".join(out)


def flat(items: list, ms: Iterator[str]) -> list[tuple]:
    """The flat token list the program should lex to: ('C', text) | ('M', l, r)
    | ('R', w0, w1, w2, w3, text); ('D', text) is the whitespace content token
    that a case tag steps over (no ContentNode is built for it)."""
    out: list[tuple] = []
    for it in items:
        if it[0] == "C":
            out.append(("C", it[1]))
        elif it[0] == "L":
            out.append(("M", next(ms), next(ms)))
        elif it[0] == "R":
            out.append(("R", next(ms), next(ms), next(ms), next(ms), it[1]))
        else:
            out.append(("M", next(ms), next(ms)))
            body = flat(it[3], ms)
            if it[1] == "case" and len(body) == 1 and body[0][0] == "C" and body[0][1].isspace():
                body = [("D", body[0][1])]
            out += body
            for _, b in it[4]:
                out.append(("M", next(ms), next(ms)))
                out += flat(b, ms)
            out.append(("M", next(ms), next(ms)))
    return out


def split_flat(fl: list[tuple], splits: dict[int, int]) -> list[tuple]:
    out, k = [], 0
    for t in fl:
        if t[0] == "C":
            if k in splits:
                out += [("C", t[1][:splits[k]]), ("C", t[1][splits[k]:])]
            else:
                out.append(t)
            k += 1
        else:
            out.append(t)
    return out


def as_lexed(fl: list[tuple]) -> list[tuple]:
    return [("C", t[1]) if t[0] == "D" else t for t in fl]


def real_flat(tokens: list) -> list[tuple]:
    from liquid2 import ContentToken, RawToken
    out: list[tuple] = []
    for t in tokens:
        if isinstance(t, ContentToken):
            out.append(("C", t.text))
        elif isinstance(t, RawToken):
            out.append(("R",) + tuple(str(w) for w in t.wc) + (t.text,))
        else:
            out.append(("M", str(t.wc[0]), str(t.wc[-1])))
    return out


class TokenMismatch(Exception):
    pass


def reconcile(items: list, want: list[tuple], got: list[tuple]) -> tuple[list, int]:
    """Make the tree equal to what the lexer produced.  The only accepted
    difference is a top-level final content token that the lexer split in two
    (defect 19); anything else is a bug of this harness."""
    want = as_lexed(want)
    if want == got:
        return items, 0
    if (len(got) == len(want) + 1 and want[:-1] == got[:-2] and want[-1][0] == "C"
            and got[-2][0] == "C" and got[-1][0] == "C"
            and got[-2][1] + got[-1][1] == want[-1][1] and items and items[-1][0] == "C"):
        return items[:-1] + [("C", got[-2][1]), ("C", got[-1][1])], 1
    raise TokenMismatch(f"printed tokens {want}, lexer returned {got}")


# --------------------------------------------------------------------------
# reference renderer (no trimming, no suppression; knows nothing of markers)


def plain(items: list, data: dict[str, Any], st: dict[int, str]) -> str:
    out = []
    for it in items:
        if it[0] == "C" or it[0] == "R":
            out.append(it[1])
        elif it[0] == "L":
            if it[3] is not None:
                out.append(st[it[3]])
        else:
            _, kind, p, body, secs = it

            def first() -> str:
                for g, b in secs:
                    if g[0] == "else" or (g[0] == "cond" and data[f"b{g[1]}"]):
                        return plain(b, data, st)
                return ""
            if kind == "if":
                out.append(plain(body, data, st) if data[f"b{p}"] else first())
            elif kind == "unless":
                out.append(plain(body, data, st) if not data[f"b{p}"] else first())
            elif kind == "for":
                n = len(data[f"a{p}"])
                out.append("".join(plain(body, data, st) for _ in range(n)) if n else first())
            elif kind == "case":
                matched = False
                for g, b in secs:
                    if g[0] == "when" and data[f"k{p}"] in g[1]:
                        matched = True
                        out.append(plain(b, data, st))
                    elif g[0] == "else" and not matched:
                        out.append(plain(b, data, st))
            elif kind == "capture":
                st[p] = plain(body, data, st)
            else:
                out.append(plain(body, data, st))
    return "".join(out)


# --------------------------------------------------------------------------
# the implementation


FAIL_BASES = [           # <L> / <R>: a marker position
    "{{<L> user.name | upcase <R>}} x {%<L> if a <R>%}b{%<L> endif <R>%}",
    "a {%<L> raw <R>%} r {%<L> endraw <R>%} {#<L> c <R>#} {%<L> # c <R>%} z",
    "{%<L> for i in a0 <R>%} {{<L> i <R>}} {%<L> else <R>%} e {%<L> endfor <R>%}",
    "{%<L> comment <R>%} c {%<L> endcomment <R>%}{%<L> liquid\n echo 'a' <R>%}{%<L> case k <R>%}{%<L> when 1 <R>%}w{%<L> endcase <R>%}",
]


def failing_templates(rf: Any, n: int) -> list[str]:
    """Sources that fail to scan or parse part-way through MARKED markup: a
    fixed set with every marker kind on either side, then a marked valid
    template truncated at, or with a `$` inserted at, a seeded position."""
    out = []
    if n < 0:
        for l in MARKS:
            for rr in MARKS:
                out += [f"{{{{{l} user.name | upcase $ {rr}}}}}", f"{{%{l} if x $ {rr}%}}a{{% endif %}}",
                        f"t {{%{l} raw {rr}%}} never closed", f"t {{{{{l} x ", f"{{%{l} if x {rr}%}} no end tag",
                        f"{{%{l} endif {rr}%}}", f"a {{%{l} comment {rr}%}} never closed", f"{{{{{l} 'open string {rr}}}}}",
                        f"{{%{l} liquid\n echo $ {rr}%}}", f"{{%{l} case x {rr}%}} text {{% when 1 %}}{{% endcase %}}",
                        f"{{%{l} for i in {rr}%}}", f"{{#{l} never closed", f"{{%{l} # c {rr}"]
        return out
    for _ in range(n):
        base = rf.choice(FAIL_BASES)
        while "<L>" in base or "<R>" in base:
            base = base.replace("<L>", rf.choice(MARKS[1:] + ["-"]), 1).replace("<R>", rf.choice(MARKS[1:] + ["-"]), 1)
        k = rf.randint(1, len(base) - 1)
        out.append(base[:k] if rf.random() < 0.5 else base[:k] + "$" + base[k:])
    return out


class Impl:
    def __init__(self) -> None:
        from liquid2 import Environment, WhitespaceControl as W
        self.W = W
        self.wmap = {"+": W.PLUS, "-": W.MINUS, "~": W.TILDE, "": W.DEFAULT}
        self.envs = {dt: Environment(default_trim=self.wmap[dt]) for dt in DTS}

    def tokens(self, src: str) -> list:
        return list(self.envs["+"].tokenize(src))

    def fail_on(self, dt: str, src: str) -> bool:
        """Give the long-lived environment a template that (most likely) fails
        part-way through; whatever happens must leave no trace."""
        try:
            self.envs[dt].from_string(src)
        except Exception:  # noqa: BLE001 - which error is C02's business
            return True
        return False

    def ast_obs(self, nodes: list) -> tuple[list[tuple[str, str, str]], list[str]]:
        from liquid2.builtin.content import ContentNode
        from liquid2.builtin.tags.raw_tag import RawNode
        pairs: list[tuple[str, str, str]] = []
        raws: list[str] = []

        def walk(n: Any) -> None:
            if isinstance(n, ContentNode):
                pairs.append((n.text, str(n.left_trim), str(n.right_trim)))
            elif isinstance(n, RawNode):
                raws.append(n.text)
            else:
                for c in n.children(None, include_partials=False):
                    walk(c)
        for n in nodes:
            walk(n)
        return pairs, raws

    def run(self, src: str, dt: str, datas: list[dict[str, Any]],
            splits: dict[int, int] | None = None, limits: bool = True) -> dict[str, Any] | None:
        """Parse once with default_trim dt; render each data set with
        suppression on and off.  None = LiquidSyntaxError at parse time.
        With `splits` ({k: offset}) the k-th content token of the lexer's output
        is cut in two at `offset` and the token list is given to
        `env.parser.parse` directly: the parser must cope with adjacent content
        tokens wherever they occur (the lexer makes them only before a final
        newline)."""
        from liquid2.exceptions import LiquidSyntaxError
        env = self.envs[dt]
        try:
            if splits:
                nodes = env.parser.parse(split_tokens(list(env.tokenize(src)), splits))
                t = env.template_class(env, nodes, name="", path=None,
                                       global_data=env.make_globals(None), overlay_data=None)
            else:
                t = env.from_string(src)
        except LiquidSyntaxError:
            return None
        pairs, raws = self.ast_obs(t.nodes)
        outs, others = {}, {}
        for di, d in enumerate(datas):
            for sup in (True, False):
                env.suppress_blank_control_flow_blocks = sup
                outs[(di, sup)] = t.render(**d)
                alt = [("render_async", run_coro(t.render_async(**d)))]
                # the same render with every resource limit set (far above what
                # the program needs): limits are a configuration bit that must
                # not change a single character
                if limits:
                    set_limits(env, True)
                    try:
                        alt.append(("render, limits set", t.render(**d)))
                        alt.append(("render_async, limits set", run_coro(t.render_async(**d))))
                    finally:
                        set_limits(env, False)
                others[(di, sup)] = alt
        env.suppress_blank_control_flow_blocks = True
        return {"pairs": pairs, "raws": raws, "outs": outs, "others": others}


def set_limits(env: Any, on: bool) -> None:
    env.output_stream_limit = 1_000_000 if on else None
    env.loop_iteration_limit = 1_000_000 if on else None
    env.local_namespace_limit = 10_000_000 if on else None


def run_coro(coro: Any) -> Any:
    """Run a coroutine to completion.  Rendering this fragment never really
    suspends, so the coroutine is stepped by hand (an event loop per render
    would dominate the run); a render that does suspend is a machinery error."""
    try:
        coro.send(None)
    except StopIteration as e:
        return e.value
    coro.close()
    raise RuntimeError("render_async suspended: this harness expects rendering of the fragment not to await I/O")


def split_tokens(tokens: list, splits: dict[int, int]) -> list:
    from liquid2 import ContentToken, TokenType
    out, k = [], 0
    for t in tokens:
        if isinstance(t, ContentToken):
            if k in splits:
                o = splits[k]
                out.append(ContentToken(type_=TokenType.CONTENT, start=t.start, stop=t.start + o,
                                        text=t.text[:o], source=t.source))
                out.append(ContentToken(type_=TokenType.CONTENT, start=t.start + o, stop=t.stop,
                                        text=t.text[o:], source=t.source))
            else:
                out.append(t)
            k += 1
        else:
            out.append(t)
    return out


def split_tree(items: list, r: Any, counter: list[int], splits: dict[int, int], lead: bool = False) -> list:
    """Cut some content tokens of the tree in two (never the whitespace a case
    tag steps over); records {content index in source order: offset}."""
    out: list = []
    for it in items:
        if it[0] == "C":
            k = counter[0]
            counter[0] += 1
            if not lead and len(it[1]) >= 2 and r.random() < 0.7:
                o = r.randint(1, len(it[1]) - 1)
                splits[k] = o
                out += [("C", it[1][:o]), ("C", it[1][o:])]
            else:
                out.append(it)
        elif it[0] == "B":
            body = split_tree(it[3], r, counter, splits, lead=(it[1] == "case"))
            secs = [(g, split_tree(b, r, counter, splits)) for g, b in it[4]]
            out.append(("B", it[1], it[2], body, secs))
        else:
            out.append(it)
    return out


def adjacency(fl: list[tuple], dt: str) -> list[tuple[str, str, str]]:
    """What the trim pairs must be, from the token list alone: left = right
    marker of the markup token immediately before (default_trim if none), right
    = left marker of the markup token immediately after; 'no marker' resolved
    to default_trim."""
    out = []
    for i, t in enumerate(fl):
        if t[0] != "C":
            continue
        prev = fl[i - 1] if i else None
        nxt = fl[i + 1] if i + 1 < len(fl) else None
        left = dt if prev is None or prev[0] in "CD" else (prev[2] if prev[0] == "M" else prev[4])
        right = "" if nxt is None or nxt[0] in "CD" else nxt[1]
        out.append((t[1], left or dt, right or dt))
    return out


# --------------------------------------------------------------------------
# generators


def gen_ws(r: Any, lo: int = 1, hi: int = 3) -> str:
    n = r.randint(lo, hi)
    return "".join(r.choice(WS_COMMON) if r.random() < 0.7 else r.choice(WS_CHARS) for _ in range(n))


def gen_text(r: Any) -> str:
    """Literal text: whitespace of every kind around / between printable words."""
    k = r.random()
    if k < 0.22:
        return gen_ws(r)
    parts = []
    if r.random() < 0.75:
        parts.append(gen_ws(r))
    parts.append(r.choice(WORDS))
    if r.random() < 0.3:
        parts.append(gen_ws(r) if r.random() < 0.7 else NOT_WS)
        parts.append(r.choice(WORDS))
    if r.random() < 0.75:
        parts.append(gen_ws(r))
    if r.random() < 0.08:
        parts.insert(r.randrange(len(parts) + 1), NOT_WS)
    s = "".join(parts)
    return s.replace("{{", "{ {").replace("{%", "{ %").replace("{#", "{ #")


def safe_text(s: str) -> str:
    # a content token must not end in "{" before a markup token
    return s if not s.endswith("{") else s + "."


def gen_leaf(r: Any) -> tuple:
    kind = r.choice(["out", "out", "out", "echo", "assign", "cmt1", "cmt2", "cmt2", "cmt2n", "cmt2r", "cmt3",
                     "liqecho", "liqassign"])
    via, writes = LEAF_KINDS[kind]
    return ("L", via, kind, r.randrange(4) if writes else None)


def gen_items(r: Any, depth: int, budget: list[int], top: bool = False) -> list:
    items: list = []
    n = r.randint(1, 4 if top else 3)
    last_content = False
    for _ in range(n):
        if budget[0] <= 0:
            break
        k = r.random()
        if k < 0.42 and not last_content:
            items.append(("C", safe_text(gen_text(r))))
            last_content = True
            continue
        last_content = False
        budget[0] -= 1
        if k < 0.62 or depth <= 0:
            if r.random() < 0.2:
                raw = "" if r.random() < 0.15 else gen_text(r)
                items.append(("R", raw))
            else:
                items.append(gen_leaf(r))
        else:
            items.append(gen_block(r, depth - 1, budget))
    if not items:
        items.append(("C", safe_text(gen_text(r))))
    return items


def gen_block(r: Any, depth: int, budget: list[int]) -> tuple:
    kind = r.choice(["if", "if", "unless", "for", "case", "capture", "with"])
    p = r.randrange(3)
    body = gen_items(r, depth, budget) if r.random() < 0.9 else []
    secs: list = []
    if kind in ("if", "unless"):
        for _ in range(r.choice([0, 0, 1, 2])):
            secs.append((("cond", r.randrange(3)), gen_items(r, depth, budget)))
        if r.random() < 0.5:
            secs.append((("else",), gen_items(r, depth, budget) if r.random() < 0.9 else []))
    elif kind == "for":
        if r.random() < 0.4:
            secs.append((("else",), gen_items(r, depth, budget)))
    elif kind == "case":
        body = [("C", gen_ws(r))] if r.random() < 0.6 else []
        for _ in range(r.choice([0, 1, 1, 2, 3])):
            vals = sorted({r.randrange(3) for _ in range(r.choice([1, 1, 2]))})
            secs.append((("when", vals), gen_items(r, depth, budget)))
        if r.random() < 0.5:
            secs.append((("else",), gen_items(r, depth, budget)))
    return ("B", kind, p, body, secs)


def gen_data(r: Any, bias: str | None = None) -> dict[str, Any]:
    d: dict[str, Any] = {}
    for i in range(4):
        k = r.random()
        d[f"v{i}"] = ("" if k < 0.15 else gen_ws(r) if k < 0.3 else r.choice(WORDS) if k < 0.6
                      else gen_text(r))
    for i in range(3):
        d[f"b{i}"] = True if bias == "true" else False if bias == "false" else r.random() < 0.6
        d[f"a{i}"] = [0] * (2 if bias == "true" else 0 if bias == "false" else r.choice([0, 1, 2, 2]))
        d[f"k{i}"] = r.randrange(3)
    return d


# small programs for the exhaustive sweep: every shape of <= 6 marker positions
def small_programs(r: Any, max_pos: int) -> list[list]:
    def txt() -> tuple:
        return ("C", safe_text(gen_text(r)))
    ps: list[list] = []
    leafs = [("L", False, "out", 0), ("L", True, "echo", 1), ("L", False, "cmt1", None),
             ("L", False, "cmt2", None), ("L", False, "cmt3", None), ("L", True, "assign", None),
             ("L", False, "liqecho", 2), ("L", False, "liqassign", None)]
    # 2 positions
    for lf in leafs:
        ps.append([txt(), lf, txt()])
    # 4 positions
    ps.append([txt(), ("R", gen_text(r)), txt()])
    ps.append([txt(), ("R", gen_ws(r)), txt()])
    for k in ("if", "unless", "for", "capture", "with"):
        ps.append([txt(), ("B", k, 0, [txt()], []), txt()] + ([("L", False, "out", 0)] if k == "capture" else []))
    ps.append([txt(), ("B", "case", 0, [("C", gen_ws(r))], []), txt()])
    ps.append([txt(), leafs[0], txt(), leafs[2], txt()])
    ps.append([txt(), leafs[3], leafs[1], txt()])
    ps.append([txt(), ("B", "if", 0, [("C", gen_ws(r))], []), txt()])
    ps.append([("B", "if", 0, [("R", gen_text(r))], [])])          # 8 positions: filtered out below
    if max_pos >= 6:
        ps.append([txt(), ("B", "if", 0, [txt()], [(("else",), [txt()])]), txt()])
        ps.append([txt(), ("B", "if", 1, [("C", gen_ws(r))], [(("cond", 0), [txt()])]), txt()])
        ps.append([txt(), ("B", "for", 0, [txt()], [(("else",), [txt()])]), txt()])
        ps.append([txt(), ("B", "case", 0, [("C", gen_ws(r))], [(("when", [1]), [txt()])]), txt()])
        ps.append([txt(), ("B", "case", 0, [], [(("else",), [txt()])]), txt()])
        ps.append([("B", "with", 0, [txt(), leafs[0], txt()], []), txt()])
        ps.append([("B", "if", 0, [txt(), leafs[2]], []), txt()])
        ps.append([txt(), leafs[0], txt(), leafs[4], leafs[5], txt()])
        ps.append([("B", "capture", 1, [txt()], []), txt(), ("L", True, "echo", 1)])
        ps.append([txt(), ("R", gen_text(r)), leafs[0], txt()])
    ps.append([txt(), ("L", False, "cmt2n", None), txt()])      # beyond the sweep: one-at-a-time + seeded
    ps.append([txt(), ("L", False, "cmt2r", None), txt()])
    return [p for p in ps if n_positions(p) + n_extra(p) <= max_pos or (len(p) == 3 and p[1][0] == "L" and p[1][2] in ("cmt2n", "cmt2r"))]


CORPUS: list[list] = [
    # past defects / boundary shapes, run first (with structured + random markers)
    [("B", "capture", 2, [("C", " \n ")], []), ("C", "["), ("L", False, "out", 2), ("C", "]")],       # captured whitespace
    [("B", "if", 0, [("B", "capture", 2, [("C", "\n")], [])], []), ("C", "a"), ("L", True, "echo", 2), ("C", "b")],
    [("C", "Hello,  "), ("L", False, "out", 0), ("C", " \n "), ("B", "if", 0, [("C", " x ")], []), ("C", "\n!")],
    [("B", "if", 0, [("R", "hello")], [])],                                       # defect 18
    [("B", "for", 0, [("R", " hi ")], []), ("C", "\n")],
    [("B", "capture", 1, [("R", "hello")], []), ("L", False, "out", 1)],
    [("L", False, "out", 0), ("C", " \n")],                                      # defect 19
    [("C", "a \n"), ("L", False, "out", 0), ("C", " \n\n")],
    [("B", "case", 0, [], [(("when", [1]), [("C", " a ")])]), ("C", " z")],      # case carry
    [("B", "case", 0, [("C", "  ")], [(("when", [2]), [("C", " b ")]), (("when", [1, 2]), [("C", " a ")]),
                                        (("else",), [("C", " e ")])]), ("C", " z")],
    [("B", "case", 0, [("C", " \n")], []), ("C", " z")],
    [("B", "case", 0, [], [(("else",), [("C", " e ")])]), ("C", " z")],
    [("B", "case", 1, [], [(("when", [1]), [("C", " "), ("L", False, "out", 0)]), (("else",), [("C", "E")])])],  # defect 1
    [("C", " x "), ("B", "if", 0, [("C", " \n "), ("B", "if", 1, [("C", " \t")], [(("else",), [("C", " ")])]), ("C", " ")], []), ("C", " y ")],
    [("B", "if", 0, [("C", " "), ("B", "capture", 2, [("C", " c ")], []), ("C", " ")], []), ("L", False, "out", 2)],
    [("B", "for", 1, [("B", "capture", 0, [("L", False, "out", 0), ("C", " +")], [])], []), ("L", True, "echo", 0)],
    [("C", "\u2003a\u00a0"), ("L", False, "cmt1", None), ("C", "\x1c\x85b\u3000"), ("L", True, "assign", None), ("C", "\u200b \u200b")],
]

def branch_corpus(r: Any, thorough: bool) -> list[tuple[list, list[dict[str, Any]]]]:
    """Every branch of every block tag counts towards `blank`: a block tag whose
    only text is in ONE branch (for body / for else / if / elsif / else / when /
    case else ...), the other branches blank, is nested in an otherwise blank
    block of every kind and rendered with data that selects the text branch
    (and data that selects a blank one).  With suppression on the text must
    survive.  Inner tags use b1, b2, a1, k1; outer tags b0, a0, k0."""
    def ws() -> tuple:
        return ("C", gen_ws(r))

    def blank_branch() -> list:
        k = r.randrange(5)
        if k == 0:
            return [ws()]
        if k == 1:
            return [ws(), ("L", True, "assign", None), ws()]
        if k == 2:
            return [("B", "capture", 3, [("C", " t ")], []), ws()]
        if k == 3:
            return [ws(), ("L", False, r.choice(["cmt1", "cmt2", "cmt3"]), None)]
        return []

    def text_branch() -> list:
        return [("C", gen_ws(r) + r.choice(["T", "x y", NOT_WS + "q"]) + gen_ws(r))] if r.random() < 0.7 else \
            [ws(), ("L", False, "out", 0), ws()]

    inners: list[tuple[str, int]] = [("for", 2), ("if", 3), ("if2", 2), ("unless", 3), ("case", 3)]

    def inner(kind: str, j: int) -> tuple[tuple, list[dict[str, Any]]]:
        n = dict(inners)[kind]
        br = [text_branch() if i == j else blank_branch() for i in range(n)]
        if kind == "for":
            node = ("B", "for", 1, br[0], [(("else",), br[1])])
            sel = [{"a1": [0, 0]}, {"a1": []}]
        elif kind == "if":
            node = ("B", "if", 1, br[0], [(("cond", 2), br[1]), (("else",), br[2])])
            sel = [{"b1": True}, {"b1": False, "b2": True}, {"b1": False, "b2": False}]
        elif kind == "if2":
            node = ("B", "if", 1, br[0], [(("else",), br[1])])
            sel = [{"b1": True}, {"b1": False}]
        elif kind == "unless":
            node = ("B", "unless", 1, br[0], [(("cond", 2), br[1]), (("else",), br[2])])
            sel = [{"b1": False}, {"b1": True, "b2": True}, {"b1": True, "b2": False}]
        else:
            node = ("B", "case", 1, [ws()] if r.random() < 0.5 else [],
                    [(("when", [1]), br[0]), (("when", [2]), br[1]), (("else",), br[2])])
            sel = [{"k1": 1}, {"k1": 2}, {"k1": 0}]
        return node, [sel[j], sel[(j + 1) % n]]

    def outers(node: tuple) -> list[tuple[list, dict[str, Any]]]:
        mid = [ws(), node, ws()]
        return [
            ([("B", "if", 0, mid, [])], {"b0": True}),
            ([("B", "unless", 0, mid, [])], {"b0": False}),
            ([("B", "if", 0, [ws()], [(("else",), mid)])], {"b0": False}),
            ([("B", "for", 0, mid, [])], {"a0": [0, 0]}),
            ([("B", "for", 0, [("C", "x")], [(("else",), mid)])], {"a0": []}),
            ([("B", "case", 0, [], [(("when", [1]), mid)])], {"k0": 1}),
            ([("B", "case", 0, [ws()], [(("when", [1]), [ws()]), (("else",), mid)])], {"k0": 0}),
            ([("B", "with", 0, mid, [])], {}),
            ([("B", "capture", 2, mid, []), ("L", False, "out", 2)], {}),
            ([("B", "with", 0, [("B", "if", 0, mid, [])], [])], {"b0": True}),
        ]

    out = []
    n = 0
    for kind, nb in inners:
        for j in range(nb):
            node, sels = inner(kind, j)
            os_ = outers(node)
            pick = os_ if thorough else [os_[(n + i * 3) % len(os_)] for i in range(3)]
            n += 1
            for items, enter in pick:
                datas = []
                for sel in sels:
                    d = gen_data(r)
                    d["v0"] = "V"
                    d.update(enter)
                    d.update(sel)
                    datas.append(d)
                out.append((items, datas))
    return out


def capture_corpus(r: Any) -> list[tuple[list, list[dict[str, Any]]]]:
    """A capture that is the ONLY content of a control-flow block (so the block
    is blank and renders into the null buffer when suppression is on), echoed
    AFTER the block: the captured text must appear, with and without resource
    limits, sync and async."""
    def ws() -> tuple:
        return ("C", gen_ws(r))

    caps = [
        [("B", "capture", 2, [("C", " cap T ")], [])],
        [ws(), ("B", "capture", 2, [("C", "T"), ("L", False, "out", 0), ("C", " u\n")], []), ws()],
        [("B", "capture", 2, [("R", " raw ")], [])],
        [("B", "capture", 2, [("B", "capture", 3, [("C", "in")], []), ("C", "<"), ("L", True, "echo", 3), ("C", ">")], [])],
        [("B", "capture", 2, [("B", "if", 1, [("C", " y ")], [(("else",), [("C", " n ")])])], []), ("L", True, "assign", None)],
    ]
    after = [[("L", False, "out", 2)], [("C", "["), ("L", True, "echo", 2), ("C", "]")]]

    def outers(mid: list) -> list[tuple[list, dict[str, Any]]]:
        return [
            ([("B", "if", 0, mid, [])], {"b0": True}),
            ([("B", "unless", 0, mid, [])], {"b0": False}),
            ([("B", "if", 0, [ws()], [(("cond", 2), mid), (("else",), [ws()])])], {"b0": False, "b2": True}),
            ([("B", "if", 0, [], [(("else",), mid)])], {"b0": False}),
            ([("B", "for", 0, mid, [])], {"a0": [0, 0]}),
            ([("B", "for", 0, [ws()], [(("else",), mid)])], {"a0": []}),
            ([("B", "case", 0, [], [(("when", [1]), mid)])], {"k0": 1}),
            ([("B", "case", 0, [], [(("when", [1]), [ws()]), (("else",), mid)])], {"k0": 0}),
            ([("B", "with", 0, mid, [])], {}),
            ([("B", "for", 0, [("B", "if", 1, mid, [])], [])], {"a0": [0], "b1": True}),
        ]
    out = []
    n = 0
    for cap in caps:
        for items, enter in outers(cap):
            d = gen_data(r)
            d.update({"v0": "V", "v2": "OLD", "v3": "old3", "b1": n % 2 == 0})
            d.update(enter)
            out.append((items + after[n % 2], [d]))
            n += 1
    return out


ILL_FORMED: list[list] = [
    [("B", "case", 0, [("C", " x ")], [(("when", [1]), [("C", "a")])])],        # text after case
    [("B", "case", 0, [("L", False, "out", 0)], [(("when", [1]), [("C", "a")])])],
    [("B", "case", 0, [("C", " "), ("L", False, "out", 0)], [(("when", [1]), [("C", "a")])])],
    [("B", "if", 0, [("C", "a")], [(("else",), [("C", "b")]), (("cond", 1), [("C", "c")])])],
    [("B", "if", 0, [("C", "a")], [(("else",), [("C", "b")]), (("else",), [("C", "c")])])],
    [("B", "if", 0, [("C", "a")], [(("when", [1]), [("C", "b")])])],
    [("B", "for", 0, [("C", "a")], [(("cond", 1), [("C", "b")])])],
    [("B", "for", 0, [("C", "a")], [(("else",), [("C", "b")]), (("else",), [("C", "c")])])],
    [("B", "case", 0, [], [(("else",), [("C", "b")]), (("when", [1]), [("C", "c")])])],
    [("B", "case", 0, [], [(("cond", 1), [("C", "c")])])],
    [("B", "capture", 0, [("C", "a")], [(("else",), [("C", "b")])])],
    [("B", "with", 0, [("C", "a")], [(("else",), [("C", "b")])])],
    [("C", "x"), ("B", "unless", 0, [("B", "for", 0, [], [(("else",), []), (("else",), [])])], [])],
]

# every built-in tag that writes text, inside a block that is always entered
BLANK_AUDIT = [
    ("{% if true %}{% raw %}hello{% endraw %}{% endif %}", {}, {}),
    ("{% for i in (1..2) %}{% raw %}x{% endraw %}{% endfor %}", {}, {}),
    ("{% with a: 1 %}{% raw %}x{% endraw %}{% endwith %}", {}, {}),
    ("{% unless false %}{% raw %}x{% endraw %}{% endunless %}", {}, {}),
    ("{% case 1 %}{% when 1 %}{% raw %}x{% endraw %}{% endcase %}", {}, {}),
    ("{% if false %}{% else %}{% raw %}x{% endraw %}{% endif %}", {}, {}),
    ("{% capture c %}{% raw %}x{% endraw %}{% endcapture %}{{ c }}", {}, {}),
    ("{% if true %}{% liquid\nif true\n echo 'x'\nendif %}{% endif %}", {}, {}),
    ("{% if true %}{{ 'x' }}{% endif %}", {}, {}),
    ("{% if true %}{% echo 'x' %}{% endif %}", {}, {}),
    ("{% if true %}{% cycle 'x', 'y' %}{% endif %}", {}, {}),
    ("{% if true %}{% increment n %}{% endif %}", {}, {}),
    ("{% if true %}{% decrement n %}{% endif %}", {}, {}),
    ("{% if true %}{% include 'p' %}{% endif %}", {}, {"p": "x"}),
    ("{% if true %}{% render 'p' %}{% endif %}", {}, {"p": "x"}),
    ("{% if true %}{% macro f %}x{% endmacro %}{% call f %}{% endif %}", {}, {}),
    ("{% if true %}{% translate %}x{% endtranslate %}{% endif %}", {}, {}),
    ("{% if true %}{% block b %}x{% endblock %}{% endif %}", {}, {}),
    ("{% if true %}{% capture c %}x{% endcapture %}{% endif %}{{ c }}", {}, {}),
    ("{% if true %}{% assign c = 'x' %}{% endif %}{{ c }}", {}, {}),
    ("{% for i in (1..3) %}{% if true %}{% break %}{% endif %}{% endfor %}x", {}, {}),
    ("{% if true %} {% comment %}x{% endcomment %} {% endif %}x", {}, {}),
]


# --------------------------------------------------------------------------
# tablerow (liquid2.shopify Environment): outside the model, direct oracle only


def tablerow_programs(thorough: bool) -> list[dict[str, Any]]:
    """`tablerow` writes markup of its own (<tr>/<td>), so it is never blank,
    whatever its cell body: nested in an otherwise blank block it must still
    emit its skeleton with suppression on.  <L>/<R> are marker positions."""
    bodies = [("", False), (" \n\u2003", False), (" {%<L> assign z = 1 <R>%}\t", False),
              ("{#<L> c <R>#} ", False), (" {{<L> i <R>}} ", True), ("x\n", True),
              ("{%<L> if t <R>%} {%<L> endif <R>%}", False)]
    args = [("", None, None, 0), ("cols:2", 2, None, 0), ("cols:2 limit:3", 2, 3, 0),
            ("limit:2 offset:1", None, 2, 1), ("cols:3 offset:2", 3, None, 2)]
    wrappers = [  # (prefix, suffix, how many times the tablerow runs)
        ("", "", 1),
        ("{%<L> if t <R>%} ", "\n{%<L> endif <R>%}", 1),
        ("{%<L> unless f <R>%}", " {%<L> endunless <R>%}", 1),
        ("{%<L> for j in two <R>%} ", " {%<L> endfor <R>%}", 2),
        ("{%<L> for j in none <R>%}{%<L> else <R>%} ", "{%<L> endfor <R>%}", 1),
        ("{%<L> if f <R>%} {%<L> else <R>%} ", " {%<L> endif <R>%}", 1),
        ("{%<L> case k <R>%} {%<L> when 1 <R>%}", " {%<L> endcase <R>%}", 1),
        ("{%<L> with w: 1 <R>%} {%<L> if t <R>%}", "{%<L> endif <R>%} {%<L> endwith <R>%}", 1),
        ("{%<L> for j in two <R>%}{%<L> if t <R>%} ", " {%<L> endif <R>%}{%<L> endfor <R>%}", 2),
        ("{%<L> capture c <R>%} ", " {%<L> endcapture <R>%}[{{<L> c <R>}}]", 1),
    ]
    out = []
    n = 0
    for wi, (pre, suf, times) in enumerate(wrappers):
        for bi, (body, writes) in enumerate(bodies):
            for ai, (arg, cols, limit, offset) in enumerate(args):
                n += 1
                if not thorough and (wi + bi + ai) % 2:
                    continue
                tpl = f"{pre}{{%<L> tablerow i in a {arg} <R>%}}{body}{{%<L> endtablerow <R>%}}{suf}"
                out.append({"template": tpl, "cols": cols, "limit": limit, "offset": offset, "times": times,
                            "writes": writes})
    return out


def fill_markers(tpl: str, ms: list[str]) -> str:
    it = iter(ms)
    parts = []
    for piece in tpl.replace("<R>", "<L>").split("<L>"):
        parts.append(piece)
        parts.append(next(it, ""))
    return "".join(parts[:-1])


# --------------------------------------------------------------------------
# Coq terms


def c_guard(g: tuple) -> str:
    if g[0] == "cond":
        return f"(GCond {C.cnat(g[1])})"
    if g[0] == "when":
        return f"(GWhen {C.clist((C.cnat(v) for v in g[1]), 'nat')})"
    return "GElse"


def c_kind(kind: str, p: int) -> str:
    return {"if": f"(KIf {C.cnat(p)})", "unless": f"(KUnless {C.cnat(p)})", "for": f"(KFor {C.cnat(p)})",
            "case": f"(KCase {C.cnat(p)})", "capture": f"(KCapture {C.cnat(p)})", "with": "KWith"}[kind]


def c_tree(items: list) -> str:
    out = "TNil"
    for it in reversed(items):
        if it[0] == "C":
            out = f"(TContent {C.cstr(it[1])} {out})"
        elif it[0] == "L":
            w = C.copt(C.cnat(it[3]) if it[3] is not None else None, "nat")
            out = f"(TLeaf {C.cbool(it[1])} Default Default {w} {out})"
        elif it[0] == "R":
            out = f"(TRaw Default Default Default Default {C.cstr(it[1])} {out})"
        else:
            _, kind, p, body, secs = it
            s = "SNil"
            for g, b in reversed(secs):
                s = f"(SCons {c_guard(g)} Default Default {c_tree(b)} {s})"
            out = f"(TBlock {c_kind(kind, p)} Default Default {c_tree(body)} {s} Default Default {out})"
    return out


def c_data(d: dict[str, Any]) -> str:
    return ("(mk_data " + C.clist((C.cstr(d[f"v{i}"]) for i in range(4)), "str") + " "
            + C.clist((C.cbool(d[f"b{i}"]) for i in range(3)), "bool") + " "
            + C.clist((C.cnat(len(d[f"a{i}"])) for i in range(3)), "nat") + " "
            + C.clist((C.cnat(d[f"k{i}"]) for i in range(3)), "nat") + ")")


def c_cfg(dt: str, sup: bool) -> str:
    return f"{{| default_trim := {WC_COQ[dt]}; suppress := {C.cbool(sup)} |}}"


class Table:
    """Distinct strings of one program, referred to by index in the cases."""

    def __init__(self) -> None:
        self.idx: dict[str, int] = {}

    def __call__(self, s: str) -> int:
        return self.idx.setdefault(s, len(self.idx))

    def coq(self) -> str:
        return C.clist((C.cstr(s) for s in self.idx), "str")


def assignment_number(ms: list[str]) -> int:
    n = 0
    for i, m in enumerate(ms):
        n += MARKS.index(m) << (2 * i)
    return n


# --------------------------------------------------------------------------
# running groups of cases through coqc in parallel (one defs block per program)


class GroupRunner:
    """Each group has its own `defs` (program, data, string table) and items and
    is evaluated as one cases.v file; groups are handed to coqc as soon as they
    are generated, concurrently with the generation of the next ones."""

    def __init__(self, chk: C.Check, what: str) -> None:
        from concurrent.futures import ThreadPoolExecutor
        import time
        self.chk, self.what = chk, what
        self.ex = ThreadPoolExecutor(max_workers=C.JOBS)
        self.pending: list[tuple[dict[str, Any], Any]] = []
        self.batch: list[dict[str, Any]] = []
        self.batch_size = 0
        self.t0 = time.time()

    @staticmethod
    def _one(g: dict[str, Any]) -> dict[str, Any]:
        return C.run_cases(g["tag"], IMPORTS, g["defs"], [it["case"] for it in g["items"]],
                           shard=max(1, len(g["items"])))

    BATCH = 90_000          # characters of Coq text per cases.v file

    def submit(self, g: dict[str, Any]) -> None:
        """Groups use distinct definition names, so small ones share a file."""
        size = len(g["defs"]) + sum(len(it["case"]) for it in g["items"])
        if self.batch and self.batch_size + size > self.BATCH:
            self._flush()
        self.batch.append(g)
        self.batch_size += size
        if self.batch_size > self.BATCH:
            self._flush()

    def _flush(self) -> None:
        if not self.batch:
            return
        g = {"tag": self.batch[0]["tag"], "defs": "\n".join(b["defs"] for b in self.batch),
             "items": [it for b in self.batch for it in b["items"]]}
        self.batch, self.batch_size = [], 0
        self.pending.append((g, self.ex.submit(self._one, g)))

    def finish(self) -> None:
        import time
        self._flush()
        chk, what = self.chk, self.what
        nbad = ncases = 0
        first: tuple | None = None
        for g, fut in self.pending:
            rc = fut.result()
            ncases += rc["n"]
            for e in rc["errors"]:
                chk.notes.append(f"coq case error ({g['tag']}): " + e[:400])
                if not chk.violations:
                    chk.finding("correspondence:" + what + ":build", "generated case files did not evaluate",
                                {"errors": rc["errors"][:3], "group": g["tag"],
                                 "broken": f"correspondence {what} (coqc on generated cases)"}, no_input=True)
            if rc["bad"]:
                nbad += len(rc["bad"])
                if first is None:
                    first = (g, rc["bad"])
        self.ex.shutdown()
        if first is not None:
            g, bad = first
            idx = bad[:3]
            outs = C.eval_terms(g["tag"], IMPORTS, g["defs"], [g["items"][i]["model"] for i in idx])
            for i, o in zip(idx, outs):
                chk.notes.append(f"{what}: model/implementation disagree on {g['tag']} case #{i}: "
                                 f"{str(g['items'][i]['replay'])[:300]} model={o[:300]}")
            if not chk.violations:
                chk.finding("correspondence:" + what,
                            f"model and implementation disagree ({nbad} of {ncases} cases); no direct property failure found",
                            {"case": g["items"][idx[0]]["replay"], "model": outs[0],
                             "broken": f"correspondence {what}", "group": g["tag"]}, no_input=True)
        chk.coverage["model_cases"] = chk.coverage.get("model_cases", 0) + ncases
        chk.coverage["model_disagreements"] = chk.coverage.get("model_disagreements", 0) + nbad
        chk.coverage.setdefault("correspondence_wall_s", {})[what] = round(time.time() - self.t0, 1)


# --------------------------------------------------------------------------


def marker_sets(r: Any, npos: int, exhaustive_max: int, nrandom: int) -> tuple[list[list[str]], bool]:
    if npos <= exhaustive_max:
        return [list(reversed(t)) for t in itertools.product(MARKS, repeat=npos)], True
    out = [[m] * npos for m in MARKS]
    for i in range(npos):                       # one marker at a time
        for m in MARKS[1:]:
            ms = [""] * npos
            ms[i] = m
            out.append(ms)
    for _ in range(nrandom):
        w = r.choice([[4, 2, 1, 1], [1, 1, 1, 1], [2, 3, 2, 1]])
        out.append(r.choices(MARKS, weights=w, k=npos))
    seen, uniq = set(), []
    for ms in out:
        if tuple(ms) not in seen:
            seen.add(tuple(ms))
            uniq.append(ms)
    return uniq, False


def main(chk: C.Check, build: C.Build) -> None:
    warnings.simplefilter("ignore")
    proofs_ok = C.proof_stage(chk, build, NEEDED)
    thorough = chk.tier == "thorough"
    r = C.rng("c18")
    impl = Impl()
    from liquid2 import DictLoader, Environment
    from liquid2.exceptions import LiquidSyntaxError

    exhaustive_max = 6 if thorough else 5
    programs: list[tuple] = [("corpus", p) for p in CORPUS]
    programs += [("branch", p, d) for p, d in branch_corpus(r, thorough)]
    programs += [("branch", p, d) for p, d in capture_corpus(r)]
    programs += [("small", p) for p in small_programs(r, exhaustive_max)]
    for _ in range(170 if thorough else 44):
        budget = [r.choice([3, 4, 6, 8] if thorough else [3, 4, 5, 6])]
        programs.append(("random", gen_items(r, r.choice([1, 2, 3] if thorough else [1, 2, 2, 3]), budget, top=True)))
    programs += [("illformed", p) for p in ILL_FORMED]

    rf = C.rng("c18-failing-templates")
    fixed_fails = failing_templates(rf, -1)
    fail_i = [0]
    runner = GroupRunner(chk, "Trim.observe (render output, ContentNode trim pairs, RawNode texts)")
    stats = {"programs": 0, "renders": 0, "parses": 0, "exhaustive_programs": 0, "syntax_errors": 0,
             "content_tokens_split_by_lexer": 0, "split_programs": 0, "suppressed_outputs": 0, "history_renders": 0, "glued_layout_programs": 0, "failed_parses_interleaved": 0,
             "marker_positions_max": 0, "assignments": 0}
    nontrivial: set[str] = set()
    samples: list[dict[str, Any]] = []
    evaluations = 0

    def run_program(pi: int, origin: str, items: list, do_split: bool,
                    fixed_datas: list[dict[str, Any]] | None = None, glue: bool = False) -> None:
        nonlocal evaluations
        set_glued(glue)          # layout of the printer: `{{- v0 -}}` or `{{-v0-}}`
        npos = n_positions(items)
        nx = n_extra(items)
        stats["marker_positions_max"] = max(stats["marker_positions_max"], npos + nx)
        nrand = {"illformed": 2, "branch": 8 if thorough else 3}.get(origin, 48 if thorough else 10)
        msets, exh = marker_sets(r, npos + nx, exhaustive_max if origin not in ("illformed", "branch") else 0, nrand)
        if origin == "illformed":
            msets = msets[:6]
        if origin == "branch" and not thorough:
            msets = msets[:4] + msets[-nrand:]           # all-same x4 + seeded
        if do_split or glue:
            msets = msets[:: max(1, len(msets) // (40 if thorough else 12))]
            exh = False
        if glue:                 # every marker kind glued to every word at least once
            msets = [[m] * (npos + nx) for m in MARKS] + msets
        if fixed_datas is not None:
            datas = fixed_datas
        else:
            datas = [gen_data(r, "true"), gen_data(r)]
            if (thorough and npos + nx < 6) or not exh:
                datas += [gen_data(r), gen_data(r, "false")]
        splits: dict[int, int] = {}
        split_items: list | None = None
        base_items: list | None = None
        stats["exhaustive_programs"] += exh
        stats["programs"] += 1
        stats["split_programs"] += do_split
        stats["glued_layout_programs"] += glue
        tbl = Table()
        outc: dict[str, int] = {}                       # distinct outcomes, as Coq terms
        exp: dict[tuple, list[int]] = {}                # (dt, sup, di) -> outcome index per assignment
        srcs: dict[int, str] = {}
        model_items = None
        ref_out = [plain(items, d, {i: d[f"v{i}"] for i in range(4)}) for d in datas]
        ref_erased = [erase(x) for x in ref_out]
        texts_expected: list[str] | None = None
        nums = []
        sfx = f"_{pi}{'s' if do_split else ''}{'g' if glue else ''}"
        extra_items: list[dict[str, Any]] = []
        recorded: dict[tuple, str] = {}                 # (src, dt, di, sup) -> model-checked output
        meta: dict[tuple, tuple] = {}                   # (src, dt) -> (assignment number, pairs code, raw indexes)

        def case_item(dt: str, sup: bool, num: int, di: int, o: str, mk: int, rw: str, src: str, path: str) -> dict[str, Any]:
            cf = f"(Build_cfg {WC_COQ[dt]} {C.cbool(sup)})"
            return {"case": f"check_case {cf} P{sfx} {C.cnat(npos)} {num} D{di}{sfx} TBL{sfx} (Some ({tbl(o)}, {mk}, {rw}))",
                    "model": f"observe {cf} (fst (remark (digits4 {C.cnat(npos)} {num}) P{sfx})) D{di}{sfx}",
                    "replay": {"source": src, "default_trim": dt, "suppress": sup, "data": datas[di], "path": path,
                               "implementation": o}}
        outcome_class: str | None = None

        def class_changed(src: str, cls: str, detail: str) -> None:
            chk.finding("oracle:marker-glued-to-word" if glue else "oracle:marker-changes-outcome",
                        f"a marker assignment changes what the template IS, not its whitespace: {src!r} is {cls} "
                        f"({detail[:200]}) while the same tokens with other markers are {outcome_class}",
                        {"source": src, "outcome": cls, "detail": detail, "other_assignments": outcome_class,
                         "program": items})

        for full in msets:
            ms, xs = full[:npos], full[npos:]
            stats["assignments"] += 1
            src = to_source(items, iter(ms), iter(xs))
            # the outcome class (tokens as printed / syntax error / other tokens)
            # must not depend on the markers
            try:
                got = real_flat(impl.tokens(src))
                mitems, nsplit = reconcile(items, flat(items, iter(ms)), got)
                cls, detail = "lexed as printed", ""
            except LiquidSyntaxError as e:
                cls, detail = "LiquidSyntaxError (lexer)", str(e).splitlines()[0] if str(e) else ""
            except TokenMismatch as e:
                cls, detail = "lexed into different tokens", str(e)
            evaluations += 1
            if outcome_class is None:
                outcome_class = cls
                if cls != "lexed as printed" and origin != "illformed":
                    class_changed(src, cls, detail)
            elif cls != outcome_class:
                class_changed(src, cls, detail)
            if cls != "lexed as printed":
                continue
            if as_lexed(flat(mitems, iter(ms))) != got:
                raise AssertionError("reconciled token tree differs from the lexer's tokens")
            stats["content_tokens_split_by_lexer"] += nsplit
            if do_split:
                if split_items is None:
                    split_items = split_tree(mitems, r, [0], splits)
                    base_items = mitems
                    if not splits:                      # nothing to cut in this program
                        stats["programs"] -= 1
                        stats["split_programs"] -= 1
                        stats["assignments"] -= 1
                        return
                elif mitems != base_items:
                    raise AssertionError("lexer split depends on the marker assignment")
                mitems = split_items
                if split_flat(got, splits) != as_lexed(flat(mitems, iter(ms))):
                    raise AssertionError("split token list differs from the split tree")
            if model_items is None:
                model_items = mitems
            elif model_items != mitems:
                raise AssertionError("lexer split depends on the marker assignment")
            num = assignment_number(ms)
            nums.append(num)
            srcs[num] = src
            no_trim_markers = all(m in ("", "+") for m in ms)
            # limits on/off is a configuration bit of every assignment; only the
            # exhaustive sweeps take it on a seeded half (256 and 1024 assignments)
            # or quarter (4096 assignments) of them
            with_limits = len(msets) < 256 or rf.random() < (0.5 if len(msets) < 4096 else 0.25)
            # the three long-lived environments take turns in a different order
            # for every assignment: no render may depend on what another
            # environment rendered before
            for dt in r.sample(DTS, 3):
                if rf.random() < 0.25:                   # a failed parse on this environment first
                    fsrc = rf.choice(fixed_fails) if rf.random() < 0.5 else failing_templates(rf, 1)[0]
                    stats["failed_parses_interleaved"] += impl.fail_on(dt, fsrc)
                res = impl.run(src, dt, datas, splits if do_split else None, limits=with_limits)
                stats["parses"] += 1
                if res is None:
                    stats["syntax_errors"] += 1
                    evaluations += 1
                    if origin != "illformed":
                        chk.finding("oracle:marker-changes-outcome",
                                    f"generated well-formed program is rejected by the parser with these markers: {src!r} (default_trim {dt!r})",
                                    {"source": src, "default_trim": dt, "program": items})
                    for di in range(len(datas)):
                        for sup in (True, False):
                            exp.setdefault((dt, sup, di), []).append(-1)
                    continue
                if origin == "illformed":
                    chk.finding("oracle:illformed-accepted", f"block structure the model rejects was parsed: {src!r}",
                                {"source": src})
                # oracle: trim pairs are the markers of the adjacent markup tokens
                want_adj = adjacency(flat(mitems, iter(ms)), dt)
                have_adj = [(t, l or dt, rr or dt) for t, l, rr in res["pairs"]]
                if want_adj != have_adj:
                    bad = next((w, h) for w, h in itertools.zip_longest(want_adj, have_adj) if w != h)
                    chk.finding("oracle:trim-not-adjacent",
                                f"a text is trimmed by markers that are not the adjacent ones: wanted {bad[0]}, parser gave {bad[1]} in {src!r}",
                                {"source": src, "default_trim": dt, "adjacent": want_adj, "parser": have_adj})
                mk = 1                                   # Trim.pairs_code
                for _, l, rr in reversed(res["pairs"]):
                    mk = MARKS.index(l) + 4 * (MARKS.index(rr) + 4 * mk)
                rw = C.clist((str(tbl(x)) for x in res["raws"]), "N")
                if texts_expected is None:
                    texts_expected = [t for t, _, _ in res["pairs"]]
                for (di, sup), out in res["outs"].items():
                    d = datas[di]
                    for path, o in [("render", out)] + res["others"][(di, sup)]:
                        stats["renders"] += 1
                        evaluations += 1
                        # oracle: only whitespace changes
                        if erase(o) != ref_erased[di]:
                            chk.finding("oracle:non-whitespace-changed",
                                        f"markers/default_trim/suppression changed more than whitespace: {path} of {src!r} "
                                        f"default_trim={dt!r} suppress={sup} gives {o!r}; without whitespace control {ref_out[di]!r}",
                                        {"source": src, "default_trim": dt, "suppress": sup, "data": d, "output": o,
                                         "path": path, "reference_output": ref_out[di]})
                        # oracle: verbatim when no trimming is in force
                        if no_trim_markers and dt == "+" and not sup and o != ref_out[di]:
                            chk.finding("oracle:not-verbatim",
                                        f"no trimming in force but {path} of {src!r} gives {o!r}, verbatim text is {ref_out[di]!r}",
                                        {"source": src, "data": d, "output": o, "path": path,
                                         "reference_output": ref_out[di]})
                        # oracle: the async path and the limits bit write exactly what plain render() writes
                        if o != out:
                            chk.finding("oracle:async-differs-from-sync" if path == "render_async"
                                        else "oracle:limits-change-output",
                                        f"{path} of {src!r} default_trim={dt!r} suppress={sup} gives {o!r}, render() gives {out!r}",
                                        {"source": src, "default_trim": dt, "suppress": sup, "data": d, "render": out,
                                         path: o})
                            if len(extra_items) < 20:       # and the model is asked about this output too
                                extra_items.append(case_item(dt, sup, num, di, o, mk, rw, src, path))
                    if sup and out != res["outs"][(di, False)]:
                        stats["suppressed_outputs"] += 1
                    if out != ref_out[di]:
                        nontrivial.add(f"{sfx}:{assignment_number(full)}:{dt}:{sup}:{di}")
                    term = f"({tbl(out)}, {mk}, {rw})"
                    exp.setdefault((dt, sup, di), []).append(outc.setdefault(term, len(outc)))
                    recorded[(src, dt, di, sup)] = out
                meta[(src, dt)] = (num, mk, rw)
        if model_items is None:                          # no assignment lexed as printed (reported above)
            return
        # ---- history: the SAME sources again on the long-lived environments,
        # the three default_trim modes interleaved in varying orders, fresh
        # parses and templates kept from earlier rounds; every render must give
        # what the first (model-checked) render of that configuration gave
        if origin != "illformed" and not do_split and not glue and meta:
            ok_srcs = list(dict.fromkeys(k[0] for k in meta))
            hist = ok_srcs[:1] + r.sample(ok_srcs[1:], min(2, len(ok_srcs) - 1))
            hist = [x for x in hist if all((x, dt) in meta for dt in DTS)]
            perms = list(itertools.permutations(DTS))
            r.shuffle(perms)
            held: dict[tuple, Any] = {}
            for perm in perms[: 6 if thorough else 3]:
                for hsrc in hist:
                    for dt in perm:
                        env = impl.envs[dt]
                        # failing templates between the successful renders
                        fsrc = fixed_fails[fail_i[0] % len(fixed_fails)]
                        fail_i[0] += 1
                        last_fail = [fsrc] + failing_templates(rf, 1)
                        for f_ in last_fail:
                            stats["failed_parses_interleaved"] += impl.fail_on(dt, f_)
                        ts = [("fresh parse", env.from_string(hsrc))]
                        if (hsrc, dt) in held:
                            ts.append(("template kept from an earlier round", held[(hsrc, dt)]))
                        held[(hsrc, dt)] = ts[0][1]
                        for how, t in ts:
                            for di, d in enumerate(datas):
                                for sup in (True, False):
                                    env.suppress_blank_control_flow_blocks = sup
                                    o = t.render(**d)
                                    stats["history_renders"] += 1
                                    evaluations += 1
                                    want = recorded[(hsrc, dt, di, sup)]
                                    if o != want:
                                        chk.finding("oracle:history-dependent-output",
                                                    f"{hsrc!r} with default_trim={dt!r} suppress={sup} rendered {want!r} at first and "
                                                    f"{o!r} after other environments rendered the same text ({how}; order {perm})",
                                                    {"source": hsrc, "default_trim": dt, "suppress": sup, "data": d,
                                                     "first": want, "later": o, "order": perm, "how": how,
                                                     "templates_that_failed_just_before": last_fail})
                                        if len(extra_items) < 20:
                                            num_, mk_, rw_ = meta[(hsrc, dt)]
                                            extra_items.append(case_item(dt, sup, num_, di, o, mk_, rw_, hsrc, "history: " + how))
                        env.suppress_blank_control_flow_blocks = True
        gitems: list[dict[str, Any]] = list(extra_items)
        for (dt, sup, di), es in exp.items():
            es = [e if e >= 0 else len(outc) for e in es]
            args = (f"(Build_cfg {WC_COQ[dt]} {C.cbool(sup)}) P{sfx} {C.cnat(npos)} D{di}{sfx} TBL{sfx} OUTC{sfx} NS{sfx} "
                    f"{C.clist(map(str, es), 'N')}")
            gitems.append({
                "case": "check_sweep " + args,
                "model": "sweep_failures " + args,
                "replay": {"program": items, "default_trim": dt, "suppress": sup, "data": datas[di],
                           "how": "model = assignment numbers on which Trim.observe differs from the implementation "
                                  "(base-4 digits, least significant first: 0 none, 1 '-', 2 '~', 3 '+')",
                           "sources_by_assignment_number": dict(list(srcs.items())[:40])}})
        if texts_expected is not None:
            gitems.append({
                "case": (f"list_eqb str_eqb (texts_of (content_pairs (fst (parse_items Plus Plus Default None P{sfx})))) "
                         + C.clist((C.cstr(t) for t in texts_expected), "str")),
                "model": f"texts_of (content_pairs (fst (parse_items Plus Plus Default None P{sfx})))",
                "replay": {"program": items, "content_texts": texts_expected}})
        defs = [f"Definition P{sfx} : tree := {c_tree(model_items)}."]
        defs += [f"Definition D{i}{sfx} : data := {c_data(d)}." for i, d in enumerate(datas)]
        defs.append(f"Definition TBL{sfx} : list str := {tbl.coq()}.")
        defs.append(f"Definition OUTC{sfx} : list outcome := {C.clist(outc, 'outcome')}.")
        defs.append(f"Definition NS{sfx} : list N := {C.clist(map(str, nums), 'N')}.")
        runner.submit({"tag": f"c18_{os.getpid()}_p{pi:03d}{'s' if do_split else ''}{'g' if glue else ''}", "defs": "\n".join(defs), "items": gitems})
        if len(samples) < 5 and origin in ("random", "small") and pi % 7 == 0 and not do_split and not glue:
            ms = msets[len(msets) // 2]
            src = to_source(items, iter(ms[:npos]), iter(ms[npos:]))
            samples.append({"source": src, "default_trim": "-", "suppress": True, "data": datas[0],
                            "output": impl.run(src, "-", datas[:1])["outs"][(0, True)],
                            "marker_positions": npos, "assignments_run": len(msets), "exhaustive": exh})

    for pi, prog in enumerate(programs):
        origin, items = prog[0], prog[1]
        fixed = prog[2] if len(prog) > 2 else None
        run_program(pi, origin, items, False, fixed)
        if origin in ("corpus", "random") and (thorough or pi % 2 == 0):
            run_program(pi, origin, items, True)
        if origin in ("corpus", "small", "random") and (thorough or pi % (4 if origin == "random" else 2) == 1):
            run_program(pi, origin, items, False, None, glue=True)   # markers written directly against the words
    set_glued(False)

    # ---- Environment.trim on its own: every (default_trim, left, right) per text
    W = impl.W
    order = [W.PLUS, W.MINUS, W.TILDE, W.DEFAULT]
    texts = ["", " ", "\n", "\r\n", " a ", "\r\n a \r\n", "\n \n", " \r", "\r \n", "\t\va\f\x1c", "a", "\u200b", " \u200b ",
             "\n\u200b\r", "\x85a\xa0", "\u2028\n", "\n\u2029", "\r\u3000\n", " \u200ba\u1680 "]
    texts += [ch + "a" + ch for ch in WS_CHARS] + [ch for ch in WS_CHARS]
    for _ in range(600 if thorough else 120):
        texts.append(gen_text(r))
    for _ in range(100 if thorough else 30):
        texts.append("".join(r.choice(["\r", "\n", " ", "\r\n", "x", r.choice(WS_CHARS)]) for _ in range(r.randint(1, 7))))
    trim_items = []
    trim_envs = {W.PLUS: impl.envs["+"], W.MINUS: impl.envs["-"], W.TILDE: impl.envs["~"], W.DEFAULT: Environment()}
    trim_envs[W.DEFAULT].default_trim = W.DEFAULT
    for text in texts:
        tb = Table()
        got: dict[tuple, str] = {}
        # the environments (one per default_trim, long-lived: they rendered all
        # the programs above) are asked in a different order for every text,
        # twice: a result must not depend on what another environment trimmed
        for _round in range(2):
            for dt in r.sample(order, 4):
                for l in order:
                    for rr in order:
                        got_t = trim_envs[dt].trim(text, l, rr)
                        evaluations += 1
                        if got.setdefault((dt, l, rr), got_t) != got_t:
                            chk.finding("oracle:history-dependent-output",
                                        f"env.trim({text!r}, {l}, {rr}) with default_trim {dt} gave {got[(dt, l, rr)]!r} and later {got_t!r}",
                                        {"text": text, "left": str(l), "right": str(rr), "default_trim": str(dt)})
                        if erase(got_t) != erase(text) or got_t not in text:
                            chk.finding("oracle:trim-removed-non-whitespace",
                                        f"env.trim({text!r}, {l}, {rr}) with default_trim {dt} = {got_t!r}",
                                        {"text": text, "left": str(l), "right": str(rr), "default_trim": str(dt), "result": got_t})
        exp = [tb(got[(dt, l, rr)]) for dt in order for l in order for rr in order]
        trim_items.append({
            "case": f"check_trim {C.cstr(text)} {tb.coq()} {C.clist(map(str, exp), 'N')}",
            "model": f"trim_table {C.cstr(text)}",
            "replay": {"text": text, "implementation": list(tb.idx)}})
    # ---- the whitespace set, all code points
    ws_isspace = [c for c in range(0x110000) if chr(c).isspace()]
    ws_strip = [c for c in range(0x110000) if ("x" + chr(c)).strip() == "x" and (chr(c) + "x").strip() == "x"]
    if ws_isspace != ws_strip:
        raise AssertionError("CPython: str.isspace and str.strip() disagree on the whitespace set")
    trim_items.append({
        "case": f"check_ws_table {0x110000} {C.clist(map(str, ws_isspace), 'N')}",
        "model": "filter is_ws (map N.of_nat (seq 0 13000))",
        "replay": {"cpython_whitespace_code_points": ws_isspace}})
    evaluations += 0x110000

    # ---- blank audit: suppression may only remove whitespace, for every built-in tag
    for src, d, partials in BLANK_AUDIT:
        outs = []
        for sup in (True, False):
            env = Environment(loader=DictLoader(partials))
            env.suppress_blank_control_flow_blocks = sup
            for is_async in (False, True):
                try:
                    t = env.from_string(src)
                    outs.append(asyncio.run(t.render_async(**d)) if is_async else t.render(**d))
                except Exception as e:  # noqa: BLE001
                    outs.append(f"<{type(e).__name__}>")
        evaluations += 4
        if outs[0] != outs[1] or outs[2] != outs[3]:
            chk.finding("oracle:async-differs-from-sync",
                        f"render_async() and render() differ on {src!r}: suppress on {outs[1]!r} / {outs[0]!r}, off {outs[3]!r} / {outs[2]!r}",
                        {"source": src, "outputs [sync on, async on, sync off, async off]": outs})
        outs = [outs[0], outs[2]]
        if erase(outs[0]) != erase(outs[1]):
            sig = "oracle:suppression-removed-text"
            chk.finding(sig, f"blank-block suppression removed text: {src!r} renders {outs[0]!r}, without suppression {outs[1]!r}",
                        {"source": src, "suppress_on": outs[0], "suppress_off": outs[1]})

    # ---- user-defined tags, written as docs/custom_tags.md describes: a node whose
    # render_to_output writes to the buffer must print wherever it stands
    from liquid2 import Node as _Node, Tag as _Tag

    class HelloNode(_Node):
        def render_to_output(self, context: Any, buffer: Any) -> int:
            return buffer.write("Hello")

    class HelloTag(_Tag):
        block = False

        def parse(self, stream: Any) -> Any:
            return HelloNode(stream.current())

    class QuietNode(_Node):                       # updates the context only; says so
        def __init__(self, token: Any) -> None:
            super().__init__(token)
            self.blank = True

        def render_to_output(self, context: Any, buffer: Any) -> int:
            context.assign("q", "Q")
            return 0

    class QuietTag(_Tag):
        block = False

        def parse(self, stream: Any) -> Any:
            return QuietNode(stream.current())

    custom_tpl = ("[{%<L> hello <R>%}|{%<L> if t <R>%}{%<L> hello <R>%}{%<L> endif <R>%}|"
                  "{%<L> for i in two <R>%} {%<L> hello <R>%} {%<L> endfor <R>%}|"
                  "{%<L> with w: 1 <R>%} {%<L> case k <R>%} {%<L> when 1 <R>%}\n{%<L> hello <R>%}{%<L> endcase <R>%}{%<L> endwith <R>%}|"
                  "{%<L> unless f <R>%} {%<L> quiet <R>%} {%<L> hello <R>%}{%<L> endunless <R>%}|"
                  "{%<L> if t <R>%} {%<L> quiet <R>%} {%<L> endif <R>%}{{<L> q <R>}}|"
                  "{%<L> capture c <R>%}{%<L> if t <R>%}{%<L> hello <R>%}{%<L> endif <R>%}{%<L> endcapture <R>%}{{<L> c <R>}}]")
    npos_c = custom_tpl.count("<L>") + custom_tpl.count("<R>")
    d_c = {"t": True, "f": False, "two": [0, 0], "k": 1}
    custom_stats = {"renders": 0}
    for ms in [[m] * npos_c for m in MARKS] + [rf.choices(MARKS, k=npos_c) for _ in range(8 if thorough else 3)]:
        src = fill_markers(custom_tpl, ms)
        for dt in DTS:
            env = Environment(default_trim=impl.wmap[dt])
            env.tags["hello"] = HelloTag(env)
            env.tags["quiet"] = QuietTag(env)
            t = env.from_string(src)
            for sup in (False, True):
                env.suppress_blank_control_flow_blocks = sup
                for path, o in (("render", t.render(**d_c)), ("render_async", run_coro(t.render_async(**d_c)))):
                    custom_stats["renders"] += 1
                    evaluations += 1
                    if erase(o) != "[Hello|Hello|HelloHello|Hello|Hello|Q|Hello]":
                        chk.finding("oracle:suppression-removed-text",
                                    f"a user-defined tag that writes 'Hello' (docs/custom_tags.md) lost its output: {path}() of {src!r} "
                                    f"default_trim={dt!r} suppress={sup} gives {o!r}",
                                    {"source": src, "default_trim": dt, "suppress": sup, "output": o, "path": path,
                                     "expected_without_whitespace": "[Hello|Hello|HelloHello|Hello|Hello|Q|Hello]"})
    stats["custom_tags"] = custom_stats

    # ---- tablerow (shopify environment): never blank, whatever its cell body
    from liquid2.shopify import Environment as ShopifyEnvironment
    shop = {dt: ShopifyEnvironment(default_trim=impl.wmap[dt]) for dt in DTS}
    tr_stats = {"programs": 0, "renders": 0, "cells_checked": 0}
    for tp in tablerow_programs(thorough):
        tr_stats["programs"] += 1
        npos_t = tp["template"].count("<L>") + tp["template"].count("<R>")
        assigns = [[m] * npos_t for m in MARKS] + [rf.choices(MARKS, k=npos_t) for _ in range(6 if thorough else 2)]
        for a_list in ([1, 2, 3, 4, 5], []):
            d = {"a": a_list, "t": True, "f": False, "two": [0, 0], "none": [], "k": 1}
            sel = a_list[tp["offset"]:]
            if tp["limit"] is not None:
                sel = sel[:tp["limit"]]
            cells = len(sel) * tp["times"]
            base: str | None = None
            for ms in assigns:
                src = fill_markers(tp["template"], ms)
                for dt in rf.sample(DTS, 3):
                    env = shop[dt]
                    try:
                        t = env.from_string(src)
                    except Exception as e:  # noqa: BLE001
                        chk.finding("oracle:marker-changes-outcome", f"tablerow program does not parse: {src!r}: {type(e).__name__}",
                                    {"source": src, "default_trim": dt})
                        continue
                    for sup in (False, True):
                        env.suppress_blank_control_flow_blocks = sup
                        o_sync = t.render(**d)
                        o_async = run_coro(t.render_async(**d))
                        tr_stats["renders"] += 2
                        evaluations += 2
                        if o_async != o_sync:
                            chk.finding("oracle:async-differs-from-sync",
                                        f"render_async() of {src!r} (shopify, default_trim={dt!r} suppress={sup}) gives {o_async!r}, render() gives {o_sync!r}",
                                        {"source": src, "default_trim": dt, "suppress": sup, "data": d})
                        e_out = erase(o_sync)
                        if base is None:
                            # first: no markers, some default_trim, suppression off; checked on its own:
                            # one <td> per selected item, and the cell text if the body writes
                            base = e_out
                            tr_stats["cells_checked"] += cells
                            if e_out.count("<td") != cells or (tp["writes"] and cells and "></td>" in e_out):
                                chk.finding("oracle:tablerow-skeleton",
                                            f"{src!r} with a={a_list} should write {cells} cells, output {o_sync!r}",
                                            {"source": src, "data": d, "output": o_sync})
                        if e_out != base:
                            chk.finding("oracle:non-whitespace-changed",
                                        f"markers/default_trim/suppression changed more than whitespace (tablerow): {src!r} "
                                        f"default_trim={dt!r} suppress={sup} gives {o_sync!r}; other configurations give (whitespace erased) {base!r}",
                                        {"source": src, "default_trim": dt, "suppress": sup, "data": d, "output": o_sync,
                                         "other_configurations_erased": base})
                    env.suppress_blank_control_flow_blocks = True
    stats["tablerow"] = tr_stats

    # ---- (fixed by /repo 33ea620) the lexer split a content run before a final newline,
    # so `-}}` does not trim the whole run
    w19 = impl.envs["+"].from_string("{{ 'a' -}} \n").render()
    if w19 != "a":
        chk.finding("content-run-split-at-final-newline",
                    f"\"{{{{ 'a' -}}}} \\n\" renders {w19!r}: the lexer's CONTENT rule splits the text ' \\n' "
                    "at '$' before the final newline and only the first piece is adjacent to the marker",
                    {"source": "{{ 'a' -}} \n", "output": w19,
                     "tokens": [str(t) for t in real_flat(impl.tokens("{{ 'a' -}} \n"))]})

    runner.finish()
    C.correspond(chk, f"c18_{os.getpid()}_trim", IMPORTS, "", trim_items,
                 what="Trim.trim / is_ws", shard=40 if thorough else 16)
    C.proofs_verdict(chk, proofs_ok)

    chk.coverage.update({
        "evaluations": evaluations,
        "distinct_nontrivial": len(nontrivial),
        "rule": ("programs = fixed corpus + every small shape (<= %d marker positions, ALL 4^p assignments of {none,-,~,+}) "
                 "+ seeded random nested programs (all-same, one-marker-at-a-time and seeded random assignments) + ill-formed block "
                 "structures; each x default_trim {+,-,~} x suppress {on,off} x 2-4 data sets; text from every str.isspace() "
                 "character and U+200B mixed with printable words. non-trivial = distinct (program, assignment, default_trim, "
                 "suppress, data) whose output differs from the verbatim rendering, i.e. trimming or suppression acted. "
                 "evaluations also counts 64 env.trim calls per text and the 0x110000 code points of the whitespace table") % exhaustive_max,
        "samples": samples,
        "distribution": stats,
        "exhaustive": False,
        "tier_proved": "kernel (trim, parser carry over token trees, blank/suppression, renderer of the fragment)",
    })
    chk.assumptions += [
        "the model works on the token tree the lexer produced (checked token by token against env.tokenize on every case); the lexer itself is Kernels/Lex.v's subject",
        "expressions of the fragment are data parameters (variable values, condition truth, loop lengths, case subjects): capture_opaque holds by construction, captured text is only ever written out whole",
        "break/continue, include/render, macros, inheritance and filters are outside the modelled fragment; their `blank` flags are audited by a fixed corpus only",
        "model of the code after proposed_fixes/C18 (RawNode.blank = /repo 2bbeefc, case first-tag carry = /repo b6d566b) and /repo 4e4e9da (case else)",
    ]
