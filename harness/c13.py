"""C13 — file-system and package loaders never read outside their roots.

Tie: every template name of the exhaustive / seeded name sets is loaded through
the real loaders of /repo (FileSystemLoader, CachingFileSystemLoader,
PackageLoader, ChoiceLoader, CachingChoiceLoader; one / many / reversed /
relative search paths; several default extensions), from Python (sync and
async) and from `include` / `render` / `extends` inside a template (sync and
async), on a scratch tree that has decoy files outside the search paths.  The
outcome (found: source text and path / TemplateNotFoundError / other exception
class) is compared with `get_source` of the Coq model Kernels/PathResolve.v,
evaluated on the same name, the same loader configuration and the listing of
the scratch tree as the model's file system.

Oracle (failing-input search, the property itself): the file whose content was
returned has its os.path.realpath strictly below the realpath of one of the
loader's search directories; names that begin with '/' or have a '..'
component raise TemplateNotFoundError; nothing raises anything else.
"""

from __future__ import annotations

import asyncio
import errno
import itertools
import json
import multiprocessing
import os
import shutil
import sys
import tempfile
import warnings
from concurrent.futures import ThreadPoolExecutor
from pathlib import Path
from typing import Any

from . import common as C

IMPORTS = "From LQ Require Import Kernels.PathResolve."
NEEDED = ["theories/Base/Str.v", "theories/Kernels/PathResolve.v",
          "theories/Proofs/PathResolve_proofs.v"]

PKG = "c13pkg"

# ------------------------------------------------------------------ the tree
# Paths are relative to T = <scratch>/c13pkg (an importable package).  The
# search directories are T/a and T/b; everything else is a decoy.

R1_FILES = [
    "a", "a.liquid", "a.b", "a..b", "a.", "a..", "a...liquid",
    "b/a", "b/a.liquid", "b/a.b", "b/b/a", "b/.a", "b/...liquid",
    ".a", ".a.b", ".a.liquid", "...", "...liquid", "...b", "....b", "....liquid", "..a", ".b",
    "ab/a", "ab/b.liquid",
    # seeded alphabet: unicode, backslash, tilde, blank
    "ü", "ü.liquid", "日本/ä", "日本/ä.liquid",
    "a\\b", "..\\ab", "\\", "~/a", "~/x", "~/secret.txt", "~root/x", "~b", "a b", "a b.liquid",
]
R2_FILES = [
    "a/a", "a/a.liquid", "a/b", "b", "b.liquid", "b.b", "ba", "a.b/a", ".a", "ab/a", "a.liquid/a",
    ".a.liquid", "ab/b.liquid",          # also in T/a: choice loaders must take the first member's
]
DECOYS_T = [
    "ab", "ba", "ab.liquid", "ab.b", "a.b", "a.liquid", "b.b", "b.liquid", ".a", "...liquid",
    "secret", "secret.liquid", "c/a", "c/a.liquid", "__init__.py", "ü", "a\\b",
    # directories literally named "~" and "~root": inside the search path when it is cwd = T
    "~/x", "~/secret.txt", "~/a", "~/a.liquid", "~root/x",
]
# HOME of the run is <scratch>/home: what "~" would expand to
DECOYS_OUT = ["secret", "secret.liquid", "a", "ab", "ab.liquid", "b.b",
              "home/x", "home/x.liquid", "home/secret.txt", "home/secret.liquid", "home/a", "home/a.liquid",
              "home/.a", "home/b/a"]


class Tree:
    def __init__(self) -> None:
        base = os.environ.get("VERIF_SCRATCH", "/var/tmp")
        self.outer = Path(tempfile.mkdtemp(prefix="c13_", dir=base)).resolve()
        self.T = self.outer / PKG
        self.content: dict[str, int] = {}     # absolute path -> content id
        self.by_text: dict[str, str] = {}     # file text -> absolute path

    def build(self) -> None:
        n = 0
        # the longest component the scratch file system accepts (255 bytes on ext4/overlayfs/tmpfs)
        try:
            self.name_max = int(os.pathconf(self.outer, "PC_NAME_MAX"))
        except (OSError, ValueError):
            self.name_max = 255
        m = self.name_max
        boundary = ["y" * m, "z" * (m - 7) + ".liquid", "w" * (m - 2) + ".b", "b/" + "y" * m]
        for rel_dir, names in ((self.T / "a", R1_FILES + boundary), (self.T / "b", R2_FILES),
                               (self.T, DECOYS_T), (self.outer, DECOYS_OUT)):
            for nm in names:
                p = rel_dir / nm
                p.parent.mkdir(parents=True, exist_ok=True)
                n += 1
                text = f"# K{n}" if nm == "__init__.py" else f"K{n}"   # importable, still unique
                p.write_text(text, encoding="utf-8")
                self.content[str(p)] = n
                if text:
                    self.by_text[text] = str(p)

    def remove(self) -> None:
        shutil.rmtree(self.outer, ignore_errors=True)


# ------------------------------------------------------- loader configurations
# (label, kind, roots, ext): roots are keys of ROOT_SPECS; kind:
#   fsl | cfsl (absolute search paths)
#   rel | crel (FileSystemLoader / CachingFileSystemLoader with search paths RELATIVE to the
#               process cwd = T, as written in ROOT_SPECS: '.', '', Path(), './a' ...)
#   pkg | choice (list of member configs) | cchoice

# key -> (search path as given to a relative loader / package_path, components below T)
ROOT_SPECS: dict[str, tuple[Any, list[str]]] = {
    "a": ("a", ["a"]), "b": ("b", ["b"]),
    ".": (".", []), "": ("", []), "Path()": (Path(), []), "./a": ("./a", ["a"]), "b/": ("b/", ["b"]),
    # given as an ABSOLUTE path even inside a list of relative ones
    "/a": ("ABS", ["a"]), "/b": ("ABS", ["b"]),
}


CONFIGS: list[tuple[str, str, Any, Any]] = [
    ("fsl[a]", "fsl", ["a"], None),
    ("fsl[a].liquid", "fsl", ["a"], ".liquid"),
    ("fsl[a,b]", "fsl", ["a", "b"], None),
    ("fsl[a,b].liquid", "fsl", ["a", "b"], ".liquid"),
    ("fsl[b,a].b", "fsl", ["b", "a"], ".b"),
    ("fsl-rel[a,b]", "rel", ["a", "b"], None),
    ("fsl[b]ext''", "fsl", ["b"], ""),
    ("cfsl[a,b]", "cfsl", ["a", "b"], None),
    ("cfsl[a].liquid", "cfsl", ["a"], ".liquid"),
    ("pkg[a]", "pkg", ["a"], ".liquid"),
    ("pkg[a,b].b", "pkg", ["a", "b"], ".b"),
    ("pkg[b,a]ext''", "pkg", ["b", "a"], ""),
    ("choice[fsl[a].liquid,pkg[b]]", "choice",
     [("", "fsl", ["a"], ".liquid"), ("", "pkg", ["b"], ".liquid")], None),
    ("choice[pkg[b],choice[fsl[a]]]", "choice",
     [("", "pkg", ["b"], ".liquid"), ("", "choice", [("", "fsl", ["a"], None)], None)], None),
    ("cchoice[fsl[b],fsl[a]]", "cchoice",
     [("", "fsl", ["b"], None), ("", "fsl", ["a"], None)], None),
    # the search path is the current directory: a joined path begins with the template name
    ("fsl-rel[.]", "rel", ["."], None),
    ("fsl-rel[''].liquid", "rel", [""], ".liquid"),
    ("fsl-rel[./a,Path()]", "rel", ["./a", "Path()"], None),
    ("cfsl-rel[b/,.]", "crel", ["b/", "."], None),
    ("choice[pkg[b],fsl-rel[.]]", "choice",
     [("", "pkg", ["b"], ".liquid"), ("", "rel", ["."], None)], None),
    ("pkg[.]", "pkg", ["."], ".liquid"),
]


# Degenerate search-path sequences (run on every seeded name and every exhaustive
# name up to DEGENERATE_MAXLEN): zero search directories must serve NOTHING, not
# fall back to the package root or the cwd; duplicates and "" mixed with real paths.
DEGENERATE_MAXLEN = 4
CONFIGS_D: list[tuple[str, str, Any, Any]] = [
    ("fsl[]", "fsl", [], None),
    ("fsl[].liquid", "rel", [], ".liquid"),
    ("cfsl[]", "cfsl", [], None),
    ("pkg[]", "pkg", [], ".liquid"),
    ("pkg()", "pkg", (), ".liquid"),
    ("choice[]", "choice", [], None),
    ("cchoice[fsl[],pkg[]]", "cchoice", [("", "fsl", [], None), ("", "pkg", [], ".liquid")], None),
    ("fsl-rel['',/b,'']", "rel", ["", "/b", ""], None),
    ("fsl[a,a,b,a].liquid", "fsl", ["a", "a", "b", "a"], ".liquid"),
    ("pkg[a,a]", "pkg", ["a", "a"], ".liquid"),
    ("cfsl-rel[.,.,/a]", "crel", [".", ".", "/a"], None),
]
ALL_CONFIGS = CONFIGS + CONFIGS_D


def cfg_roots(cfg: tuple) -> list[str]:
    _, kind, roots, _ = cfg
    if kind in ("choice", "cchoice"):
        out: list[str] = []
        for m in roots:
            out += cfg_roots(m)
        return out
    return list(roots)


def mk_loader(cfg: tuple, T: Path):
    from liquid2 import (CachingChoiceLoader, CachingFileSystemLoader, ChoiceLoader,
                         FileSystemLoader, PackageLoader)
    _, kind, roots, ext = cfg
    if kind == "fsl":
        sp: Any = [T.joinpath(*ROOT_SPECS[r][1]) for r in roots]
        if len(sp) == 1:
            sp = str(sp[0])          # a single str search path
        return FileSystemLoader(sp, ext=ext)
    if kind in ("rel", "crel"):
        sp = [str(T.joinpath(*ROOT_SPECS[r][1])) if ROOT_SPECS[r][0] == "ABS" else ROOT_SPECS[r][0] for r in roots]
        if len(sp) == 1:
            sp = sp[0]               # a single str / Path search path: ".", "", Path()
        if kind == "rel":
            return FileSystemLoader(sp, ext=ext)
        return CachingFileSystemLoader(sp, ext=ext, capacity=50)
    if kind == "cfsl":
        return CachingFileSystemLoader([str(T.joinpath(*ROOT_SPECS[r][1])) for r in roots], ext=ext, capacity=50)
    if kind == "pkg":
        pp: Any = ROOT_SPECS[roots[0]][0] if len(roots) == 1 else type(roots)(ROOT_SPECS[r][0] for r in roots)
        return PackageLoader(PKG, package_path=pp, ext=ext)      # [] stays a list, () a tuple
    members = [mk_loader(m, T) for m in roots]
    if kind == "choice":
        return ChoiceLoader(members)
    return CachingChoiceLoader(members, capacity=50)


# ---------------------------------------------------------- implementation run

ACCESS = ["py", "py_async", "include", "include_async", "render", "render_async",
          "extends", "extends_async"]

_W: dict[str, Any] = {}


def _worker_init(outer: str) -> None:
    warnings.simplefilter("ignore")
    T = Path(outer) / PKG
    if outer not in sys.path:
        sys.path.append(outer)
    # worker processes only: cwd is the scratch package directory (relative search
    # paths resolve against it) and HOME is a scratch decoy directory, so that a
    # "~" that got expanded would be seen by the oracle
    os.chdir(T)
    os.environ["HOME"] = str(Path(outer) / "home")
    from liquid2 import Environment
    envs = []
    for cfg in CONFIGS:
        env = Environment(loader=mk_loader(cfg, T))
        envs.append((env, env.from_string("{% include n %}")))
    _W["envs"] = envs
    _W["envs_d"] = []
    for cfg in CONFIGS_D:
        env = Environment(loader=mk_loader(cfg, T))
        _W["envs_d"].append((env, env.from_string("{% include n %}")))
    _W["loop"] = asyncio.new_event_loop()
    # FileSystemLoader / PackageLoader hop to the loop's default executor twice per
    # load; one worker thread keeps that cheap (harness-side setting only)
    _W["loop"].set_default_executor(ThreadPoolExecutor(max_workers=1))
    _W["extra"] = {}


def _out(fn) -> tuple:
    from liquid2.exceptions import TemplateNotFoundError
    try:
        return fn()
    except TemplateNotFoundError:
        return ("N",)
    except Exception as e:  # noqa: BLE001
        return ("X", type(e).__name__)


def _literal_ok(env, tag: str, name: str):
    """A template `{% tag 'name' %}` whose parsed literal is exactly `name`, or None."""
    if "'" in name:
        return None
    try:
        t = env.from_string("{% " + tag + " '" + name + "' %}")
        if len(t.nodes) != 1 or getattr(t.nodes[0].name, "value", None) != name:
            return None
        return t
    except Exception:  # noqa: BLE001
        return None


async def _aout(coro) -> tuple:
    from liquid2.exceptions import TemplateNotFoundError
    try:
        return await coro
    except TemplateNotFoundError:
        return ("N",)
    except Exception as e:  # noqa: BLE001
        return ("X", type(e).__name__)


async def _async_env(env, inc, name: str, lits: list) -> list:
    """The four async access paths of one loader configuration, in sequence."""
    async def pya():
        t = await env.get_template_async(name)
        return ("F", await t.render_async(), str(t.path))

    async def rend(t, **kw):
        return ("F", await t.render_async(**kw))

    res = [await _aout(pya()), await _aout(rend(inc, n=name))]
    for t in lits:
        res.append(None if t is None else await _aout(rend(t)))
    return res


async def _async_all(jobs: list) -> list:
    return await asyncio.gather(*[_async_env(*j) for j in jobs])


def _touches_disk(name: str) -> bool:
    """Does the unguarded join of the name (with or without a default extension)
    to a search directory hit anything on disk?  Conservative: True on doubt."""
    try:
        p = Path(name)
        cands = [p]
        if p.name:
            cands += [p.with_name(p.name + e) for e in (".liquid", ".b")]
        for root in ("a", "b", "."):
            for c in cands:
                if os.path.lexists(os.path.join(root, str(c))):      # cwd = T
                    return True
        return False
    except Exception:  # noqa: BLE001
        return True


def _run_envs(envs: list, name: str, full: bool = True) -> list[list]:
    """For each (env, include-template) the outcome of each access path (order: ACCESS).
    full=False (exhaustive names of exactly the length bound): if get_template and
    `include` answer TemplateNotFoundError in every configuration and the
    unguarded join of the name touches nothing on disk, the literal-tag and the
    four async access paths are not run (None)."""
    def py(env):
        t = env.get_template(name)
        return ("F", t.render(), str(t.path))

    base = [[_out(lambda: py(env)), _out(lambda: ("F", inc.render(n=name)))] for env, inc in envs]
    if not (full or any(o[0] != "N" for row in base for o in row) or _touches_disk(name)):
        return [[r[0], None, r[1], None, None, None, None, None] for r in base]
    sync, jobs = [], []
    for (env, inc), row in zip(envs, base):
        lits = [_literal_ok(env, "render", name), _literal_ok(env, "extends", name)]
        row = list(row)
        for t in lits:
            row.append(None if t is None else _out(lambda t=t: ("F", t.render())))
        sync.append(row)
        jobs.append((env, inc, name, lits))
    asy = _W["loop"].run_until_complete(_async_all(jobs))
    # interleave: py, py_async, include, include_async, render, render_async, extends, extends_async
    return [[s[0], a[0], s[1], a[1], s[2], a[2], s[3], a[3]] for s, a in zip(sync, asy)]


def _run_names(names: list[tuple[str, bool, bool]]) -> list[list[list]]:
    """For each (name, full, degenerate), for each config (CONFIGS, then CONFIGS_D if
    degenerate), the outcome of each access path."""
    return [_run_envs(_W["envs"] + (_W["envs_d"] if deg else []), name, full) for name, full, deg in names]


def _run_extra(job: tuple) -> list:
    """(cfg, name) on a loader built on demand (extension sweep)."""
    cfg, name = job
    from liquid2 import Environment
    key = repr(cfg)
    if key not in _W["extra"]:
        try:
            env = Environment(loader=mk_loader(cfg, Path.cwd()))
            _W["extra"][key] = (env, env.from_string("{% include n %}"))
        except Exception as e:  # noqa: BLE001
            _W["extra"][key] = ("ctor", type(e).__name__)
    ent = _W["extra"][key]
    if ent[0] == "ctor":
        return [("X", ent[1])] * 4 + [None] * 4
    return _run_envs([ent], name)[0]


# ------------------------------------------------- histories on a LIVE loader
# A history is run on ONE loader object whose search path changes between loads:
#   kind "fsl" / "cfsl": the application reassigns loader.search_path
#       (CachingFileSystemLoader has namespace_key="ns" and every load passes the
#        number of reassignments so far as ns, so the parsed-template cache misses
#        after a reassignment);
#   kind "tfsl" / "tcfsl": a get_source()/get_source_async() override narrows the
#       search path to <T>/<tenant> per load, tenant taken from the keyword
#       arguments or from the render context (docs/loading_templates.md, "Load
#       context"); the caching flavour has namespace_key="tenant".
# ops: ("set", [root keys]) | ("load", name, access index, tenant or None)


def _tenant_class(base: type) -> type:
    class TenantLoader(base):  # type: ignore[misc,valid-type]
        base_dir: Path

        def _narrow(self, context, kwargs) -> None:  # type: ignore[no-untyped-def]
            t = kwargs.get("tenant")
            if t is None and context is not None:
                t = context.globals.get("tenant")
            self.search_path = [self.base_dir / str(t)] if t is not None else []

        def get_source(self, env, template_name, *, context=None, **kwargs):  # type: ignore[no-untyped-def]
            self._narrow(context, kwargs)
            return super().get_source(env, template_name, context=context, **kwargs)

        async def get_source_async(self, env, template_name, *, context=None, **kwargs):  # type: ignore[no-untyped-def]
            self._narrow(context, kwargs)
            return await super().get_source_async(env, template_name, context=context, **kwargs)

    return TenantLoader


def _load_once(env, inc, name: str, acc: int, kw: dict) -> tuple | None:
    """One load through access path ACCESS[acc]; kw goes to get_template / into the render globals."""
    run = _W["loop"].run_until_complete
    if acc == 0:
        def py():
            t = env.get_template(name, **kw)
            return ("F", t.render(), str(t.path))
        return _out(py)
    if acc == 1:
        async def pya():
            t = await env.get_template_async(name, **kw)
            return ("F", await t.render_async(), str(t.path))
        return run(_aout(pya()))
    if acc in (2, 3):
        t = inc
        data = dict(kw, n=name)
    else:
        t = _literal_ok(env, "render" if acc in (4, 5) else "extends", name)
        data = dict(kw)
        if t is None:
            return None
    if acc % 2 == 0:
        return _out(lambda: ("F", t.render(**data)))

    async def rend():
        return ("F", await t.render_async(**data))
    return run(_aout(rend()))


def _run_history(h: dict) -> list:
    """Returns, per load op, (outcome on the live loader, outcome of a fresh
    FileSystemLoader built with the search path current at that moment)."""
    from liquid2 import CachingFileSystemLoader, Environment, FileSystemLoader
    T = Path.cwd()
    kind, ext = h["kind"], h["ext"]
    if kind == "fsl":
        loader = FileSystemLoader([], ext=ext)
    elif kind == "cfsl":
        loader = CachingFileSystemLoader([], ext=ext, namespace_key="ns", capacity=20)
    elif kind == "tfsl":
        loader = _tenant_class(FileSystemLoader)([], ext=ext)
        loader.base_dir = T
    else:
        loader = _tenant_class(CachingFileSystemLoader)([], ext=ext, namespace_key="tenant", capacity=20)
        loader.base_dir = T
    env = Environment(loader=loader)
    inc = env.from_string("{% include n %}")
    current: list[str] = []
    epoch = 0
    out = []
    for op in h["ops"]:
        if op[0] == "set":
            current = list(op[1])
            loader.search_path = [T.joinpath(*ROOT_SPECS[k][1]) for k in current]
            epoch += 1
            continue
        _, name, acc, tenant = op
        if tenant is not None:
            kw = {"tenant": tenant}
            current = [tenant]
        else:
            kw = {"ns": f"s{epoch}"}
        live = _load_once(env, inc, name, acc, kw)
        fenv = Environment(loader=FileSystemLoader([T.joinpath(*ROOT_SPECS[k][1]) for k in current], ext=ext))
        fresh = _load_once(fenv, None, name, 0, {})
        out.append((live, fresh, list(current)))
    return out


HIST_NAMES = ["a", "b", "b/a", "a/a", ".a", "ab/a", "a.b", "ba", "x", "../ab", "~/x", "b/b/a", "ab/b"]
HIST_SETS = [["a"], ["b"], ["a", "b"], ["b", "a"], [], ["."]]


def gen_histories(tier: str) -> list[dict]:
    hs: list[dict] = []
    # systematic: load, switch, load the same name again, switch back, load again
    switches = [(["a"], ["b"]), (["b"], ["a"]), (["a", "b"], ["b"]), (["."], ["a"]), (["a"], [])]
    for kind in ("fsl", "cfsl"):
        for ext in (None, ".liquid"):
            for acc in range(len(ACCESS)):
                for name in HIST_NAMES:
                    for A, B in switches:
                        hs.append({"kind": kind, "ext": ext, "ops": [
                            ("set", A), ("load", name, acc, None), ("set", B), ("load", name, acc, None),
                            ("set", A), ("load", name, acc, None)]})
    for kind in ("tfsl", "tcfsl"):
        for ext in (None, ".liquid"):
            for acc in range(len(ACCESS)):
                for name in HIST_NAMES:
                    for t1, t2 in (("a", "b"), ("b", "a")):
                        hs.append({"kind": kind, "ext": ext, "ops": [
                            ("load", name, acc, t1), ("load", name, acc, t2), ("load", name, acc, t1)]})
    # seeded: longer histories, access paths mixed (a memo filled by one path, read by another)
    r = C.rng("c13", "histories")
    for _ in range(300 if tier != "thorough" else 3000):
        kind = r.choice(["fsl", "cfsl", "tfsl", "tcfsl"])
        ext = r.choice([None, None, ".liquid"])
        pool = r.sample(HIST_NAMES, 3)
        ops: list[tuple] = []
        if kind in ("fsl", "cfsl"):
            ops.append(("set", r.choice(HIST_SETS)))
        for _ in range(r.randint(4, 10)):
            if kind in ("fsl", "cfsl"):
                if r.random() < 0.35:
                    ops.append(("set", r.choice(HIST_SETS)))
                else:
                    ops.append(("load", r.choice(pool), r.randrange(len(ACCESS)), None))
            else:
                ops.append(("load", r.choice(pool), r.randrange(len(ACCESS)), r.choice(["a", "b"])))
        hs.append({"kind": kind, "ext": ext, "ops": ops})
    return hs


def _run_histories(hs: list[dict]) -> list[list]:
    return [_run_history(h) for h in hs]


# ------------------------------------------------------------------ Coq terms

PYKIND = {
    "ValueError": "ValueError", "UnicodeEncodeError": "UnicodeError", "UnicodeDecodeError": "UnicodeError",
    "OSError": "OSError", "IsADirectoryError": "OSError", "FileNotFoundError": "OSError",
    "NotADirectoryError": "OSError", "PermissionError": "OSError", "TypeError": "TypeError",
    "IndexError": "IndexError", "KeyError": "KeyError", "AttributeError": "AttributeError",
}


def c_path(s: str) -> str:
    """A path string as printed by pathlib (already normalised) as a model ppath."""
    if s.startswith("//") and not s.startswith("///"):
        anchor, rest = "Root2", s[2:]
    elif s.startswith("/"):
        anchor, rest = "Root1", s.lstrip("/")
    else:
        anchor, rest = "Rel", s
    segs = [x for x in rest.split("/") if x and x != "."]
    return f"(mkpath {anchor} {C.clist(map(C.cstr, segs), 'str')})"


def c_root(r: str, rel: bool = False) -> str:
    segs = C.clist(map(C.cstr, ROOT_SPECS[r][1]), "str")
    return f"(mkpath Rel {segs})" if rel and ROOT_SPECS[r][0] != "ABS" else f"(mkpath Root1 (TT ++ {segs}))"


def c_loader(cfg: tuple) -> str:
    _, kind, roots, ext = cfg
    if kind in ("choice", "cchoice"):
        return "(Choice " + C.clist(map(c_loader, roots), "loader") + ")"
    rs = C.clist((c_root(r, kind in ("rel", "crel")) for r in roots), "ppath")
    if kind == "pkg":
        return f"(PKG {rs} {C.cstr(ext)})"
    return f"(FSL {rs} {C.copt(C.cstr(ext) if ext is not None else None, 'str')})"


def c_defs(tree: Tree, paths: list[str]) -> str:
    tsegs = [x for x in str(tree.T).split("/") if x]
    osegs = tsegs[:-1]
    groups: dict[str, list[str]] = {"A": [], "B": [], "T": [], "O": []}
    for p, cid in sorted(tree.content.items(), key=lambda kv: kv[1]):
        rel = [x for x in p.split("/") if x][len(osegs):]
        if rel[0] == PKG and rel[1] in ("a", "b") and len(rel) > 2:
            g, key = rel[1].upper(), rel[2:]
        elif rel[0] == PKG:
            g, key = "T", rel[1:]
        else:
            g, key = "O", rel
        groups[g].append(f"({C.clist(map(C.cstr, key), 'str')}, {cid})")
    return "\n".join([
        f"Definition OO : list str := {C.clist(map(C.cstr, osegs), 'str')}.",
        f"Definition TT : list str := Eval vm_compute in OO ++ [{C.cstr(PKG)}].",
        # the regular files of the scratch tree: below T/a, below T/b, elsewhere below T,
        # elsewhere below the scratch directory OO (keys: components below that directory)
        f"Definition FILES_A : list (list str * N) := {C.clist(groups['A'], '(list str * N)')}.",
        f"Definition FILES_B : list (list str * N) := {C.clist(groups['B'], '(list str * N)')}.",
        f"Definition FILES_T : list (list str * N) := {C.clist(groups['T'], '(list str * N)')}.",
        f"Definition FILES_O : list (list str * N) := {C.clist(groups['O'], '(list str * N)')}.",
        "Fixpoint lookup (l : list (list str * N)) (k : list str) : option N :=",
        "  match l with [] => None | (k', c) :: l' => if list_eqb str_eqb k k' then Some c else lookup l' k end.",
        "Fixpoint strip (pre l : list str) : option (list str) :=",
        "  match pre, l with",
        "  | [], _ => Some l",
        "  | x :: pre', y :: l' => if str_eqb x y then strip pre' l' else None",
        "  | _, [] => None",
        "  end.",
        # the OS view of a lexical path: '//' is '/', a relative path is below cwd = T;
        # nothing but the scratch tree is listed
        "Definition below_T (rel : list str) : option N :=",
        "  match rel with",
        f"  | x :: rest => if str_eqb x {C.cstr('a')} then match lookup FILES_A rest with Some c => Some c | None => lookup FILES_T rel end",
        f"                 else if str_eqb x {C.cstr('b')} then match lookup FILES_B rest with Some c => Some c | None => lookup FILES_T rel end",
        "                 else lookup FILES_T rel",
        "  | [] => None",
        "  end.",
        "Definition FS : filesys := fun p =>",
        "  match p_anchor p with",
        "  | Rel => below_T (p_segs p)",
        "  | _ => match strip TT (p_segs p) with",
        "         | Some rel => below_T rel",
        "         | None => match strip OO (p_segs p) with Some rel => lookup FILES_O rel | None => None end",
        "         end",
        "  end.",
        f"Definition PATHS : list ppath := {C.clist(map(c_path, paths), 'ppath')}.",
        f"Definition LOADERS : list loader := Eval vm_compute in {C.clist(map(c_loader, CONFIGS), 'loader')}.",
        "Definition n_ := ENotFound.",
        "Definition f_ := EFound.",
        "Definition x_ := EExc.",
        "Definition chk := all_match FS PATHS LOADERS.",
        # sparse form: the configurations not listed answered TemplateNotFoundError
        "Fixpoint look (i : nat) (sp : list (nat * expect)) : expect :=",
        "  match sp with [] => ENotFound | (j, e) :: sp' => if Nat.eqb i j then e else look i sp' end.",
        "Definition chks (name : str) (sp : list (nat * expect)) :=",
        "  chk name (map (fun i => look i sp) (seq 0 (length LOADERS))).",
        f"Definition LOADERS2 : list loader := Eval vm_compute in LOADERS ++ {C.clist(map(c_loader, CONFIGS_D), 'loader')}.",
        "Definition chks2 (name : str) (sp : list (nat * expect)) :=",
        "  all_match FS PATHS LOADERS2 name (map (fun i => look i sp) (seq 0 (length LOADERS2))).",
        "Definition one (l : loader) (name : str) (e : expect) := outcome_matches PATHS (get_source FS l name) e.",
        "Definition onec (l : loader) (name : str) (c : N) :=",
        "  match get_source FS l name with Ok (_, c') => N.eqb c c' | _ => false end.",
    ])


class Enc:
    """Expected-outcome printer (path table filled while printing)."""

    def __init__(self, tree: Tree) -> None:
        self.tree = tree
        self.paths: list[str] = []
        self.ix: dict[str, int] = {}

    def content_id(self, text: str) -> int:
        p = self.tree.by_text.get(text)
        return self.tree.content[p] if p else 0      # 0: not a file of the tree

    def expect(self, o: tuple) -> str:
        if o[0] == "N":
            return "n_"
        if o[0] == "X":
            return f"(x_ {PYKIND.get(o[1], 'OtherPyError')})"
        ps = o[2]                                     # relative for a relative search path
        if ps not in self.ix:
            self.ix[ps] = len(self.paths)
            self.paths.append(ps)
        return f"(f_ {self.content_id(o[1])} {self.ix[ps]}%nat)"


# --------------------------------------------------------------------- oracle


def is_escaping(name: str) -> bool:
    """The property's own wording, on the string: absolute or a '..' segment."""
    return name.startswith("/") or ".." in name.split("/")


class Oracle:
    def __init__(self, tree: Tree, chk: C.Check) -> None:
        self.tree = tree
        self.chk = chk
        self.real_roots = {r: os.path.realpath(tree.T.joinpath(*segs)) for r, (_, segs) in ROOT_SPECS.items()}
        self.failures = 0
        self.by_sig: dict[str, int] = {}

    def under_a_root(self, text: str, roots: list[str]) -> bool:
        p = self.tree.by_text.get(text)
        if p is None:
            return False
        rp = os.path.realpath(p)
        for r in roots:
            rr = self.real_roots[r]
            if rp != rr and os.path.commonpath([rp, rr]) == rr and os.path.isfile(rp):
                return True
        return False

    def check(self, cfg: tuple, name: str, access: str, o: tuple) -> None:
        roots = cfg_roots(cfg)
        sig = what = None
        if o[0] == "F":
            inside = self.under_a_root(o[1], roots)
            src = self.tree.by_text.get(o[1], "<a file that is not part of the scratch tree>")
            kind = "absolute-name" if name.startswith("/") else "dotdot-name" if is_escaping(name) else None
            if not inside:
                sig = "read-outside-search-path:" + (kind or "ordinary-name")
                what = (f"template name {name!r} returned the content of {src}, which is OUTSIDE every search "
                        "directory of the loader")
            elif kind:
                sig = kind + "-served"
                what = (f"template name {name!r} ({'absolute' if kind == 'absolute-name' else 'has a .. segment'}) was "
                        f"served ({src}) instead of raising TemplateNotFoundError")
        elif o[0] == "X":
            sig = "non-TemplateNotFoundError:" + o[1]
            what = f"template name {name!r} raised {o[1]} instead of TemplateNotFoundError"
        if sig:
            self.failures += 1
            self.by_sig[sig] = self.by_sig.get(sig, 0) + 1
            if self.by_sig[sig] > 1:
                return               # one witness per mechanism: the first one
            self.chk.finding(sig, f"{cfg[0]} via {access}: {what}",
                             {"loader": cfg[0], "search_directories": roots, "ext": cfg[3], "name": name,
                              "access": access, "outcome": list(o),
                              "how": "harness/c13.py: Tree() then mk_loader(cfg) and the access path named"})


# ----------------------------------------------------------------- generators

SEG_POOL = ["a", "b", "ab", "ba", ".", "..", "", "...", ".a", "a.", "a..", "a.b", "a.liquid", "b.liquid",
            "..a", "...liquid", "ü", "日本", "ä", "~", "a\\b", "..\\ab", "\\", "\0", "a\0",
            "a b", "secret", "c", "__init__.py", "b.b", ".b", "-", "*", "\ud800", "\udc80", "a\n", "%2e%2e",
            "．．", "∕", "a'b", PKG]


def exhaustive_names(maxlen: int) -> list[str]:
    out = []
    for n in range(maxlen + 1):
        out += ["".join(t) for t in itertools.product("ab./", repeat=n)]
    return out


def seeded_names(tree: Tree, tier: str) -> list[str]:
    out: list[str] = []
    # every file of the scratch tree (inside and outside the search directories)
    # by its absolute path, with 1, 2 and 3 leading slashes, with and without
    # its extension
    for p in tree.content:
        stems = {p}
        for e in (".liquid", ".b"):
            if p.endswith(e):
                stems.add(p[: -len(e)])
        for s in sorted(stems):
            out += [s, "/" + s, "//" + s, s + "/", s + "/."]
    # name-length boundaries: a component of NAME_MAX bytes exists in T/a ("y"*m, and
    # "z"*(m-7) + ".liquid" for the default extension); one more byte cannot exist on the
    # file system at all (ENAMETOOLONG), nor can a path longer than PATH_MAX
    m = tree.name_max
    out += ["y" * (m - 1), "y" * m, "y" * (m + 1), "x" * (m + 1), "x" * (m + 45), "a/" + "x" * (m + 1),
            "b/" + "y" * m, "b/" + "y" * (m + 1), "x" * (m + 1) + "/a", "x" * (m + 1) + ".liquid",
            "z" * (m - 7), "z" * (m - 6), "z" * (m - 8), "x" * (m - 5), "w" * (m - 2), "w" * (m - 1),
            "ü" * (m // 2), "ü" * (m // 2 + 1), "../" + "x" * (m + 1), "/" + "x" * (m + 1), "~/" + "x" * (m + 1),
            "ab/" * 1400 + "a", "./" * 2100 + "a", ("x" * 200 + "/") * 21 + "a"]
    for p in ("/etc/passwd", "/etc/hostname", "/etc/hosts"):
        if os.path.isfile(p):
            out += [p, "/" + p, "//" + p, "a/.." * 8 + p, "../" * 12 + p[1:]]
    # "~" never expands: these are ordinary relative names (directories literally
    # called "~", "~root" exist in the tree; $HOME/x, $HOME/secret.txt, ~root/<file> exist outside)
    out += ["~/x", "~/secret.txt", "~/secret", "~/a", "~/b/a", "~/.a", "~//x", "~/./x", "./~/x", "a/~/x", "a/~/a",
            "b/~/x", "~root/x", "~root", "~root/", "~nosuchuser13/x", "~/x/", "~/x.liquid", "~x", "~~/x", "~/~/x",
            "~/../home/x", "~/..", "a/~", "a/~root/x",
            # environment-variable look-alikes: ordinary names too
            "$HOME/x", "${HOME}/secret.txt", "$HOME", "a/$HOME/x", "%HOME%/x",
            # files of the package directory itself: inside the search path only when that is cwd
            "__init__.py", "./__init__.py", "__init__", "secret", "ab", "c/a", "a/../__init__.py"]
    try:
        import pwd
        hd = pwd.getpwnam("root").pw_dir
        for f in (".bashrc", ".profile", ".bash_logout"):
            if os.path.isfile(os.path.join(hd, f)):
                out += ["~root/" + f, "a/~root/" + f]
                break
    except Exception:  # noqa: BLE001
        pass
    out += ["~", "~/a", "~root", "~/", "\\", "a\\b", "..\\ab", "..\\..\\ab", "a\0", "\0", "a\0/../ab", "../ab\0",
            "ü", "日本/ä", "日本/../ü", "a b", " ", " /a", "a/ ", "..%2fab",
            "．．/ab", "..∕ab", f"../{PKG}/ab", f"../../{PKG}/a/a", f"../../{tree.outer.name}/{PKG}/a/a",
            "b/../../ab", "b/../a", "./../ab", ".//../ab", "../ab/", "../ab/.", "..//ab", "b/b/../../../ab",
            "../secret", "../../secret", "../c/a", "../__init__.py", "..", "../", "../.", "./..", "...", "....",
            "a/../../a", "\ud800", "\udc80/a", "a\n", "b/a\n"]
    r = C.rng("c13", "names")
    n = 400 if tier != "thorough" else 4000
    for _ in range(n):
        pre = r.choice(["", "", "", "", "/", "//", "///", "./", "../", "a/", "b/"])
        segs = [r.choice(SEG_POOL) for _ in range(r.randint(1, 4))]
        post = r.choice(["", "", "", "/", "//", "/.", "/.."])
        out.append(pre + "/".join(segs) + post)
    seen, uniq = set(), []
    for s in out:
        if s not in seen:
            seen.add(s)
            uniq.append(s)
    return uniq


EXTS = ["", ".", "..", ".l", "liquid", ".a/b", "/", ".liquid", ".a.b", "a.", ". ", ".\0"]
EXT_NAMES = ["a", "a.b", "b/a", "", ".", "..", "/x", "b", ".a", "a.", "b/b/a", "../ab"]


# ------------------------------------------------------- correspondence runner


def correspond(chk: C.Check, tag: str, imports: str, defs: str, items: list[dict[str, Any]], *,
               what: str, shard: int) -> None:
    """C.correspond, except that a shard whose coqc died WITHOUT ANY OUTPUT (killed
    from outside: the OOM killer on a loaded machine) is evaluated again, up to
    twice, before it counts as a broken correspondence.  A shard that fails with
    a Coq error message is never retried.  Reporting is that of C.correspond."""
    rc = C.run_cases(tag, imports, defs, [it["case"] for it in items], shard=shard)
    bad, errors, wall = list(rc["bad"]), [], rc["wall"]
    todo = rc["errors"]
    for attempt in (1, 2):
        killed = [e for e in todo if e.split(":", 1)[1].strip() == ""]
        errors += [e for e in todo if e not in killed]
        todo = []
        for e in killed:
            k = int(e.split(".v", 1)[0].lstrip("s"))
            sub = items[k * shard:(k + 1) * shard]
            r2 = C.run_cases(f"{tag}_retry{attempt}_{k}", imports, defs, [it["case"] for it in sub], shard=shard)
            wall += r2["wall"]
            bad += [k * shard + i for i in r2["bad"]]
            todo += [f"s{k:04d}.v:" + x.split(":", 1)[1] for x in r2["errors"]]
            chk.notes.append(f"case shard {k} was killed without output and evaluated again (attempt {attempt})")
    errors += todo
    bad.sort()
    for e in errors:
        chk.notes.append("coq case error: " + e[:400])
    if bad:
        idx = bad[:3]
        outs = C.eval_terms(tag, imports, defs, [items[i]["model"] for i in idx])
        for i, o in zip(idx, outs):
            chk.notes.append(f"{what}: model/implementation disagree on case #{i}: "
                             f"{json.dumps(items[i]['replay'], default=str)[:300]} model={o[:300]}")
        if not chk.violations:
            chk.finding("correspondence:" + what,
                        f"model and implementation disagree ({len(bad)} of {len(items)} cases); no direct property failure found",
                        {"case": items[idx[0]]["replay"], "model": outs[0], "broken": f"correspondence {what}",
                         "disagreeing_cases": bad[:50]}, no_input=True)
    elif errors and not chk.violations:
        chk.finding("correspondence:" + what + ":build", "generated case files did not evaluate",
                    {"errors": errors[:3], "broken": f"correspondence {what} (coqc on generated cases)"},
                    no_input=True)
    chk.coverage["model_cases"] = chk.coverage.get("model_cases", 0) + len(items)
    chk.coverage["model_disagreements"] = chk.coverage.get("model_disagreements", 0) + len(bad)
    chk.coverage.setdefault("correspondence_wall_s", {})[what] = round(wall, 1)


# ----------------------------------------------------------------------- main


def main(chk: C.Check, build: C.Build) -> None:
    warnings.simplefilter("ignore")
    proofs_ok = C.proof_stage(chk, build, NEEDED)
    thorough = chk.tier == "thorough"
    tree = Tree()
    try:
        tree.build()
        _main(chk, tree, thorough)
    finally:
        tree.remove()
    C.proofs_verdict(chk, proofs_ok)


def _main(chk: C.Check, tree: Tree, thorough: bool) -> None:
    maxlen = 7 if thorough else 6
    ex = exhaustive_names(maxlen)
    exset = set(ex)
    sd = [n for n in seeded_names(tree, chk.tier) if n not in exset]
    names = ex + sd
    ext_jobs = []
    for e in EXTS:
        for kind in ("fsl", "pkg"):
            for nm in EXT_NAMES:
                ext_jobs.append(((f"{kind}[a,b]ext={e!r}", kind, ["a", "b"], e), nm))

    ctx = multiprocessing.get_context("fork")
    step = 64
    # every access path for every seeded name and every exhaustive name shorter
    # than the bound; at the bound itself the async paths only where it can matter
    flagged = [(n, len(n) < maxlen, len(n) <= DEGENERATE_MAXLEN) for n in ex] + [(n, True, True) for n in sd]
    chunks = [flagged[i:i + step] for i in range(0, len(flagged), step)]
    with ctx.Pool(C.JOBS, initializer=_worker_init, initargs=(str(tree.outer),)) as pool:
        results = [r for part in pool.map(_run_names, chunks) for r in part]
        ext_results = pool.map(_run_extra, ext_jobs, chunksize=8)
        hists = gen_histories(chk.tier)
        hchunks = [hists[i:i + 40] for i in range(0, len(hists), 40)]
        hist_results = [r for part in pool.map(_run_histories, hchunks) for r in part]

    orc = Oracle(tree, chk)
    enc = Enc(tree)
    items: list[dict[str, Any]] = []
    dist = {"found": 0, "not_found": 0, "other_exception": 0, "loads": 0, "tag_paths_skipped": 0,
            "paths_skipped_at_length_bound": 0}
    nontrivial: set[str] = set()
    n_found = n_escape_target = n_dir = n_tilde = n_toolong = 0
    extra_cases = 0

    def obs(o: tuple) -> tuple:
        return o[:2]

    for name, per_cfg in zip(names, results):
        exps = []
        extras = []
        found_any = False
        for cfg, outs in zip(ALL_CONFIGS, per_cfg):
            for acc, o in zip(ACCESS, outs):
                if o is None:
                    dist["paths_skipped_at_length_bound" if outs[1] is None else "tag_paths_skipped"] += 1
                    continue
                dist["loads"] += 1
                dist[{"F": "found", "N": "not_found", "X": "other_exception"}[o[0]]] += 1
                orc.check(cfg, name, acc, o)
                if o[0] == "F":
                    found_any = True
            py = outs[0]
            exps.append(enc.expect(py))
            # every other access path must give the model's answer too
            if py[0] == "F" and outs[1] is not None and len(outs[1]) == 3 and outs[1][2] != py[2]:
                extras.append((cfg, "py_async", outs[1], enc.expect(outs[1])))
            for acc, o in zip(ACCESS[1:], outs[1:]):
                if o is not None and obs(o) != obs(py):
                    extras.append((cfg, acc, o, None))
        items.append({
            "case": ("chks " if len(per_cfg) == len(CONFIGS) else "chks2 ") + C.cstr(name) + " " + C.clist(
                (f"({k}%nat, {e})" for k, e in enumerate(exps) if e != "n_"), "(nat * expect)"),
            "model": f"map (fun l => get_source FS l {C.cstr(name)}) "
                     + ("LOADERS" if len(per_cfg) == len(CONFIGS) else "LOADERS2"),
            "replay": {"name": name, "loaders": [c[0] for c in ALL_CONFIGS[:len(per_cfg)]],
                       "implementation(py)": [list(o[0]) for o in per_cfg]},
        })
        for cfg, acc, o, e in extras:
            extra_cases += 1
            if e is None:
                if o[0] == "F":
                    case = f"onec {c_loader(cfg)} {C.cstr(name)} {enc.content_id(o[1])}"
                else:
                    case = f"one {c_loader(cfg)} {C.cstr(name)} {enc.expect(o)}"
            else:
                case = f"one {c_loader(cfg)} {C.cstr(name)} {e}"
            items.append({"case": case, "model": f"get_source FS {c_loader(cfg)} {C.cstr(name)}",
                          "replay": {"name": name, "loader": cfg[0], "access": acc, "implementation": list(o),
                                     "note": "this access path answers differently from env.get_template"}})
        # measured non-triviality of the case
        esc_target = False
        if is_escaping(name):
            for root in ("a", "b", "."):
                for e in ("", ".liquid", ".b"):
                    try:
                        j = os.path.join(str(tree.T / root), name + e)
                        if os.path.isfile(j) and not orc.under_a_root(Path(j).read_text(), [root]):
                            esc_target = True
                    except (ValueError, OSError):
                        pass
        is_dir = False
        if not is_escaping(name) and "\0" not in name:
            try:
                is_dir = any(os.path.isdir(os.path.join(str(tree.T / root), name)) for root in ("a", "b", "."))
            except (ValueError, OSError):
                is_dir = False
        # a leading "~" that WOULD expand (HOME of the run = <scratch>/home, or the
        # password database for "~user") to an existing file outside the tree roots
        tilde_target = False
        if name.startswith("~") and "\0" not in name:
            head, _, rest = name.partition("/")
            base = str(tree.outer / "home") if head == "~" else os.path.expanduser(head)
            if not base.startswith("~"):
                for e in ("", ".liquid", ".b"):
                    try:
                        tilde_target = tilde_target or os.path.isfile(os.path.join(base, rest) + e if rest else base)
                    except (ValueError, OSError):
                        pass
        n_tilde += tilde_target
        # names the file system cannot even probe below a search directory
        too_long = False
        if not is_escaping(name) and "\0" not in name:
            for e in ("", ".liquid"):
                try:
                    os.lstat(os.path.join(str(tree.T / "a"), name.rstrip("/") + e))
                except OSError as err:
                    too_long = too_long or err.errno == errno.ENAMETOOLONG
                except ValueError:
                    pass
        n_toolong += too_long
        n_found += found_any
        n_escape_target += esc_target
        n_dir += is_dir
        if found_any or esc_target or is_dir or tilde_target or too_long:
            nontrivial.add(name)

    # extension sweep (valid and invalid default extensions): model tie for
    # with_suffix / valid_suffixb; the oracle applies to valid extensions only
    for (cfg, nm), outs in zip(ext_jobs, ext_results):
        e = cfg[3]
        valid = "/" not in e and (e == "" or (e.startswith(".") and e != "."))
        for acc, o in zip(ACCESS, outs):
            if o is None:
                continue
            dist["loads"] += 1
            if valid:
                orc.check(cfg, nm, acc, o)
        py = outs[0]
        items.append({"case": f"one {c_loader(cfg)} {C.cstr(nm)} {enc.expect(py)}",
                      "model": f"get_source FS {c_loader(cfg)} {C.cstr(nm)}",
                      "replay": {"name": nm, "loader": cfg[0], "implementation": list(py)}})
        for acc, o in zip(ACCESS[1:], outs[1:]):
            if o is not None and obs(o) != obs(py):
                items.append({"case": "false", "model": f"get_source FS {c_loader(cfg)} {C.cstr(nm)}",
                              "replay": {"name": nm, "loader": cfg[0], "access": acc, "implementation": list(o),
                                         "py": list(py), "note": "access paths disagree"}})

    # histories on a live loader: containment oracle against the search path
    # current at each load, fresh-loader oracle, and the (stateless) model run
    # with the current search path; identical model cases are evaluated once
    hstat = {"histories": len(hists), "loads": 0, "found": 0, "loads_after_a_change": 0,
             "found_before_and_not_after_change": 0, "live_differs_from_fresh": 0}
    seen_cases: set[str] = set()
    for h, res in zip(hists, hist_results):
        loads = [op for op in h["ops"] if op[0] == "load"]
        first: dict[str, tuple] = {}
        for k, (op, (live, fresh, current)) in enumerate(zip(loads, res)):
            if live is None:
                dist["tag_paths_skipped"] += 1
                continue
            _, name, acc, tenant = op
            cfg = (f"live-{h['kind']}{current}" + (h["ext"] or ""), "fsl", current, h["ext"])
            hstat["loads"] += 1
            dist["loads"] += 1
            dist[{"F": "found", "N": "not_found", "X": "other_exception"}[live[0]]] += 1
            hstat["found"] += live[0] == "F"
            hstat["loads_after_a_change"] += k > 0
            if name in first and first[name][0] == "F" and obs(live) != obs(first[name]):
                hstat["found_before_and_not_after_change"] += 1
                nontrivial.add(f"history:{h['kind']}:{h['ext']}:{name}:{first[name][1]}->{current}")
            first.setdefault(name, live)
            orc.check(cfg, name, f"{ACCESS[acc]} (step {k + 1} of a history on one live {h['kind']} loader: "
                                 f"{json.dumps(h['ops'])[:300]})", live)
            if obs(live) != obs(fresh):
                hstat["live_differs_from_fresh"] += 1
                if live[0] == "F":
                    orc.failures += 1
                    orc.by_sig["live-loader-serves-what-a-fresh-loader-does-not"] = \
                        orc.by_sig.get("live-loader-serves-what-a-fresh-loader-does-not", 0) + 1
                    if orc.by_sig["live-loader-serves-what-a-fresh-loader-does-not"] == 1:
                        chk.finding("live-loader-serves-what-a-fresh-loader-does-not",
                                    f"{h['kind']} ext={h['ext']}: after the search path became {current}, {name!r} via "
                                    f"{ACCESS[acc]} returned {live[1]!r} ({tree.by_text.get(live[1])}); a fresh "
                                    f"FileSystemLoader({current}) answers {fresh[0]}",
                                    {"history": h, "step": k, "live": list(live), "fresh": list(fresh),
                                     "search_path_now": current, "how": "harness/c13.py _run_history"})
            for o, who in ((live, "live"), (fresh, "fresh")):
                if len(o) == 3:
                    case = f"one {c_loader(cfg)} {C.cstr(name)} {enc.expect(o)}"
                elif o[0] == "F":
                    case = f"onec {c_loader(cfg)} {C.cstr(name)} {enc.content_id(o[1])}"
                else:
                    case = f"one {c_loader(cfg)} {C.cstr(name)} {enc.expect(o)}"
                if case not in seen_cases:
                    seen_cases.add(case)
                    items.append({"case": case, "model": f"get_source FS {c_loader(cfg)} {C.cstr(name)}",
                                  "replay": {"name": name, "history": h, "step": k, "who": who, "search_path_now": current,
                                             "access": ACCESS[acc], "implementation": list(o)}})

    correspond(chk, "c13", IMPORTS, c_defs(tree, enc.paths), items,
               what="PathResolve.get_source", shard=400 if thorough else 350)

    samples = []
    for want in ("b/a", "../ab", "", "~/x", str(tree.T / "secret")):
        if want in names:
            i = names.index(want)
            shown = want.replace(str(tree.outer), "<scratch>")
            samples.append({"name": shown, "outcomes": {c[0]: results[i][k][0][0] for k, c in enumerate(CONFIGS)}})
    chk.coverage.update({
        "evaluations": dist["loads"],
        "distinct_nontrivial": len(nontrivial),
        "rule": (f"template names: all {len(ex)} strings over the alphabet {{a, b, ., /}} up to length {maxlen}, plus {len(sd)} "
                 "seeded names (absolute paths of every file of the scratch tree incl. the decoys with 1-3 leading slashes, "
                 "/etc/passwd, unicode, backslash, NUL, '~', lone surrogates, look-alike dots and slashes, components of NAME_MAX-1 / "
                 "NAME_MAX / NAME_MAX+1 bytes with and without room for the default extension, paths over PATH_MAX, random joins of a "
                 f"segment pool) x {len(CONFIGS)} loader configurations (FileSystemLoader, CachingFileSystemLoader, PackageLoader, "
                 "ChoiceLoader, nested ChoiceLoader, CachingChoiceLoader; one / two / reversed search paths, absolute or relative to the process cwd incl. the cwd itself as '.', '', Path(), './a', 'b/'; "
                 "HOME points at a scratch decoy directory; ext None, "
                 "'', '.liquid', '.b') x 8 access paths (get_template, get_template_async, include / render / extends in a template, "
                 f"each sync and async; for exhaustive names of exactly length {maxlen} the literal-tag and the async paths are run only when "
                 "get_template or include did not answer TemplateNotFoundError in some configuration or the unguarded join of the name, "
                 "with or without an extension, "
                 f"touches something on disk); plus {len(ext_jobs)} (default extension x name) cases incl. invalid extensions. "
                 "non-trivial = names that some configuration served from a search directory, escaping names whose unguarded join "
                 "hits an existing file outside the search directory, names that resolve to a directory, names with a leading '~' "
                 "whose user-directory expansion would hit an existing file, and names too long for the file system to probe"),
        "samples": samples,
        "distribution": dict(dist, names=len(names), names_found_somewhere=n_found,
                             escaping_names_with_existing_target=n_escape_target, names_of_directories=n_dir,
                             tilde_names_with_existing_expansion_target=n_tilde,
                             names_too_long_for_the_file_system=n_toolong,
                             extra_access_path_cases=extra_cases, live_loader_histories=hstat,
                             degenerate_configurations=len(CONFIGS_D), oracle_failures=orc.failures,
                             oracle_failures_by_signature=orc.by_sig,
                             files_in_tree=len(tree.content)),
        "exhaustive": True,
        "tier_proved": "kernel (path resolution of the loaders; all file systems, search paths, extensions, names)",
    })
    chk.assumptions += [
        "pathlib / posixpath (CPython 3.12, POSIX flavour) are modelled in parsed form (root, components); validated by this run, not verified",
        "the file system is a function from lexical paths to regular-file contents: symbolic links placed inside a search "
        "directory by the operator are outside the model; a path the OS refuses to probe (component over NAME_MAX, path "
        "over PATH_MAX, directory without search permission) is 'no file here' in the model as in the code (fix 0004); "
        "name-length boundaries are in the run, permissions cannot be (the checks run as root)",
        "PackageLoader over a package that is a directory on disk (importlib.resources.files returns a PosixPath); zip imports are outside the model",
        "the model is of the loaders with the four fix: patches of /verif/proposed_fixes/C13 applied",
    ]
