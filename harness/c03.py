"""C03 — async rendering is observationally identical to sync rendering.

Parts (all run on every check):

1. STATIC TIE  harness/c03_twins.py pairs every `foo` / `foo_async` of
   LIQUID2_REPO/liquid2, normalises the async half and diffs the ASTs.  Pairs
   that differ must be listed, with the digest of their difference, in
   harness/c03_twins_reviewed.json together with the model
   (Kernels/AsyncTwin.v) that covers them.  Anything new / changed / stale is a
   broken correspondence: the dynamic oracle below is the failing-input
   search, and without a failing input the check still reports VIOLATION …
   no-failing-input-found.
2. DYNAMIC ORACLE  generated programs x data x loaders x environments:
   render vs asyncio.run(render_async), get_template vs get_template_async,
   analyze vs analyze_async, liquid2.render vs render_async, and the whole
   compliance suite both ways.  Same output, or the same error class at the
   same token index in the same template.
3. SCHEDULES  a deterministic driver steps k <= 3 render coroutines whose
   await points (async drop access, loader.get_source_async) suspend
   explicitly; all interleavings when <= 500, seeded random otherwise; every
   interleaved result must equal the solo result.  The recorded witness of
   the known finding shared-cached-template-globals-rebound is replayed.
4. CORRESPONDENCE  each model function of Kernels/AsyncTwin.v and the two
   instances of Kernels/Interleave.v is run against the real method it
   transcribes, called in isolation.
"""

from __future__ import annotations

import asyncio
import itertools
import json
import os
import shutil
import tempfile
import time
import warnings
from pathlib import Path
from typing import Any, Callable

from . import c03_gen as G
from . import c03_twins as T
from . import common as C

IMPORTS = ("From LQ Require Import Kernels.LRU Kernels.CacheLoader Kernels.AsyncTwin Kernels.Interleave.\n"
           "Local Open Scope Z_scope.\nLocal Open Scope N_scope.")
NEEDED = ["theories/Base/Str.v", "theories/Kernels/LRU.v", "theories/Kernels/CacheLoader.v",
          "theories/Kernels/AsyncTwin.v", "theories/Kernels/Interleave.v",
          "theories/Proofs/LRU_proofs.v", "theories/Proofs/CacheLoader_proofs.v",
          "theories/Proofs/AsyncTwin_proofs.v", "theories/Proofs/Interleave_proofs.v"]

SCRATCH = os.environ.get("VERIF_SCRATCH", "/var/tmp")


# ---------------------------------------------------------------- outcomes


def outcome(fn: Callable[[], Any]) -> tuple:
    """Canonical outcome of a call: ("ok", value) | ("err", class, token start,
    template name) for LiquidError | ("exc", class) for anything else."""
    from liquid2.exceptions import LiquidError
    try:
        return ("ok", fn())
    except LiquidError as e:
        tok = getattr(e, "token", None)
        start = getattr(tok, "start", None) if tok is not None else None
        return ("err", type(e).__name__, start, str(getattr(e, "template_name", None) or ""))
    except RecursionError:
        return ("exc", "RecursionError")
    except Exception as e:  # noqa: BLE001
        return ("exc", type(e).__name__)


def arun(coro: Any) -> Any:
    loop = asyncio.new_event_loop()
    try:
        return loop.run_until_complete(coro)
    finally:
        loop.close()


# ------------------------------------------------------------- environments

ENV_KINDS = ["default", "escape", "strict", "limits", "shopify", "default", "strict_escape", "limits"]
LOADER_KINDS = ["dict", "cdict", "cdict_ns", "fs", "cfs", "choice", "cchoice"]


def make_env(env_kind: str, loader_kind: str, templates: dict[str, str], root: Path | None) -> Any:
    import liquid2
    from liquid2 import (CachingChoiceLoader, CachingDictLoader, CachingFileSystemLoader, ChoiceLoader,
                         DictLoader, FileSystemLoader, StrictUndefined)
    from liquid2.shopify import Environment as ShopifyEnvironment

    if loader_kind == "dict":
        loader: Any = DictLoader(dict(templates))
    elif loader_kind == "cdict":
        loader = CachingDictLoader(dict(templates), capacity=3)
    elif loader_kind == "cdict_ns":
        loader = CachingDictLoader(dict(templates), namespace_key="ns", capacity=4)
    elif loader_kind in ("fs", "cfs"):
        assert root is not None
        for name, src in templates.items():
            p = root / name
            p.parent.mkdir(parents=True, exist_ok=True)
            p.write_text(src)
        loader = FileSystemLoader(root) if loader_kind == "fs" else CachingFileSystemLoader(root, capacity=3)
    else:
        names = sorted(templates)
        first = {n: templates[n] for n in names[::2]}
        second = {n: templates[n] for n in names[1::2]}
        ls = [DictLoader(first), DictLoader(second)]
        loader = ChoiceLoader(ls) if loader_kind == "choice" else CachingChoiceLoader(ls, capacity=3)

    base = ShopifyEnvironment if env_kind == "shopify" else liquid2.Environment
    attrs: dict[str, Any] = {}
    if env_kind == "limits":
        attrs = {"loop_iteration_limit": 7, "output_stream_limit": 160, "context_depth_limit": 12,
                 "local_namespace_limit": 400}
    cls = type("VEnv", (base,), attrs)
    kw: dict[str, Any] = {"loader": loader}
    if env_kind in ("escape", "strict_escape"):
        kw["auto_escape"] = True
    if env_kind in ("strict", "strict_escape"):
        kw["undefined"] = StrictUndefined
    if loader_kind == "cdict_ns":
        kw["globals"] = {"ns": "tenant"}
    return cls(**kw)


# ------------------------------------------------------------ dynamic oracle


def analysis_repr(a: Any) -> Any:
    def vs(m: dict[str, list[Any]]) -> Any:
        return sorted((k, sorted((str(v), str(getattr(v, "span", v))) for v in lst)) for k, lst in m.items())
    return (vs(a.variables), vs(a.globals), vs(a.locals), vs(a.filters), vs(a.tags))


def template_repr(t: Any, root: str = "") -> Any:
    path = str(t.path)
    if root and path.startswith(root):
        path = "<root>" + path[len(root):]
    return (t.name, path, str(t), sorted(map(str, t.global_data)), sorted(map(str, t.overlay_data)),
            t.uptodate is not None)


def strip_root(o: tuple, root: str) -> tuple:
    """Error outcomes carry the template's full path: make it relative to the
    scratch root of the side that produced it."""
    if root and o[0] == "err" and o[3].startswith(root):
        return o[:3] + ("<root>" + o[3][len(root):],)
    return o


def four_way(case: dict[str, Any], root: Path | None) -> dict[str, Any]:
    """Run one generated case both ways on separate, identically configured
    environments. Returns the observations."""
    import random as _random
    main, tpls = case["main"], case["templates"]
    obs: dict[str, Any] = {}

    def fresh(sub: str) -> tuple[Any, dict[str, Any], str]:
        r = None if root is None else root / sub
        if r is not None:
            r.mkdir(parents=True, exist_ok=True)
        env = make_env(case["env"], case["loader"], tpls, r)
        data = G.make_data(_random.Random(case["data_seed"]), (lambda: asyncio.sleep(0)))
        return env, data, ("" if r is None else str(r))

    env_s, data_s, root_s = fresh("s")
    env_a, data_a, root_a = fresh("a")
    gl = case.get("globals")
    gt_s = outcome(lambda: env_s.get_template(main, globals=gl))
    gt_a = outcome(lambda: arun(env_a.get_template_async(main, globals=gl)))
    obs["get_template"] = (strip_root(gt_s, root_s) if gt_s[0] != "ok" else ("ok", template_repr(gt_s[1], root_s)),
                           strip_root(gt_a, root_a) if gt_a[0] != "ok" else ("ok", template_repr(gt_a[1], root_a)))
    if gt_s[0] == "ok" and gt_a[0] == "ok":
        ts, ta = gt_s[1], gt_a[1]
        obs["render"] = (strip_root(outcome(lambda: ts.render(**data_s)), root_s),
                         strip_root(outcome(lambda: arun(ta.render_async(**data_a))), root_a))
        obs["drop_reads"] = (data_s["o"].sync_reads + data_s["o"].async_reads,
                             data_a["o"].sync_reads + data_a["o"].async_reads, data_a["o"].async_reads)
        # a second render of the same objects (caches warm, same drops)
        obs["render2"] = (strip_root(outcome(lambda: ts.render(**data_s)), root_s),
                          strip_root(outcome(lambda: arun(ta.render_async(**data_a))), root_a))

        def an(o: tuple, rt: str) -> tuple:
            o = strip_root(o, rt)
            return o if o[0] != "ok" or not rt else ("ok", json.loads(json.dumps(o[1]).replace(rt, "<root>")))
        an_s = an(outcome(lambda: analysis_repr(ts.analyze())), root_s)
        an_a = an(outcome(lambda: analysis_repr(arun(ta.analyze_async()))), root_a)
        obs["analyze"] = (json.loads(json.dumps(an_s)), json.loads(json.dumps(an_a)))
        # a second load of the same name with other globals on the same
        # environments (a cache hit for the caching loaders), rendered
        g2 = {"gg": "second"}
        obs["get_template2"] = (
            strip_root(outcome(lambda: env_s.get_template(main, globals=g2).render(**data_s)), root_s),
            strip_root(outcome(lambda: arun(arun(env_a.get_template_async(main, globals=g2)).render_async(**data_a))), root_a))
        # crossed: the template loaded by the sync path rendered async
        env_x, data_x, root_x = fresh("x")
        tx = outcome(lambda: env_x.get_template(main, globals=gl))
        if tx[0] == "ok":
            obs["render_cross"] = (obs["render"][0], strip_root(outcome(lambda: arun(tx[1].render_async(**data_x))), root_x))
    return obs


def compare(obs: dict[str, Any]) -> str | None:
    for k in ("get_template", "render", "render2", "analyze", "get_template2", "render_cross"):
        if k in obs and obs[k][0] != obs[k][1]:
            return k
    return None


def gen_case(r: Any, i: int, tier: str) -> dict[str, Any]:
    env_kind = ENV_KINDS[i % len(ENV_KINDS)] if r.random() < 0.8 else r.choice(ENV_KINDS)
    loader_kind = r.choice(LOADER_KINDS)
    g = G.Gen(r, shopify=(env_kind == "shopify"), max_depth=r.choice([2, 3, 3, 4] if tier == "thorough" else [2, 3, 3]))
    main, tpls = g.template_set()
    tpls[main] += "{{ gg }}"
    return {"main": main, "templates": tpls, "env": env_kind, "loader": loader_kind,
            "data_seed": r.randrange(1 << 30), "globals": r.choice([None, None, {"gg": 1}])}


# Fixed cases run before the generated ones (past disagreements, defect witnesses).
CORPUS: list[dict[str, Any]] = [
    {"main": "main", "env": "default", "loader": "dict", "data_seed": 1, "globals": None,
     "templates": {"main": "{% include 'snippets/foo.html' with v %}{% render 'snippets/foo.html' with v %}",
                   "snippets/foo.html": "[{{ foo }}|{{ snippets }}]"}},
    {"main": "pages/main.html", "env": "default", "loader": "fs", "data_seed": 2, "globals": None,
     "templates": {"pages/main.html": "{% render 'snippets/row.liquid' for xs %}{{ o.nested.x }}",
                   "snippets/row.liquid": "({{ row }}{{ forloop.index }})"}},
    {"main": "main", "env": "strict", "loader": "cdict_ns", "data_seed": 3, "globals": {"gg": 1},
     "templates": {"main": "{% if false %}{% elsif o.x %}A{{ u }}{% endif %}"}},
    {"main": "main", "env": "limits", "loader": "dict", "data_seed": 5, "globals": None,
     "templates": {"main": "{% include 'plain' for (1..9) %}", "plain": "({{ plain }})"}},
    {"main": "main", "env": "limits", "loader": "cdict", "data_seed": 6, "globals": None,
     "templates": {"main": "{% for x in (1..3) %}{% render 'sub/plain.html' for (1..3) %}{% endfor %}", "sub/plain.html": "({{ plain }})"}},
    {"main": "main", "env": "limits", "loader": "dict", "data_seed": 7, "globals": None,
     "templates": {"main": "{% for x in (1..2) %}{% include 'plain' for (1..4) %}{% endfor %}", "plain": "({{ plain }})"}},
    {"main": "main", "env": "shopify", "loader": "dict", "data_seed": 8, "globals": None,
     "templates": {"main": "{% tablerow x in o.items cols: 2 limit: 3 offset: 1 %}{{ x }}{{ tablerowloop.col }}{% endtablerow %}"}},
    {"main": "main", "env": "default", "loader": "choice", "data_seed": 4, "globals": None,
     "templates": {"main": "{% for x in xs offset: continue %}{{ x }}{% endfor %}{% for x in xs limit: 1 %}{{ x }}{% endfor %}"
                           "{% for x in xs offset: continue %}{{ x }}{% break %}{% endfor %}"}},
]


def run_dynamic(chk: C.Check, r: Any, n: int, root: Path, stats: dict[str, Any]) -> None:
    cases = list(CORPUS) + [gen_case(r, i, chk.tier) for i in range(n)]
    for i, case in enumerate(cases):
        sub = root / f"d{i}"
        needs_fs = case["loader"] in ("fs", "cfs")
        try:
            obs = four_way(case, sub if needs_fs else None)
        finally:
            if needs_fs:
                shutil.rmtree(sub, ignore_errors=True)
        stats["dynamic_cases"] += 1
        rd = obs.get("render")
        if rd:
            kind = rd[0][0] if rd[0][0] != "err" else "err:" + rd[0][1]
            stats["render_outcomes"][kind] = stats["render_outcomes"].get(kind, 0) + 1
            if obs["drop_reads"][2] > 0:
                stats["awaited_drop_cases"] += 1
            src = "".join(case["templates"].values())
            if obs["drop_reads"][2] > 0 or "include" in src or "render" in src or "extends" in src:
                stats["nontrivial"].add(json.dumps([case["main"], case["templates"], case["env"], case["loader"], case["data_seed"]], sort_keys=True))
            stats["loaders"][case["loader"]] = stats["loaders"].get(case["loader"], 0) + 1
            stats["envs"][case["env"]] = stats["envs"].get(case["env"], 0) + 1
        bad = compare(obs)
        if bad:
            s_, a_ = obs[bad]
            chk.finding(f"sync-async:{bad}", f"{bad}: sync gives {str(s_)[:160]}, async gives {str(a_)[:160]}",
                        {"case": case, "which": bad, "sync": s_, "async": a_,
                         "how": "harness/c03.py four_way(case): render(**data) vs asyncio render_async(**data); data = c03_gen.make_data(Random(data_seed))"})
        if len(stats["samples"]) < 3 and rd and i >= len(CORPUS):
            stats["samples"].append({"main": case["main"], "env": case["env"], "loader": case["loader"],
                                     "source": case["templates"][case["main"]][:300], "sync": str(rd[0])[:120]})


def run_cts(chk: C.Check, stats: dict[str, Any]) -> None:
    from liquid2 import DictLoader, Environment
    p = C.REPO / "tests" / "liquid2-compliance-test-suite" / "cts.json"
    tests = json.loads(p.read_text())["tests"]
    for t in tests:
        def mk() -> Any:
            return Environment(loader=DictLoader(dict(t.get("templates") or {})))
        env_s, env_a = mk(), mk()
        data = t.get("data") or {}
        s_ = outcome(lambda: env_s.from_string(t["template"]).render(**data))
        a_ = outcome(lambda: arun(env_a.from_string(t["template"]).render_async(**data)))
        stats["cts_cases"] += 1
        if s_ != a_:
            chk.finding("sync-async:cts", f"CTS case {t['name']!r}: sync {str(s_)[:120]} async {str(a_)[:120]}",
                        {"cts_case": t, "sync": s_, "async": a_})


def run_toplevel(chk: C.Check, stats: dict[str, Any]) -> list[dict[str, Any]]:
    """liquid2.render / render_async (module level) + the model of the let-binding."""
    import liquid2
    items = []
    for src, data in [("{{ a }}b", {"a": 1}), ("{% if %}", {}), ("{{ 1 | divided_by: 0 }}", {}), ("{% for x in 3 %}{% endfor %}", {})]:
        s_ = outcome(lambda: liquid2.render(src, **data))
        a_ = outcome(lambda: arun(liquid2.render_async(src, **data)))
        stats["toplevel_cases"] += 1
        if s_ != a_:
            chk.finding("sync-async:toplevel", f"liquid2.render vs render_async on {src!r}: {s_} vs {a_}",
                        {"source": src, "data": data, "sync": s_, "async": a_})
        parse_ok = outcome(lambda: liquid2.parse(src))[0] == "ok"
        fs = "(fun _ : unit => Ok tt)" if parse_ok else "(fun _ : unit => LErr LiquidSyntaxError None)"
        rt = f"(fun _ : unit => {c_res_str(s_, nopos=True)})" if parse_ok else "(fun _ : unit => Ok [])"
        for fn, real in (("toplevel_render", s_), ("toplevel_render_async", a_)):
            items.append({"case": f"res_eqb_nopos str_eqb ({fn} {fs} {rt} tt) {c_res_str(real, nopos=True)}",
                          "model": f"{fn} {fs} {rt} tt", "replay": {"fn": fn, "source": src, "real": real}})
    return items


# ------------------------------------------------------------- Coq printers

LCLASSES = {"LiquidSyntaxError", "LiquidTypeError", "LiquidNameError", "LiquidValueError", "UndefinedError",
            "TemplateNotFoundError", "TemplateInheritanceError", "RequiredBlockError", "DisabledTagError",
            "TranslationSyntaxError", "ResourceLimitError", "ContextDepthError", "LoopIterationLimitError",
            "OutputStreamLimitError", "LocalNamespaceLimitError", "UnknownFilterError", "LiquidIndexError"}
PYKINDS = {"IndexError", "ValueError", "KeyError", "TypeError", "OverflowError", "ZeroDivisionError",
           "AssertionError", "OSError", "AttributeError", "RecursionError"}


def c_err(o: tuple, nopos: bool = False) -> str:
    if o[0] == "err":
        cls = o[1] if o[1] in LCLASSES else "OtherLiquidError"
        pos = "None" if (nopos or o[2] is None) else f"(Some {C.cZ(o[2])})"
        return f"(LErr {cls} {pos})"
    kind = o[1] if o[1] in PYKINDS else "OtherPyError"
    if kind == "FileNotFoundError":
        kind = "OSError"
    return f"(PyExc {kind})"


def c_res_str(o: tuple, nopos: bool = False) -> str:
    return f"(Ok {C.cstr(o[1])})" if o[0] == "ok" else c_err(o, nopos)


def c_res(o: tuple, val: Callable[[Any], str], nopos: bool = False) -> str:
    return f"(Ok {val(o[1])})" if o[0] == "ok" else c_err(o, nopos)


def zlist(xs: list[int]) -> str:
    return C.clist((C.cZ(x) for x in xs), "Z")


# ----------------------------------------------- correspondence: loader names


def corr_load(chk: C.Check, thorough: bool, stats: dict[str, Any]) -> list[dict[str, Any]]:
    """BaseLoader.load / load_async on DictLoader names with directories, and
    the variable that `include NAME with` binds."""
    from liquid2 import DictLoader, Environment
    alphabet = ["a", "b", "/", ".", ".."]
    names: list[str] = []
    for n in range(1, 5 if thorough else 4):
        for tup in itertools.product(alphabet, repeat=n):
            names.append("".join(tup))
    names += ["snippets/foo.html", "a/b/c.d.e", "./a.b", "a/./b.c", "a//b", "/a/b", "a/b/", "x.y/z", ""]
    names = sorted(set(names))
    items = []
    pool = ["a", "b", "ab", "ba", "aa", "bb", "c", "foo", "z"]
    probe = "|".join("{{ %s }}" % k for k in pool)
    for name in names:
        env = Environment(loader=DictLoader({name: "T"}))
        tpl = f"[({C.cstr(name)}, {C.cstr('T')})]"
        for fn, call in (("base_load", lambda: env.loader.load(env, name, globals={"g": 3})),
                         ("base_load_async", lambda: arun(env.loader.load_async(env, name, globals={"g": 3})))):
            o = outcome(call)
            stats["load_cases"] += 1
            if o[0] == "ok":
                t = o[1]
                exp = (f"(Ok {{| tt_text := {C.cstr(str(t))}; tt_name := {C.cstr(t.name)}; tt_path := {C.cstr(str(name) if t.path is not None else '')};"
                       f" tt_globals := {t.global_data.get('g', 0)}; tt_overlay := {len(t.overlay_data)}; tt_uptodate := {C.copt(None if t.uptodate is None else '1', 'N')} |}})")
                real: Any = {"name": t.name, "path": str(t.path), "uptodate": t.uptodate is not None}
                # pathlib normalises the path for printing; the model keeps the
                # loader's string, so the raw full name is what we embed.
            else:
                exp, real = c_err(o, nopos=True), o
            model = f"{fn} (dict_get_source {tpl}) {C.cstr(name)} 3"
            items.append({"case": f"res_eqb_nopos ttemplate_eqb ({model}) {exp}", "model": model,
                          "replay": {"fn": fn, "name": name, "real": real}})
        # the key bound by `with`: find where V shows up among the probes
        ident = [k for k in pool]
        env2 = Environment(loader=DictLoader({name: probe, "main!": "{% include n with 'V' %}", "rmain!": "{% render NAME with 'V' %}"}))
        outs = (outcome(lambda: env2.get_template("main!").render(n=name)),
                outcome(lambda: arun(env2.get_template("main!").render_async(n=name))))
        if outs[0] != outs[1]:
            chk.finding("sync-async:with-key", f"include {name!r} with: sync {outs[0]} async {outs[1]}",
                        {"name": name, "sync": outs[0], "async": outs[1]})
        for fn, o in zip(("base_load", "base_load_async"), outs):
            if o[0] != "ok":
                continue
            cells = o[1].split("|")
            bound = [ident[i] for i, c in enumerate(cells) if c == "V"]
            model = (f"match {fn} (dict_get_source {tpl}) {C.cstr(name)} 0 with Ok t => Some (with_key None t) | _ => None end")
            if len(bound) == 1:
                case = f"option_eqb str_eqb ({model}) (Some {C.cstr(bound[0])})"
            else:
                # bound to a name outside the probe pool: the model must agree it is outside
                case = ("match " + model + " with Some k => negb (mem_str k "
                        + C.clist(map(C.cstr, pool), "str") + ") | None => false end")
            items.append({"case": case, "model": model, "replay": {"fn": fn + "+with_key", "name": name, "output": o[1]}})
            stats["load_cases"] += 1
    return items


# --------------------------------------- correspondence: LoopExpression.evaluate


def corr_loop(chk: C.Check, r: Any, thorough: bool, stats: dict[str, Any]) -> list[dict[str, Any]]:
    from liquid2 import Environment, RenderContext
    from liquid2.builtin import StringLiteral
    from liquid2.builtin.expressions import Continue
    items = []
    combos = []
    offs = [None, "continue", "'2'", "'x'", "'0'", "1", "0", "3", "ov", "'continue'", "'7'", "-2", "9", "'-1'"]
    lims = [None, "0", "1", "2", "lv", "9", "-1"]
    for off in offs:
        for lim in lims:
            for rev in (False, True):
                combos.append((off, lim, rev))
    if not thorough:
        combos = [c for c in combos if r.random() < 0.55 or c[0] in ("continue", "'2'", "'x'")]
    for off, lim, rev in combos:
        for ae in (False, True):
            n = r.choice([0, 1, 3, 5, 6])
            xs = [r.randrange(0, 50) for _ in range(n)]
            it_kind = r.choice(["xs", "xs", "xs", "bad"])
            ov = r.choice([0, 1, 2, 4, None, -3, 11])
            lv = r.choice([0, 1, 3, None, -2])
            stop0 = r.choice([0, 0, 1, 2, 4, 7])
            src = "{% for x in " + ("xs" if it_kind == "xs" else "bad") + (f" limit: {lim}" if lim else "") \
                + (f" offset: {off}" if off else "") + (" reversed" if rev else "") + " %}{% endfor %}"
            env = Environment(auto_escape=ae)
            t = env.from_string(src)
            expr = t.nodes[0].expression
            data = {"xs": xs, "bad": 5, "ov": ov, "lv": lv}
            key = f"{expr.identifier}-{expr.iterable}"

            def run(meth: str) -> tuple:
                ctx = RenderContext(t, global_data=dict(data))
                ctx.tag_namespace["stopindex"][key] = stop0

                def go() -> Any:
                    if meth == "evaluate":
                        it, length = expr.evaluate(ctx)
                    else:
                        it, length = arun(expr.evaluate_async(ctx))
                    return (list(it), length, ctx.stopindex(key))
                return outcome(go)

            def to_int_res(v: Any, tok: int) -> str:
                return f"(Ok {C.cZ(v)})" if isinstance(v, int) else f"(LErr LiquidTypeError (Some {C.cZ(tok)}))"

            li_items = f"(Ok {zlist(xs)})" if it_kind == "xs" else f"(LErr LiquidTypeError (Some {C.cZ(expr.token.start)}))"
            if lim is None:
                li_limit = "None"
            else:
                lt = expr.limit.token.start
                lval = lv if lim == "lv" else int(lim)
                li_limit = f"(Some {to_int_res(lval, lt)})"
            if off is None:
                li_off = "OffNone"
            else:
                ot = expr.offset.token.start
                if isinstance(expr.offset, Continue):
                    # the keyword (its own expression since /repo C20/0005); the model's OffStr "continue"
                    li_off = f"(OffStr {C.cstr('continue')} {C.cZ(ot)})"
                elif isinstance(expr.offset, StringLiteral):
                    # a string is converted like any other value (int(str) or LiquidTypeError), also 'continue'
                    try:
                        sval: Any = int(expr.offset.value)
                    except ValueError:
                        sval = None
                    li_off = f"(OffVal {to_int_res(sval, ot)} {C.cZ(ot)})"
                else:
                    oval = ov if off == "ov" else int(off)
                    li_off = f"(OffVal {to_int_res(oval, ot)} {C.cZ(ot)})"
            inp = (f"{{| li_items := {li_items}; li_limit := {li_limit}; li_offset := {li_off}; li_reversed := {C.cbool(rev)};"
                   f" li_stopindex := {C.cZ(stop0)}; li_auto_escape := {C.cbool(ae)} |}}")
            outs = {}
            for meth, fn in (("evaluate", "loop_evaluate"), ("evaluate_async", "loop_evaluate_async")):
                o = run(meth)
                outs[meth] = o
                stats["loop_cases"] += 1
                if o[0] == "ok":
                    lst, length, stop = o[1]
                    exp = f"(Ok {{| lo_items := {zlist(lst)}; lo_length := {C.cZ(length)}; lo_stopindex := {C.cZ(stop)} |}})"
                else:
                    exp = c_err(o)
                items.append({"case": f"res_eqb loop_out_eqb ({fn} {inp}) {exp}", "model": f"{fn} {inp}",
                              "replay": {"fn": fn, "source": src, "data": data, "stopindex": stop0, "auto_escape": ae, "real": o}})
            if outs["evaluate"] != outs["evaluate_async"]:
                chk.finding("sync-async:LoopExpression.evaluate", f"{src}: sync {outs['evaluate']} async {outs['evaluate_async']}",
                            {"source": src, "data": data, "stopindex": stop0, "auto_escape": ae, **outs})
    return items


# ------------------------------------------------ correspondence: small twins


def corr_small(chk: C.Check, r: Any, thorough: bool, stats: dict[str, Any]) -> list[dict[str, Any]]:  # noqa: PLR0915
    import liquid2
    from liquid2 import DictLoader, Environment, RenderContext, StrictUndefined
    from liquid2.builtin.tags.render_tag import RenderNode, RenderTag
    from liquid2.exceptions import LiquidTypeError, LiquidValueError
    from io import StringIO
    items: list[dict[str, Any]] = []

    def both(tag: str, s_: tuple, a_: tuple, replay: dict[str, Any]) -> None:
        stats["small_cases"] += 2
        if s_ != a_:
            chk.finding("sync-async:" + tag, f"{tag}: sync {str(s_)[:150]} async {str(a_)[:150]}",
                        {**replay, "sync": s_, "async": a_})

    # ---- Filter.evaluate: class, token and message
    def f_ok(v: Any) -> Any:
        return "R"

    def f_te(v: Any) -> Any:
        raise TypeError("boom")

    def f_lte(v: Any) -> Any:
        raise LiquidTypeError("lboom", token=None)

    def f_lve(v: Any) -> Any:
        raise LiquidValueError("vboom", token=None)

    def f_zd(v: Any) -> Any:
        raise ZeroDivisionError("z")

    def f_ve(v: Any) -> Any:
        raise ValueError("vz")

    def f_ke(v: Any) -> Any:
        raise KeyError("k")

    def f_args(v: Any, a: Any) -> Any:
        return "A"

    env = Environment()
    env.filters.update({"fok": f_ok, "fte": f_te, "flte": f_lte, "flve": f_lve, "fzd": f_zd, "fve": f_ve, "fke": f_ke, "fargs": f_args})
    calls = {"fok": "(FRet {v})", "fte": "(FRaise (FTypeError {m}))", "flte": "(FRaise (FLiquidTypeError {m} None))",
             "flve": "(FRaise (FOtherLiquid LiquidValueError None))", # ValueError and ArithmeticError are converted like TypeError (/repo 8585e2b); a KeyError escapes
             "fzd": "(FRaise (FTypeError {m}))", "fve": "(FRaise (FTypeError {m}))", "fke": "(FRaise (FPy KeyError))"}
    for name, tmpl in calls.items():
        for pad in ("", "   "):
            t = env.from_string("{{" + pad + " 1 | " + name + " }}")
            flt = t.nodes[0].expression.filters[0]

            def msg_outcome(fn: Callable[[], Any]) -> tuple:
                try:
                    return ("ok", fn())
                except liquid2.exceptions.LiquidError as e:
                    return ("err", type(e).__name__, e.token.start if e.token else None, e.message)
                except Exception as e:  # noqa: BLE001
                    return ("exc", type(e).__name__)
            ctx = RenderContext(t)
            outs = (msg_outcome(lambda: flt.evaluate(1, ctx)), msg_outcome(lambda: arun(flt.evaluate_async(1, ctx))))
            both("Filter.evaluate", outs[0][:3], outs[1][:3], {"filter": name})
            m = {"fte": "boom", "flte": "lboom", "fzd": "z", "fve": "vz"}.get(name, "")
            call = tmpl.format(v=C.cstr("R"), m=C.cstr(m))
            for fn, o in zip(("filter_evaluate", "filter_evaluate_async"), outs):
                if o[0] == "ok":
                    exp = f"MOk {C.cstr(o[1])}"
                elif o[0] == "err":
                    # messages of errors that the filter raised itself are not modelled
                    msg = C.cstr(o[3]) if name in ("fte", "flte", "fzd", "fve") else "[]"
                    exp = f"MLErr {o[1]} {msg} {C.copt(C.cZ(o[2]) if o[2] is not None else None, 'Z')}"
                else:
                    exp = f"MPy {o[1]}"
                model = f"{fn} {C.cstr(name)} {C.cZ(flt.token.start)} {call}"
                items.append({"case": f"mres_str_eqb ({model}) ({exp})", "model": model,
                              "replay": {"fn": fn, "filter": name, "real": o}})
    # wrong arity: the TypeError comes from CPython's call machinery (message not compared)
    t = env.from_string("{{ 1 | fargs }}")
    flt = t.nodes[0].expression.filters[0]
    ctx = RenderContext(t)
    both("Filter.evaluate", outcome(lambda: flt.evaluate(1, ctx)), outcome(lambda: arun(flt.evaluate_async(1, ctx))), {"filter": "fargs"})

    # ---- _AnyExpression
    class Boom:
        def __getitem__(self, k: Any) -> Any:
            raise RuntimeError("boom")

    env = Environment()
    vals = [1, 2, "x", None]
    for _ in range(60 if thorough else 25):
        k = r.choice([1, 2, 3, 4])
        whens = [r.choice(["w0", "w1", "w2", "boom.x", "1", "'x'"]) for _ in range(k)]
        left = r.choice(["l", "l", "boom.x", "2"])
        sep = r.choice([", ", " or "])
        t = env.from_string("{% case " + left + " %}{% when " + sep.join(whens) + " %}H{% endcase %}")
        anyx = t.nodes[0].whens[0].expression
        data = {"l": r.choice(vals), "w0": r.choice(vals), "w1": r.choice(vals), "w2": r.choice(vals), "boom": Boom()}
        ctx = RenderContext(t, global_data=data)
        outs = (outcome(lambda: bool(anyx.evaluate(ctx))), outcome(lambda: bool(arun(anyx.evaluate_async(ctx)))))
        both("_AnyExpression.evaluate", outs[0], outs[1], {"source": str(t), "data": {k_: v for k_, v in data.items() if k_ != "boom"}})

        def enc(e: str) -> str:
            if e == "boom.x":
                return "(PyExc OtherPyError)"
            v = data[e] if e in data else (1 if e == "1" else 2 if e == "2" else "x")
            code = {1: 1, 2: 2, "x": 3, None: 0}[v]
            return f"(Ok {code})"
        for fn, o in zip(("any_evaluate", "any_evaluate_async"), outs):
            model = f"{fn} (fun e : res N => e) N.eqb {enc(left)} {C.clist(map(enc, whens), '(res N)')}"
            items.append({"case": f"res_eqb_nopos Bool.eqb ({model}) {c_res(o, C.cbool, True)}", "model": model,
                          "replay": {"fn": fn, "source": str(t), "real": o}})

    # ---- IfNode / ConditionalBlockNode, with disabled tags
    class ElsifDisablingRenderNode(RenderNode):
        disabled = {"include", "elsif"}

    class ElsifDisablingRenderTag(RenderTag):
        node_class = ElsifDisablingRenderNode

    for _ in range(120 if thorough else 50):
        nalt = r.choice([0, 1, 2, 3])
        conds = [r.choice(["T", "F", "F", "E"]) for _ in range(nalt + 1)]
        blocks = [r.choice(["txt", "txt", "err", "inc"]) for _ in range(nalt + 2)]
        has_else = r.random() < 0.6
        mode = r.choice(["plain", "plain", "render", "render_elsif_disabled"])

        def cond_src(c: str) -> str:
            return {"T": "yes", "F": "no", "E": "undef.x.y"}[c]

        def block_src(i: int, b: str) -> str:
            return {"txt": f"B{i}", "err": f"B{i}{{{{ 1 | divided_by: 0 }}}}", "inc": f"B{i}{{% include 'inc' %}}"}[b]
        src = "{% if " + cond_src(conds[0]) + " %}" + block_src(0, blocks[0])
        for j in range(nalt):
            src += "{% elsif " + cond_src(conds[j + 1]) + " %}" + block_src(j + 1, blocks[j + 1])
        if has_else:
            src += "{% else %}" + block_src(nalt + 1, blocks[nalt + 1])
        src += "{% endif %}"
        env = Environment(loader=DictLoader({"p": src, "inc": "I"}), undefined=StrictUndefined)
        if mode == "render_elsif_disabled":
            env.tags["render"] = ElsifDisablingRenderTag(env)
        main = env.from_string(src if mode == "plain" else "{% render 'p', yes: true, no: false %}")
        data = {"yes": True, "no": False}
        outs = (outcome(lambda: main.render(**data)), outcome(lambda: arun(main.render_async(**data))))
        both("IfNode.render_to_output", outs[0], outs[1], {"source": src, "mode": mode})
        ifnode = env.from_string(src).nodes[0]
        disabled = {"plain": [], "render": ["include"], "render_elsif_disabled": ["include", "elsif"]}[mode]

        def c_cond(c: str) -> str:
            return {"T": "(Ok true)", "F": "(Ok false)", "E": "(LErr UndefinedError None)"}[c]

        def c_block(i: int, b: str, tag: str, pos: int) -> str:
            if b == "txt":
                body = f"(Ok ({C.cstr(f'B{i}')}, tt))"
            elif b == "err":
                body = "(LErr OtherLiquidError None)"   # ZeroDivision is wrapped by the filter: class checked below
            else:
                body = f"(Ok ({C.cstr(f'B{i}I')}, tt))" if not disabled else "(LErr DisabledTagError None)"
            return f"{{| tb_tag := {C.cstr(tag)}; tb_pos := {C.cZ(pos)}; tb_block := {body} |}}"
        alts = []
        for j, alt in enumerate(ifnode.alternatives):
            alts.append(f"{{| alt_cond := {c_cond(conds[j + 1])}; alt_blk := {c_block(j + 1, blocks[j + 1], 'elsif', alt.token.start)} |}}")
        default = "None"
        if has_else:
            default = f"(Some {c_block(nalt + 1, blocks[nalt + 1], 'else', ifnode.default.token.start)})"
        cons = c_block(0, blocks[0], "cons", ifnode.consequence.token.start)
        dis = C.clist(map(C.cstr, disabled), "str")
        for fn, o in zip(("if_rto", "if_rto_async"), outs):
            model = (f"{fn} (fun (_ : unit) (c : res bool) => c) (fun (_ : unit) (b : res (str * unit)) => b) (fun _ : unit => {dis}) tt "
                     f"{c_cond(conds[0])} {cons} {C.clist(alts, '(alternative (res bool) (res (str * unit)))')} {default}")
            if o[0] == "ok":
                exp = f"(Ok {C.cstr(o[1])})"
            elif o[1] == "DisabledTagError" and any(ifnode.alternatives[j].token.start == o[2] for j in range(nalt)) and mode == "render_elsif_disabled":
                exp = f"(LErr DisabledTagError (Some {C.cZ(o[2])}))"
            elif o[0] == "err" and o[1] in ("DisabledTagError", "UndefinedError"):
                exp = f"(LErr {o[1]} None)"
            else:
                exp = "(LErr OtherLiquidError None)"
            case = (f"match {model}, {exp} with | Ok (s, _), Ok s' => str_eqb s s' "
                    "| LErr c (Some p), LErr c' (Some p') => lclass_eqb c c' && Z.eqb p p' "
                    "| LErr c _, LErr c' None => lclass_eqb c c' | _, _ => false end")
            items.append({"case": case, "model": model, "replay": {"fn": fn, "source": src, "mode": mode, "real": o}})

    # The second evaluation that the model of the async twin contains is real:
    # count item reads of a drop used as an elsif condition (output is equal).
    env = Environment()
    t = env.from_string("{% if false %}{% elsif d.x %}A{% endif %}")
    cd_s, cd_a = G.LazyDrop({"x": 1}), G.LazyDrop({"x": 1})
    outs = (outcome(lambda: t.render(d=cd_s)), outcome(lambda: arun(t.render_async(d=cd_a))))
    both("IfNode.render_to_output", outs[0], outs[1], {"source": str(t)})
    stats["elsif_condition_reads"] = {"sync": cd_s.sync_reads + cd_s.async_reads, "async": cd_a.sync_reads + cd_a.async_reads}

    # ---- CallNode
    for strict in (False, True):
        for defined in (True, False):
            env = Environment(undefined=StrictUndefined if strict else liquid2.Undefined)
            src = ("{% macro m, p %}M{{ p }}{% endmacro %}" if defined else "") + "{% call m, 'x' %}"
            t = env.from_string(src)
            outs = (outcome(t.render), outcome(lambda: arun(t.render_async())))
            both("CallNode.render_to_output", outs[0], outs[1], {"source": src, "strict": strict})
            v = "(MvMacro tt)" if defined else f"(MvUndefined (M:=unit) {C.cbool(strict)})"
            for fn, o in zip(("call_rto", "call_rto_async"), outs):
                model = (f"{fn} (fun s : bool => if s then LErr UndefinedError None else Ok ([]:str)) "
                         f"(fun _ : unit => Ok {C.cstr('Mx')}) {v}")
                items.append({"case": f"res_eqb_nopos str_eqb ({model}) {c_res_str(o, True)}", "model": model,
                              "replay": {"fn": fn, "source": src, "strict": strict, "real": o}})

    # ---- get_item on dicts, lists, drops (sync-only and async, coherent)
    class SyncDrop:
        def __init__(self, d: dict[str, Any]) -> None:
            self.d = d

        def __getitem__(self, k: Any) -> Any:
            return self.d[k]

    objs: list[tuple[str, Any, dict[str, int], Any, Any, Any, Any]] = []
    # (label, object, items as str->int, len, first_item code, seq_first, seq_last)
    for d in ({}, {"x": 1}, {"size": 7, "x": 2}, {"first": 8, "last": 9}, {"x": 1, "y": 2}):
        first_item = None if not d else 1000 + list(d.values())[0]
        objs.append(("dict", dict(d), d, len(d), first_item, None, None))
        objs.append(("syncdrop", SyncDrop(dict(d)), d, None, None, None, None))
        objs.append(("lazydrop", G.LazyDrop(dict(d), lambda: asyncio.sleep(0)), d, len(d), None, None, None))
    env = Environment()
    t0 = env.from_string("")
    for label, obj, d, ln, fi, _sf, _sl in objs:
        for key in ("size", "first", "last", "x", "zz"):
            ctx = RenderContext(t0)

            def norm(v: Any) -> Any:
                if isinstance(v, tuple):
                    return 1000 + v[1]
                return v
            outs = (outcome(lambda: norm(ctx.get_item(obj, key))), outcome(lambda: norm(arun(ctx.get_item_async(obj, key)))))
            both("RenderContext.get_item", outs[0], outs[1], {"object": label, "items": d, "key": key})
            getter = "(fun k => " + "".join(f"if str_eqb k {C.cstr(k_)} then Ok {v} else " for k_, v in d.items()) + "PyExc KeyError)"
            ga = f"(Some {getter})" if label == "lazydrop" else "None"
            o_ = (f"{{| o_getitem := {getter}; o_getitem_async := {ga}; o_len := {C.copt(str(ln) if ln is not None else None, 'N')};"
                  f" o_first_item := {C.copt(str(fi) if fi is not None else None, 'N')}; o_seq_first := None; o_seq_last := None |}}")
            for fn, o in zip(("get_item", "get_item_async"), outs):
                model = f"{fn} (V:=N) {o_} {C.cstr(key)}"
                items.append({"case": f"res_eqb_nopos N.eqb ({model}) {c_res(o, str, True)}", "model": model,
                              "replay": {"fn": fn, "object": label, "items": d, "key": key, "real": o}})
    for lst in ([], [5], [5, 6, 7]):
        for key in ("size", "first", "last"):
            ctx = RenderContext(t0)
            outs = (outcome(lambda: ctx.get_item(lst, key)), outcome(lambda: arun(ctx.get_item_async(lst, key))))
            both("RenderContext.get_item", outs[0], outs[1], {"object": "list", "items": lst, "key": key})
            sf = "(Some (PyExc IndexError))" if not lst else f"(Some (Ok {lst[0]}))"
            sl = "(Some (PyExc IndexError))" if not lst else f"(Some (Ok {lst[-1]}))"
            o_ = (f"{{| o_getitem := (fun _ => PyExc TypeError); o_getitem_async := None; o_len := Some {len(lst)};"
                  f" o_first_item := None; o_seq_first := {sf}; o_seq_last := {sl} |}}")
            for fn, o in zip(("get_item", "get_item_async"), outs):
                model = f"{fn} (V:=N) {o_} {C.cstr(key)}"
                items.append({"case": f"res_eqb_nopos N.eqb ({model}) {c_res(o, str, True)}", "model": model,
                              "replay": {"fn": fn, "object": "list", "items": lst, "key": key, "real": o}})

    # ---- Template.is_up_to_date
    async def aw(b: Any) -> Any:
        return b
    cbs: list[tuple[str, Any, str]] = [
        ("none", None, "None"), ("true", lambda: True, "(Some (UBool true))"), ("false", lambda: False, "(Some (UBool false))"),
        ("aw_true", lambda: aw(True), "(Some (UAwaitable true))"), ("aw_false", lambda: aw(False), "(Some (UAwaitable false))"),
        ("one", lambda: 1, "(Some (UOther true))"), ("zero", lambda: 0, "(Some (UOther false))"),
        ("nonecb", lambda: None, "(Some (UOther false))"), ("str", lambda: "x", "(Some (UOther true))"),
    ]
    for label, cb, term in cbs:
        t = env.from_string("x")
        t.uptodate = cb
        with warnings.catch_warnings():
            warnings.simplefilter("ignore")
            outs = (outcome(lambda: bool(t.is_up_to_date())), outcome(lambda: bool(arun(t.is_up_to_date_async()))))
        stats["small_cases"] += 2
        for fn, o in zip(("tpl_up_to_date", "tpl_up_to_date_async"), outs):
            model = f"{fn} {term}"
            items.append({"case": f"res_eqb_nopos Bool.eqb (Ok ({model})) {c_res(o, C.cbool, True)}", "model": model,
                          "replay": {"fn": fn, "callback": label, "real": o}})
        if label in ("none", "true", "false") and outs[0] != outs[1]:
            chk.finding("sync-async:Template.is_up_to_date", f"callback {label}: {outs}", {"callback": label, "outs": outs})

    # ---- drained generator: BlockNode.render_to_output returns sum(...)
    for _ in range(20 if thorough else 8):
        parts = [r.choice(["ab", "c", "", "ERR", "xyz"]) for _ in range(r.choice([0, 1, 2, 4]))]
        src = "{% if true %}K" + "".join("{{ 1 | divided_by: 0 }}" if p == "ERR" else ("{{ '%s' }}" % p) for p in parts) + "{% endif %}"
        t = env.from_string(src)
        blk = t.nodes[0].consequence
        outs = (outcome(lambda: blk.render_to_output(RenderContext(t), StringIO())),
                outcome(lambda: arun(blk.render_to_output_async(RenderContext(t), StringIO()))))
        both("BlockNode.render_to_output", outs[0], outs[1], {"source": src})
        xs = C.clist(["(Ok 1)"] + [("(LErr OtherLiquidError None)" if p == "ERR" else f"(Ok {len(p)})") for p in parts], "(res N)")
        for fn, o in zip(("drain_lazy", "drain_eager"), outs):
            model = f"{fn} (fun e : res N => e) N.add 0 {xs}"
            exp = c_res(o, str, True) if o[0] == "ok" else "(LErr OtherLiquidError None)"
            items.append({"case": f"res_eqb_nopos N.eqb ({model}) {exp}", "model": model,
                          "replay": {"fn": fn, "source": src, "real": o}})

    # ---- delegation: classes that define only the sync half
    t = env.from_string("{% raw %}R{% endraw %}{# c #}{{ 'lit' }}")
    raw, lit = t.nodes[0], t.nodes[2].expression.left
    outs = (outcome(lambda: raw.render_to_output(RenderContext(t), StringIO())),
            outcome(lambda: arun(raw.render_to_output_async(RenderContext(t), StringIO()))))
    both("Node.render_to_output", outs[0], outs[1], {"node": "RawNode"})
    for fn, o in zip(("delegate_sync", "delegate_async"), outs):
        items.append({"case": f"res_eqb_nopos N.eqb ({fn} (fun _ : unit => Ok 1) tt) {c_res(o, str, True)}",
                      "model": f"{fn} (fun _ : unit => Ok 1) tt", "replay": {"fn": fn, "node": "RawNode", "real": o}})
    outs = (outcome(lambda: lit.evaluate(RenderContext(t))), outcome(lambda: arun(lit.evaluate_async(RenderContext(t)))))
    both("Expression.evaluate", outs[0], outs[1], {"node": "StringLiteral"})
    dl = DictLoader({"a/b": "S"})
    for nm in ("a/b", "zz"):
        outs = (outcome(lambda: tuple(dl.get_source(env, nm))[:2]), outcome(lambda: tuple(arun(dl.get_source_async(env, nm)))[:2]))
        both("BaseLoader.get_source", outs[0], outs[1], {"name": nm})
        for fn, o in zip(("delegate_sync", "delegate_async"), outs):
            model = f"{fn} (fun n => do s <- dict_get_source [({C.cstr('a/b')}, {C.cstr('S')})] n ;; Ok (ts_text s)) {C.cstr(nm)}"
            exp = f"(Ok {C.cstr(o[1][0])})" if o[0] == "ok" else c_err(o, True)
            items.append({"case": f"res_eqb_nopos str_eqb ({model}) {exp}", "model": model,
                          "replay": {"fn": fn, "loader": "DictLoader", "name": nm, "real": o}})

    # ---- children generators of include / render / extends
    for tag_src, idx in (("{% include 'p/q.html' %}", 0), ("{% render 'p/q.html' %}", 0), ("{% include 'zz' %}", 0),
                         ("{% render 'zz' %}", 0), ("{% extends 'p/q.html' %}", 0), ("{% extends 'zz' %}", 0)):
        env = Environment(loader=DictLoader({"p/q.html": "a{{ b }}c"}))
        t = env.from_string(tag_src)
        node = t.nodes[idx]
        for ip in (True, False):
            sc = RenderContext(t)
            outs = (outcome(lambda: len(list(node.children(sc, include_partials=ip)))),
                    outcome(lambda: len(list(arun(node.children_async(sc, include_partials=ip))))))
            both("children", outs[0], outs[1], {"source": tag_src, "include_partials": ip})
            body = "(fun _ : bool => Ok [1;2;3])" if "p/q" in tag_src else "(fun _ : bool => LErr TemplateNotFoundError None)"
            for fn, o in zip(("visit_children", "visit_children_async"), outs):
                model = f"{fn} {body} (fun l : list N => Ok (N.of_nat (length l))) {C.cbool(ip)}"
                items.append({"case": f"res_eqb_nopos N.eqb ({model}) {c_res(o, str, True)}", "model": model,
                              "replay": {"fn": fn, "source": tag_src, "include_partials": ip, "real": o}})
    return items


# ---------------------------------------- correspondence: file system loader


def corr_fs(chk: C.Check, root: Path, stats: dict[str, Any]) -> list[dict[str, Any]]:
    from liquid2 import Environment, FileSystemLoader
    items = []
    base = root / "fsl"
    (base / "sub").mkdir(parents=True)
    (base / "a.html").write_text("A")
    (base / "sub" / "b.html").write_text("B")
    os.utime(base / "a.html", (1_000_001, 1_000_001))
    os.utime(base / "sub" / "b.html", (1_000_002, 1_000_002))
    loader = FileSystemLoader(base)
    env = Environment(loader=loader)
    files = {"a.html": ("A", 1_000_001), "sub/b.html": ("B", 1_000_002)}
    rp = ("(fun n => " + "".join(f"if str_eqb n {C.cstr(k)} then Ok {C.cstr(str(base / k))} else " for k in files)
          + "LErr TemplateNotFoundError None)")
    rd = ("(fun p => " + "".join(f"if str_eqb p {C.cstr(str(base / k))} then Ok ({C.cstr(v[0])}, {v[1]}) else " for k, v in files.items())
          + "PyExc OSError)")
    for name in ("a.html", "sub/b.html", "zz.html", "../a.html", "sub/../a.html"):
        def obs(src: Any) -> Any:
            cb = src.uptodate
            # partial(_is_current[_async], template_name, source_path, mtime)
            return (src.source, src.name, cb.func.__name__.endswith("_async"), int(cb.args[-1]), str(cb.args[-2]))
        outs = (outcome(lambda: obs(loader.get_source(env, name))), outcome(lambda: obs(arun(loader.get_source_async(env, name)))))
        stats["small_cases"] += 2
        if (outs[0][0] != outs[1][0]) or (outs[0][0] == "ok" and (outs[0][1][:2] + outs[0][1][3:]) != (outs[1][1][:2] + outs[1][1][3:])) \
                or (outs[0][0] != "ok" and outs[0] != outs[1]):
            chk.finding("sync-async:FileSystemLoader.get_source", f"{name}: {outs}", {"name": name, "outs": outs})
        for fn, o in zip(("fs_get_source", "fs_get_source_async"), outs):
            model = f"{fn} {rp} {rd} {C.cstr(name)}"
            if o[0] == "ok":
                text, nm, flavour, mtime, cbpath = o[1]
                exp = (f"match {model} with Ok s => str_eqb (fs_text s) {C.cstr(text)} && str_eqb (fs_name s) {C.cstr(nm)} && "
                       f"Bool.eqb (snd (fs_cb s)) {C.cbool(flavour)} && N.eqb (snd (fst (fs_cb s))) {mtime} && "
                       f"str_eqb (fst (fst (fs_cb s))) {C.cstr(cbpath)} | _ => false end")
            else:
                exp = f"match {model} with LErr TemplateNotFoundError _ => {C.cbool(o[1] == 'TemplateNotFoundError')} | _ => false end"
            items.append({"case": exp, "model": model, "replay": {"fn": fn, "name": name, "real": o}})
    # PackageLoader (same executor indirection, no callback): the fixture package of the test suite
    fixtures = C.REPO / "tests" / "fixtures"
    if (fixtures / "mock_package").is_dir():
        import sys
        from liquid2 import PackageLoader
        sys.path.insert(0, str(fixtures))
        try:
            for pkg_path, names in (("", ["other.liquid", "some.liquid", "other", "../secret.liquid"]),
                                    ("templates", ["some.liquid", "some", "zz.liquid", "more_templates/thing.liquid"])):
                pl = PackageLoader("mock_package", package_path=pkg_path)
                penv = Environment(loader=pl)
                for name in names:
                    outs = (outcome(lambda: tuple(pl.get_source(penv, name))), outcome(lambda: tuple(arun(pl.get_source_async(penv, name)))))
                    stats["small_cases"] += 2
                    stats["package_loader_cases"] = stats.get("package_loader_cases", 0) + 1
                    if outs[0] != outs[1]:
                        chk.finding("sync-async:PackageLoader.get_source", f"{pkg_path}/{name}: {outs}", {"name": name, "outs": outs})
                    t_outs = (outcome(lambda: template_repr(penv.get_template(name))), outcome(lambda: template_repr(arun(penv.get_template_async(name)))))
                    if t_outs[0] != t_outs[1]:
                        chk.finding("sync-async:get_template", f"PackageLoader {pkg_path}/{name}: {t_outs}", {"name": name, "outs": t_outs})
        finally:
            sys.path.remove(str(fixtures))
    # freshness callbacks: unchanged, touched, deleted
    for label, action in (("same", None), ("touched", "touch"), ("deleted", "delete")):
        p = base / "a.html"
        p.write_text("A")
        os.utime(p, (1_000_001, 1_000_001))
        s_src = loader.get_source(env, "a.html")
        a_src = arun(loader.get_source_async(env, "a.html"))
        if action == "touch":
            os.utime(p, (1_000_009, 1_000_009))
        elif action == "delete":
            p.unlink()
        outs = (outcome(s_src.uptodate), outcome(lambda: arun(a_src.uptodate())))
        stats["small_cases"] += 2
        if outs[0] != outs[1]:
            chk.finding("sync-async:FileSystemLoader._uptodate", f"{label}: {outs}", {"state": label, "outs": outs})
        sm = {"same": "(fun _ => Ok 1000001)", "touched": "(fun _ => Ok 1000009)", "deleted": "(fun _ => PyExc OSError)"}[label]
        # the callback is _is_current since /repo e2f7d6d: the name must still resolve to the same path
        rpc = "(fun _ => LErr TemplateNotFoundError None)" if label == "deleted" else f"(fun _ => Ok {C.cstr(str(p))})"
        for fn, o in zip(("fs_is_current", "fs_is_current_async"), outs):
            model = f"{fn} {rpc} {sm} {C.cstr('a.html')} {C.cstr(str(p))} 1000001"
            items.append({"case": f"res_eqb_nopos Bool.eqb ({model}) {c_res(o, C.cbool, True)}", "model": model,
                          "replay": {"fn": fn, "state": label, "real": o}})
        for fn in ("fs_uptodate", "fs_uptodate_async"):
            direct = outcome(lambda: type(loader)._uptodate(p, 1_000_001)) if fn == "fs_uptodate" else outcome(lambda: arun(type(loader)._uptodate_async(p, 1_000_001)))
            model = f"{fn} {sm} {C.cstr(str(p))} 1000001"
            items.append({"case": f"res_eqb_nopos Bool.eqb ({model}) {c_res(direct, C.cbool, True)}", "model": model,
                          "replay": {"fn": fn, "state": label, "real": direct}})
    # a file added to an earlier search path shadows the one that was loaded, its removal un-shadows it
    d0 = base.parent / "fsl_front"
    d0.mkdir(exist_ok=True)
    p = base / "a.html"
    p.write_text("A")
    os.utime(p, (1_000_001, 1_000_001))
    loader2 = FileSystemLoader([d0, base])
    env2 = Environment(loader=loader2)
    s_src = loader2.get_source(env2, "a.html")
    a_src = arun(loader2.get_source_async(env2, "a.html"))
    for label in ("unshadowed", "shadowed", "unshadowed-again"):
        if label == "shadowed":
            (d0 / "a.html").write_text("FRONT")
        elif label == "unshadowed-again":
            (d0 / "a.html").unlink()
        outs = (outcome(s_src.uptodate), outcome(lambda: arun(a_src.uptodate())))
        stats["small_cases"] += 2
        if outs[0] != outs[1]:
            chk.finding("sync-async:FileSystemLoader._is_current", f"{label}: {outs}", {"state": label, "outs": outs})
        now = str(d0 / "a.html") if label == "shadowed" else str(p)
        for fn, o in zip(("fs_is_current", "fs_is_current_async"), outs):
            model = f"{fn} (fun _ => Ok {C.cstr(now)}) (fun _ => Ok 1000001) {C.cstr('a.html')} {C.cstr(str(p))} 1000001"
            items.append({"case": f"res_eqb_nopos Bool.eqb ({model}) {c_res(o, C.cbool, True)}", "model": model,
                          "replay": {"fn": fn, "state": label, "real": o}})
    return items


# --------------------------------------------------------------- schedules


class Pause:
    """An awaitable that suspends the coroutine exactly once: the explicit
    yield point of the deterministic driver."""

    def __await__(self) -> Any:
        yield self


def drive(coros: list[Any], sched: list[int]) -> tuple[list[tuple], int]:
    """Step coroutines according to `sched` (indexes; a finished coroutine
    ignores being scheduled), then run the rest round-robin to completion.
    Returns (outcomes, number of steps executed)."""
    from liquid2.exceptions import LiquidError
    n = len(coros)
    done: list[tuple | None] = [None] * n
    steps = 0

    def step(i: int) -> None:
        nonlocal steps
        if done[i] is not None:
            return
        steps += 1
        try:
            coros[i].send(None)
        except StopIteration as e:
            done[i] = ("ok", e.value)
        except LiquidError as e:
            tok = getattr(e, "token", None)
            done[i] = ("err", type(e).__name__, getattr(tok, "start", None) if tok is not None else None,
                       str(getattr(e, "template_name", None) or ""))
        except Exception as e:  # noqa: BLE001
            done[i] = ("exc", type(e).__name__)
    for i in sched:
        if i < n:
            step(i)
    guard = 0
    while any(d is None for d in done):
        for i in range(n):
            step(i)
        guard += 1
        if guard > 10000:
            raise RuntimeError("coroutines do not finish")
    return [d for d in done if d is not None], steps


def interleavings(counts: list[int], r: Any, cap: int) -> tuple[list[list[int]], bool]:
    """All distinct interleavings of counts[i] steps of coroutine i when there
    are at most `cap`, otherwise `cap` seeded random ones."""
    import math
    total = math.factorial(sum(counts))
    for c in counts:
        total //= math.factorial(c)
    base = [i for i, c in enumerate(counts) for _ in range(c)]
    if total <= cap:
        out: set[tuple[int, ...]] = set()

        def rec(prefix: list[int], rem: list[int]) -> None:
            if not any(rem):
                out.add(tuple(prefix))
                return
            for i, c in enumerate(rem):
                if c:
                    rem[i] -= 1
                    prefix.append(i)
                    rec(prefix, rem)
                    prefix.pop()
                    rem[i] += 1
        rec([], list(counts))
        return [list(t) for t in sorted(out)], True
    res = []
    for _ in range(cap):
        b = list(base)
        r.shuffle(b)
        res.append(b)
    return res, False


def make_sched_env(templates: dict[str, str], loader_kind: str, pause_loader: bool) -> Any:
    """An environment whose loader suspends in get_source_async."""
    from liquid2 import CachingDictLoader, DictLoader, Environment

    base = {"dict": DictLoader, "cdict": CachingDictLoader, "cdict_ns": CachingDictLoader}[loader_kind]

    class PausingLoader(base):  # type: ignore[misc,valid-type]
        async def get_source_async(self, env: Any, template_name: str, *, context: Any = None, **kwargs: Any) -> Any:
            if pause_loader:
                await Pause()
            return self.get_source(env, template_name, context=context, **kwargs)

    if loader_kind == "dict":
        loader = PausingLoader(dict(templates))
    elif loader_kind == "cdict":
        loader = PausingLoader(dict(templates), capacity=2)
    else:
        loader = PausingLoader(dict(templates), namespace_key="ns", capacity=3)
    return Environment(loader=loader)


def run_schedules(chk: C.Check, r: Any, n_groups: int, cap: int, stats: dict[str, Any]) -> None:
    """k <= 3 concurrent renders on one environment: every interleaving must
    give every render its solo result."""
    import random as _random
    for gi in range(n_groups):
        k = r.choice([2, 2, 3])
        g = G.Gen(r, max_depth=2, weird=False)
        _, tpls = g.template_set()
        mains = []
        for j in range(k):
            nm = f"main{j}"
            # few await points: one or two partials and one or two drop reads
            parts = [g.tag(f"{r.choice(['include', 'render'])} '{r.choice(G.PARTIALS)}'" + r.choice(["", " with o.x", " for xs"])) for _ in range(r.choice([1, 1, 2]))]
            drops = ["{{ " + r.choice(["o.x", "o.nested.x", "o.items.first", "os[0].y"]) + " }}" for _ in range(r.choice([0, 1, 2]))]
            body = parts + drops + [g.nodes(1, 1)]
            r.shuffle(body)
            tpls[nm] = "".join(body) + "{{ gg }}{% increment cnt %}{% cycle 'a', 'b' %}"
            mains.append(nm)
        loader_kind = r.choice(["dict", "cdict", "cdict", "cdict_ns"])
        pause_loader = r.random() < 0.8
        seeds = [r.randrange(1 << 30) for _ in range(k)]
        same_template = r.random() < 0.3
        if same_template:
            mains = [mains[0]] * k
        gls = [r.choice([None, {"gg": "G"}]) for _ in range(k)]
        if same_template and loader_kind != "dict":
            # the guard of the known finding: same cached template => same globals
            gls = [gls[0]] * k
        nss = [r.choice(["t1", "t2"]) for _ in range(k)] if loader_kind == "cdict_ns" else [None] * k

        def mk_coros(env: Any, which: list[int]) -> list[Any]:
            out = []
            for j in which:
                data = G.make_data(_random.Random(seeds[j]), Pause)
                kw = {"ns": nss[j]} if nss[j] else {}

                async def one(j: int = j, data: dict[str, Any] = data, kw: dict[str, Any] = kw) -> str:
                    t = await env.get_template_async(mains[j], globals=gls[j], **kw)
                    return await t.render_async(**data)
                out.append(one())
            return out

        solo = []
        counts = []
        for j in range(k):
            env = make_sched_env(tpls, loader_kind, pause_loader)
            res, steps = drive(mk_coros(env, [j]), [])
            solo.append(res[0])
            counts.append(steps)
        scheds, exhaustive = interleavings(counts, r, cap)
        stats["schedule_groups"] += 1
        stats["schedule_exhaustive_groups"] += 1 if exhaustive else 0
        stats["schedule_steps"].append(counts)
        if max(counts) > 1:
            stats["schedule_nontrivial"].add(json.dumps([tpls, mains, seeds, loader_kind, pause_loader], sort_keys=True, default=str))
        for sched in scheds:
            env = make_sched_env(tpls, loader_kind, pause_loader)
            res, _ = drive(mk_coros(env, list(range(k))), sched)
            stats["schedules"] += 1
            if res != solo:
                j = next(i for i in range(k) if res[i] != solo[i])
                chk.finding("interleaving:render", f"render {j} under schedule {sched}: {str(res[j])[:120]}; alone: {str(solo[j])[:120]}",
                            {"templates": tpls, "mains": mains, "data_seeds": seeds, "loader": loader_kind,
                             "pause_loader": pause_loader, "globals": gls, "namespaces": nss, "schedule": sched,
                             "interleaved": res, "solo": solo,
                             "how": "harness/c03.py run_schedules: drive(coroutines, schedule) vs drive([coroutine], [])"})
                break
        if len(stats["schedule_samples"]) < 2:
            stats["schedule_samples"].append({"mains": {m: tpls[m][:200] for m in set(mains)}, "steps": counts,
                                              "schedules": len(scheds), "exhaustive": exhaustive, "loader": loader_kind})


# ------------------------------------- rebound globals: witness + correspondence


def run_rebind(prog: list[list[tuple]], sched: list[int]) -> list[list[tuple[str, int]]]:
    """Programs of (L k g) | (Y,) | (R k g) on one real CachingDictLoader
    environment, one explicit pause after every operation."""
    from liquid2 import CachingDictLoader, Environment
    env = Environment(loader=CachingDictLoader({"t": "{{ g }}", "u": "{{ g }}"}, capacity=10))

    async def co(ops: list[tuple]) -> list[tuple[str, int]]:
        held: dict[str, Any] = {}
        out = []
        for op in ops:
            if op[0] == "L":
                held[op[1]] = await env.get_template_async(op[1], globals={"g": op[2]})
            elif op[0] == "R":
                out.append((op[1], int(await held[op[1]].render_async())))
            await Pause()
        return out
    res, _ = drive([co(p) for p in prog], sched)
    return [x[1] if x[0] == "ok" else [("!" + x[1], 0)] for x in res]


def c_rop(op: tuple) -> str:
    if op[0] == "L":
        return f"RLoad {C.cstr(op[1])} {op[2]}"
    if op[0] == "R":
        return f"RRender {C.cstr(op[1])} {op[2]}"
    return "RYield"


REBOUND_WITNESS = ([[("L", "t", 1), ("Y",), ("R", "t", 1)], [("L", "t", 2), ("Y",), ("R", "t", 2)]], [0, 1, 0, 1, 0, 1])


def corr_rebind(chk: C.Check, r: Any, thorough: bool, stats: dict[str, Any]) -> list[dict[str, Any]]:
    items = []
    # the recorded witness of the known finding, re-observed on every run
    prog, sched = REBOUND_WITNESS
    inter = run_rebind(prog, sched)
    alone = [run_rebind([p], [])[0] for p in prog]
    if inter != alone:
        chk.finding("shared-cached-template-globals-rebound",
                    "t = await get_template_async('t', globals={'g': 1}); <await>; await t.render_async() renders "
                    f"{inter[0]} when another coroutine loads 't' with globals {{'g': 2}} in between (alone: {alone[0]}): "
                    "the cached Template object is shared and load re-binds its global_data",
                    {"programs": prog, "schedule": sched, "interleaved": inter, "alone": alone,
                     "how": "harness/c03.py run_rebind(REBOUND_WITNESS)"})
    progs: list[tuple[list[list[tuple]], list[int]]] = [REBOUND_WITNESS]
    for _ in range(150 if thorough else 40):
        k = r.choice([2, 2, 3])
        agree = r.random() < 0.5
        ps = []
        for _j in range(k):
            ops: list[tuple] = []
            held: dict[str, int] = {}
            for _o in range(r.choice([2, 3, 4, 5])):
                x = r.random()
                if x < 0.45 or not held:
                    key = r.choice(["t", "u"])
                    gval = {"t": 1, "u": 2}[key] if agree else r.choice([1, 2, 3])
                    held[key] = gval
                    ops.append(("L", key, gval))
                elif x < 0.6:
                    ops.append(("Y",))
                else:
                    key = r.choice(sorted(held))
                    ops.append(("R", key, held[key]))
            ps.append(ops)
        counts = [len(p) + 1 for p in ps]
        scheds, _ = interleavings(counts, r, 6 if not thorough else 12)
        for s in scheds:
            progs.append((ps, s))
    for ps, s in progs:
        real = run_rebind(ps, s)
        stats["rebind_cases"] += 1
        if any(op[0] == "R" for p in ps for op in p):
            stats["rebind_nontrivial"] += 1
        cs = C.clist((f"rcoroutine {C.clist(map(c_rop, p), 'rop')}" for p in ps))
        fill = [i for i, p in enumerate(ps) for _ in range(len(p) + 1)]
        sch = C.clist((C.cnat(i) for i in list(s) + fill), "nat")
        exp = C.clist((C.clist((C.cpair(C.cstr(k), str(g)) for k, g in out), "(str * N)") for out in real), "(list (str * N))")
        model = f"results (run {sch} {cs} ([]:list (str * N)))"
        items.append({"case": f"rresults_eqb ({model}) {exp}", "model": model,
                      "replay": {"programs": ps, "schedule": s, "real": real}})
    return items


def corr_interleaved_loader(chk: C.Check, r: Any, thorough: bool, stats: dict[str, Any]) -> list[dict[str, Any]]:
    """Instance 1 of Interleave.v: concurrent get_template_async calls on a real
    caching loader (kinds of harness/c14.py) vs `run` over `loader_coroutine`."""
    from liquid2 import Environment
    from . import c14
    items = []
    for _ in range(60 if thorough else 20):
        kind = r.choice(["dict", "nsdict"])
        ns_aware = kind == "nsdict"
        cap = r.choice([1, 2, 3])
        ar = r.random() < 0.5
        nsk = True if ns_aware else (r.random() < 0.3)
        k = r.choice([2, 2, 3])
        renders = []
        for _j in range(k):
            calls = []
            for _c in range(r.choice([1, 2, 3])):
                ns = r.choice(c14.NSS) if nsk else None
                calls.append((r.choice(c14.NAMES + ["zz"]), ns, r.choice([0, 1, 2]), r.random() < 0.8))
            renders.append(calls)
        counts = [len(c) + 1 for c in renders]
        scheds, _ = interleavings(counts, r, 4 if not thorough else 8)
        keys = [f"{ns}/{n}" for ns in c14.NSS for n in c14.NAMES] if ns_aware else list(c14.NAMES)
        for s in scheds:
            root = Path(tempfile.mkdtemp(prefix="c03i_", dir=SCRATCH))
            try:
                cached, _twin, stores = c14._mk_loaders(kind, cap, ar, nsk, root)
                for i, key in enumerate(keys):
                    stores[0][1][key] = c14._src(10 + i)
                env = Environment(loader=cached, globals={"e": "E"})   # c14._src prints the Environment's global too

                async def co(calls: list[tuple]) -> list[tuple]:
                    out: list[tuple] = []
                    for name, ns, g, is_async in calls:
                        kw = {"uid": ns} if ns is not None else {}
                        gl = {"g": c14.GVALS[g]} if g else None
                        try:
                            if is_async:
                                t = await env.get_template_async(name, globals=gl, **kw)
                            else:
                                t = env.get_template(name, globals=gl, **kw)
                            out.append(("L",) + c14._parse(t.render()))
                        except Exception as e:  # noqa: BLE001
                            out.append(("N",) if type(e).__name__ == "TemplateNotFoundError" else ("X", type(e).__name__))
                        await Pause()
                    return out
                res, _ = drive([co(c) for c in renders], s)
            finally:
                shutil.rmtree(root, ignore_errors=True)
            real = [x[1] if x[0] == "ok" else [("X", x[1])] for x in res]
            stats["interleaved_loader_cases"] += 1
            cfg = (f"{{| c_cap := {cap}%nat; c_auto_reload := {C.cbool(ar)}; c_ns_key := {C.cbool(nsk)};"
                   f" c_ns_aware := {C.cbool(ns_aware)}; c_fresh := false |}}")
            pre = C.clist((f"Modify {C.cstr(key)} {10 + i}" for i, key in enumerate(keys)), "op")
            rs = C.clist((C.clist((f"{{| lc_name := {C.cstr(n)}; lc_ns := {C.copt(C.cstr(ns) if ns is not None else None, 'str')};"
                                   f" lc_g := {g}; lc_async := {C.cbool(a)} |}}" for n, ns, g, a in calls), "load_call")
                          for calls in renders), "(list load_call)")
            fill = [i for i, c in enumerate(renders) for _ in range(len(c) + 1)]
            sch = C.clist((C.cnat(i) for i in list(s) + fill), "nat")
            exp = C.clist((C.clist((c14.c_obs(o) for o in out), "obs") for out in real), "(list obs)")
            model = f"let c := {cfg} in results (run {sch} (map (loader_coroutine c) {rs}) (final c (init c) {pre}))"
            items.append({"case": f"list_eqb (list_eqb obs_eqb) ({model}) {exp}", "model": model,
                          "replay": {"kind": kind, "capacity": cap, "auto_reload": ar, "namespace_key": nsk,
                                     "renders": renders, "schedule": s, "real": real}})
    return items


# ------------------------------------------------------------------- static tie


def run_static(chk: C.Check, stats: dict[str, Any]) -> dict[str, Any]:
    rep = T.scan(C.REPO)
    cmp_ = T.compare(rep)
    reviewed = [k for k, v in rep["pairs"].items() if T.needs_review(v)]
    stats["twin_pairs"] = len(rep["pairs"])
    stats["twin_structurally_equal"] = len(rep["pairs"]) - len(reviewed)
    stats["twin_differing"] = sorted(reviewed)
    stats["twin_delegated_sync_only"] = len(rep["delegated"])
    stats["twin_unpaired"] = sorted(rep["unpaired"])
    stats["twin_lone_async"] = sorted(rep["lone_async"])
    stats["twin_files"] = rep["files"]
    problems = []
    for kind in ("new", "changed", "stale"):
        for key in cmp_[kind]:
            rec = rep["pairs"].get(key) or rep["unpaired"].get(key) or rep["lone_async"].get(key) or {}
            problems.append({"kind": kind, "pair": key, "diff": rec.get("diff", [])[:40],
                             "sync_calls": rec.get("sync_calls") or rec.get("twin_calls"), "unawaited": rec.get("unawaited")})
    for e in rep["errors"]:
        problems.append({"kind": "error", "pair": e})
    stats["twin_problems"] = problems
    return {"report": rep, "problems": problems}


DEFS = """
Definition mres_str_eqb (a b : mres str) : bool :=
  match a, b with
  | MOk x, MOk y => str_eqb x y
  | MLErr c m t, MLErr c' m' t' => lclass_eqb c c' && str_eqb m m' && option_eqb Z.eqb t t'
  | MPy k, MPy k' => pykind_eqb k k'
  | _, _ => false
  end.
"""


def main(chk: C.Check, build: C.Build) -> None:
    warnings.simplefilter("ignore")
    t_start = time.time()
    proofs_ok = C.proof_stage(chk, build, NEEDED)
    thorough = chk.tier == "thorough"
    r = C.rng("c03")
    stats: dict[str, Any] = {
        "dynamic_cases": 0, "render_outcomes": {}, "awaited_drop_cases": 0, "nontrivial": set(), "loaders": {}, "envs": {},
        "samples": [], "cts_cases": 0, "toplevel_cases": 0, "load_cases": 0, "loop_cases": 0, "small_cases": 0,
        "schedule_groups": 0, "schedule_exhaustive_groups": 0, "schedules": 0, "schedule_steps": [],
        "schedule_nontrivial": set(), "schedule_samples": [], "rebind_cases": 0, "rebind_nontrivial": 0,
        "interleaved_loader_cases": 0,
    }
    root = Path(tempfile.mkdtemp(prefix="c03_", dir=SCRATCH))
    try:
        static = run_static(chk, stats)
        timing: dict[str, float] = {}
        t0 = time.time()
        run_dynamic(chk, r, 4000 if thorough else 260, root, stats)
        timing["dynamic"] = round(time.time() - t0, 1)
        t0 = time.time()
        run_cts(chk, stats)
        timing["cts"] = round(time.time() - t0, 1)
        t0 = time.time()
        run_schedules(chk, C.rng("c03", "sched"), 130 if thorough else 16, 500, stats)
        timing["schedules"] = round(time.time() - t0, 1)
        t0 = time.time()
        items: list[dict[str, Any]] = []
        items += run_toplevel(chk, stats)
        items += corr_load(chk, thorough, stats)
        items += corr_loop(chk, C.rng("c03", "loop"), thorough, stats)
        items += corr_small(chk, C.rng("c03", "small"), thorough, stats)
        items += corr_fs(chk, root, stats)
        items += corr_rebind(chk, C.rng("c03", "rebind"), thorough, stats)
        items += corr_interleaved_loader(chk, C.rng("c03", "il"), thorough, stats)
        timing["correspondence_python"] = round(time.time() - t0, 1)
    finally:
        shutil.rmtree(root, ignore_errors=True)

    # The static tie is reported after the oracle has had its chance to find a
    # failing input for the edit.
    if static["problems"] and not chk.violations:
        p = static["problems"][0]
        chk.finding("twin-diff:" + p["pair"],
                    f"sync/async pair {p['pair']} has a {p['kind']} textual difference that no reviewed model covers "
                    f"({len(static['problems'])} such pairs); no failing input found by the dynamic comparison",
                    {"broken": "static tie harness/c03_twins.py vs harness/c03_twins_reviewed.json",
                     "pairs": static["problems"][:10]}, no_input=True)
    elif static["problems"]:
        chk.notes.append("static tie: unreviewed twin differences: " + json.dumps(static["problems"][:5])[:1500])

    C.correspond(chk, "c03", IMPORTS, DEFS, items, what="AsyncTwin+Interleave models vs the real twins", shard=120)
    C.proofs_verdict(chk, proofs_ok)

    evaluations = (stats["dynamic_cases"] + stats["cts_cases"] + stats["schedules"] + len(items))
    chk.coverage.update({
        "evaluations": evaluations,
        "distinct_nontrivial": len(stats["nontrivial"]) + len(stats["schedule_nontrivial"]),
        "rule": ("dynamic: generated template sets (all built-in tags, partials in sub-directories with with/for/as/keyword "
                 "arguments, inheritance chains, macros, translate, lazily awaited drops, tablerow in the Shopify environment) x "
                 "seeded data x {DictLoader, CachingDictLoader (+namespace_key), FileSystemLoader, CachingFileSystemLoader, "
                 "ChoiceLoader, CachingChoiceLoader} x {default, auto-escape, StrictUndefined, resource limits, Shopify}: "
                 "get_template/render/second render/analyze/crossed render compared sync vs async (output or error class + token "
                 "start + template name); the 995 CTS cases both ways; schedules: k<=3 concurrent renders, every interleaving of "
                 "their solo step counts when <=500 else 500 seeded random ones, each result compared with the solo result. "
                 "non-trivial = a dynamic case that awaited an async drop or loaded a partial/parent template, or a schedule "
                 "group in which some coroutine has more than one step; distinct by (templates, env, loader, data seed)"),
        "samples": stats["samples"] + stats["schedule_samples"],
        "exhaustive": False,
        "tier_proved": "kernel (every textually differing twin pair; interleaving over segments)",
        "dynamic_cases": stats["dynamic_cases"], "cts_cases": stats["cts_cases"],
        "render_outcomes": stats["render_outcomes"], "awaited_drop_cases": stats["awaited_drop_cases"],
        "loaders": stats["loaders"], "environments": stats["envs"],
        "schedule_groups": stats["schedule_groups"], "schedule_groups_exhaustive": stats["schedule_exhaustive_groups"],
        "schedules_run": stats["schedules"], "schedule_step_counts_sample": stats["schedule_steps"][:8],
        "twin_correspondence_cases": {"load": stats["load_cases"], "loop": stats["loop_cases"], "small": stats["small_cases"],
                                      "rebind": stats["rebind_cases"], "rebind_with_held_render": stats["rebind_nontrivial"],
                                      "interleaved_loader": stats["interleaved_loader_cases"], "toplevel": stats["toplevel_cases"]},
        "static_tie": {"files": stats["twin_files"], "pairs": stats["twin_pairs"],
                       "structurally_equal": stats["twin_structurally_equal"], "differing_reviewed": stats["twin_differing"],
                       "sync_only_delegated": stats["twin_delegated_sync_only"], "unpaired": stats["twin_unpaired"],
                       "lone_async": stats["twin_lone_async"], "problems": stats["twin_problems"]},
        "timing_s": timing,
        "elsif_condition_item_reads": stats.get("elsif_condition_reads"),
        "package_loader_cases": stats.get("package_loader_cases", 0),
    })
    chk.assumptions += [
        "drops are pure: __getitem_async__ and __getitem__ of an object agree and item access has no side effect "
        "(premise `coherent`; IfNode's async twin evaluates a true elsif condition twice)",
        "tag_namespace['macros'] holds only Macro objects (written only by MacroNode)",
        "asyncio is abstracted to atomic segments between suspending awaits; run_in_executor is a call; thread-pool "
        "timing and third-party event loops are outside",
        "error messages are not part of the observable (Filter.evaluate_async words its LiquidTypeError differently)",
        "interleaving: template sources are not modified while the renders run; a render does not hold a cached "
        "Template across an await while another coroutine loads the same name with different globals "
        "(else known finding shared-cached-template-globals-rebound)",
        "python int() on string-literal offsets is modelled for [+-]?[0-9]+ only",
    ]
    chk.notes.append(f"c03 wall before coq cases: {round(time.time() - t_start, 1)} s")
