"""C05 — templates cannot reach Python attributes of context objects.

Tie: programs (paths, filters with string / lambda key arguments, if / for /
assign / output) whose names are drawn from the ATTRIBUTE names of the context
objects are rendered by /repo and by the Coq evaluator Kernels/ObjAccess.v
(`render`), comparing output text or error class; ForLoop / TableRow /
BlockDrop `__getitem__` are compared name by name with `forloop_getitem`,
`tablerow_getitem`, `blockdrop_getitem`.

Direct oracles (failing-input search, every tag and every registered filter):
  * sentinel: a value stored only in Python attributes never shows up in the
    output, in an error message or in an argument handed to a filter;
  * differential: data that differ only in Python attributes render alike;
  * attribute log: every attribute read on an instrumented context object is
    made by a *literal* name in the engine source, and that name belongs to
    the documented protocol (CPython's own `__class__` reads for isinstance
    excepted);
  * call log: no method / callable of a context object is ever called.
"""

from __future__ import annotations

import asyncio
import linecache
import re
import sys
import types
import warnings
from collections import abc
from typing import Any

from . import common as C

IMPORTS = "From Coq Require Import Strings.String.\nFrom LQ Require Import Kernels.ObjAccess."
NEEDED = ["theories/Base/Str.v", "theories/Kernels/ObjAccess.v",
          "theories/Proofs/ObjAccess_proofs.v"]

SENT = "S3CR3Tq"
SENT2 = "Z9HIDDENw"
REPR_SENT = "R3PRs3c"      # only in what __repr__ returns
DUNDER_SENT = "DUNDs3c"    # only in what __format__(spec != "") / __reduce__ / __getstate__ / __bytes__ / __dir__ return
REPR_SIG = "repr-of-object-inside-dict-rendered"
KWARG_SIG = "filter-injected-argument-overridable"
CLSNAME_SIG = "undefined-hint-shows-class-name"
CLASSGETITEM_SIG = "class-getitem-on-class-objects"
FSPATH_NAME = "inc_secret"   # the template name __fspath__ answers (str(obj) names another one)
CLS_SENT = "CLSs3c"        # part of the Python class name of every generated instance

# ----------------------------------------------------------------------------
# logs


class Logs:
    def __init__(self) -> None:
        self.attr: list[tuple[str, str, int, str]] = []   # (name, reader filename, lineno, kind of the object)
        self.calls: list[str] = []                   # non-protocol methods / callables called
        self.getitem: list[tuple[int, Any]] = []     # (object id in spec, key)
        self.filter_args: list[tuple[str, Any]] = []
        self.reprs: list[tuple[str, int]] = []       # who called __repr__ of a context object

    def clear(self) -> None:
        self.reprs.clear()
        self.attr.clear()
        self.calls.clear()
        self.getitem.clear()
        self.filter_args.clear()


LOG = Logs()
_oget = object.__getattribute__


def _log_read(name: str, kind: str) -> None:
    f = sys._getframe(2)
    LOG.attr.append((name, f.f_code.co_filename, f.f_lineno, kind))


class Base:
    """Instrumented instance: every attribute read is recorded with its reader."""

    def __getattribute__(self, name: str) -> Any:
        try:
            kind = _oget(self, "_c05")["kind"]
        except (AttributeError, KeyError):
            kind = "plain"
        _log_read(name, kind)
        return _oget(self, name)

    def __str__(self) -> str:
        return _oget(self, "_c05")["str"]

    __repr__ = __str__


class LogMeta(type):
    """Metaclass of classes that are passed to templates *as data*."""

    def __getattribute__(cls, name: str) -> Any:
        _log_read(name, "class")
        return type.__getattribute__(cls, name)

    def __str__(cls) -> str:
        return type.__getattribute__(cls, "_cstr")

    __repr__ = __str__


class LogModule(types.ModuleType):
    def __getattribute__(self, name: str) -> Any:
        _log_read(name, "module")
        return types.ModuleType.__getattribute__(self, name)

    def __repr__(self) -> str:
        return "<module '%s'>" % types.ModuleType.__getattribute__(self, "__name__")


# ----------------------------------------------------------------------------
# hybrid shapes (implementation-side oracles only): objects that are legal
# collections / records AND carry ordinary Python attributes, with the secrets
# in properties, class attributes and methods.
#
# spec := ("hyb", {"cls": name, "secret": sentinel})


class _HybLog:
    _c05kind = "plain"

    def __getattribute__(self, name: str) -> Any:
        _log_read(name, type(self)._c05kind)
        return super().__getattribute__(name)


def _logged_repr(text: str) -> Any:
    def __repr__(self):  # type: ignore[no-untyped-def]
        f = sys._getframe(1)
        LOG.reprs.append((f.f_code.co_filename, f.f_lineno))
        return text
    return __repr__


_HYBRIDS: dict[str, dict[str, Any]] = {}

HYBRID_ATTRS = {
    "acct": ["api_token", "SIGNING_KEY", "rotate", "_asdict", "_fields", "_replace", "_make", "name", "id",
             "__class__", "count", "index", "__getnewargs__", "_field_defaults"],
    "cred": ["password", "LEVELS", "check", "user", "level", "_asdict", "__doc__"],
    "dsub": ["secret", "prop", "meth", "copy", "pop", "__dict__", "fromkeys"],
    "lsub": ["secret", "prop", "meth", "append", "pop", "__dict__", "sort"],
    "dcls": ["secret", "title", "prop", "meth", "__dataclass_fields__", "__dict__", "__eq__"],
    "slot": ["secret", "title", "__slots__", "meth"],
    "enum": ["value", "name", "_value_", "_name_", "describe", "__members__", "secret"],
    "nsp": ["secret", "token", "__dict__", "meth"],
}


def hybrids(secret: str) -> dict[str, Any]:
    """name -> zero-argument constructor, for objects holding [secret]."""
    if secret in _HYBRIDS:
        return _HYBRIDS[secret]
    import collections
    import dataclasses
    import enum
    import typing

    def mkprop(n: str) -> property:
        def getter(self):  # type: ignore[no-untyped-def]
            LOG.calls.append("property:" + n)
            return secret + "p"
        return property(getter)

    def mkmeth(n: str) -> Any:
        def m(self, *a, **k):  # type: ignore[no-untyped-def]
            LOG.calls.append("method:" + n)
            return secret + "m"
        return m

    _Acct = collections.namedtuple("Acct", ["id", "name"])

    class Acct(_HybLog, _Acct):  # a Sequence whose fields are also attributes
        _c05kind = "sequence"
        SIGNING_KEY = secret + "K"
        api_token = mkprop("api_token")
        rotate = mkmeth("rotate")

    class _Cred(typing.NamedTuple):
        user: str
        level: int = 1

    class Cred(_HybLog, _Cred):
        _c05kind = "sequence"
        LEVELS = (secret + "L",)
        password = mkprop("password")
        check = mkmeth("check")

    class DSub(_HybLog, dict):  # type: ignore[type-arg]
        _c05kind = "mapping"
        prop = mkprop("prop")
        meth = mkmeth("meth")

    class LSub(_HybLog, list):  # type: ignore[type-arg]
        _c05kind = "sequence"
        prop = mkprop("prop")
        meth = mkmeth("meth")

    @dataclasses.dataclass(repr=False, eq=False)
    class DCls(_HybLog):
        title: str
        secret: str
        prop = mkprop("prop")
        meth = mkmeth("meth")
        __repr__ = _logged_repr("DCls(title='t', secret='%s')" % REPR_SENT)

        def __getitem__(self, k):  # type: ignore[no-untyped-def]
            if k == "title":
                return object.__getattribute__(self, "title")
            raise KeyError(k)

        def __str__(self) -> str:
            return "DCls#t"

    class Slot(_HybLog):
        __slots__ = ("title", "secret")
        meth = mkmeth("meth")
        __repr__ = _logged_repr("Slot(secret='%s')" % REPR_SENT)

        def __init__(self) -> None:
            object.__setattr__(self, "title", "t")
            object.__setattr__(self, "secret", secret)

        def __str__(self) -> str:
            return "Slot#t"

    class Color(_HybLog, enum.Enum):
        RED = secret + "v"
        describe = mkmeth("describe")

        def __str__(self) -> str:
            return "Color.RED"

        __repr__ = _logged_repr("<Color.RED: '%s'>" % REPR_SENT)

    class NSp(_HybLog, types.SimpleNamespace):
        meth = mkmeth("meth")
        __repr__ = _logged_repr("namespace(secret='%s')" % REPR_SENT)

        def __str__(self) -> str:
            return "NSp#1"

    def dsub() -> Any:
        d = DSub(a=1, k="v")
        object.__setattr__(d, "secret", secret)
        return d

    def lsub() -> Any:
        x = LSub([1, "q"])
        object.__setattr__(x, "secret", secret)
        return x

    T = typing.TypeVar("T")

    class Registry:                      # a class whose own __class_getitem__ is a Python method
        def __class_getitem__(cls, key):  # type: ignore[no-untyped-def]
            LOG.calls.append("method:__class_getitem__")
            return secret + "g"

    class Page(typing.Generic[T]):
        pass

    _HYBRIDS[secret] = {
        "reg": lambda: Registry, "gen": lambda: Page, "lst": lambda: list,
        "acct": lambda: Acct(7, "n"),
        "cred": lambda: Cred("u", 2),
        "dsub": dsub,
        "lsub": lsub,
        "dcls": lambda: DCls("t", secret),
        "slot": Slot,
        "enum": lambda: Color.RED,
        "nsp": lambda: NSp(secret=secret, token=secret + "t"),
    }
    return _HYBRIDS[secret]


def hybrid_data() -> list[tuple[str, tuple]]:
    data: list[tuple[str, tuple]] = [(n, ("hyb", {"cls": n, "secret": SENT})) for n in HYBRID_ATTRS]
    data.append(("hl", ("list", [v for _, v in data if v[1]["cls"] not in ("acct", "cred")])))
    data.append(("tl", ("list", [data[0][1], data[1][1]])))
    data.append(("kk", ("str", "api_token")))
    return data


def classobj_data() -> list[tuple[str, tuple]]:
    return [(n, ("hyb", {"cls": n, "secret": SENT})) for n in ("reg", "gen", "lst")]


def classobj_templates() -> list[str]:
    out = []
    for v in ("reg", "gen", "lst"):
        for n in ("size", "first", "admin_token", "__class__", "x"):
            out += [f"{{{{ {v}.{n} }}}}", f"{{{{ {v}['{n}'] }}}}", f"{{{{ {v} | map: '{n}' | join: ',' }}}}",
                    f"{{{{ {v} | where: '{n}' | size }}}}", f"{{{{ {v}.{n} | default: 'D' }}}}"]
    return out


def hybrid_templates() -> list[str]:
    out = []
    for v, names in HYBRID_ATTRS.items():
        for n in names:
            out += [
                f"{{{{ {v}.{n} }}}}", f"{{{{ {v}['{n}'] }}}}", f"{{% assign k = '{n}' %}}{{{{ {v}[k] }}}}",
                f"{{{{ {v}.{n}.x }}}}|{{{{ {v}.{n}[0] }}}}|{{{{ {v}.{n}.first }}}}",
                f"{{{{ {v} | map: '{n}' | join: ',' }}}}", f"{{{{ hl | map: '{n}' | join: ',' }}}}",
                f"{{{{ tl | map: '{n}' | join: ',' }}}}", f"{{{{ hl | where: '{n}' | size }}}}",
                f"{{{{ {v} | sort: '{n}' | size }}}}", f"{{{{ {v} | sum: '{n}' }}}}", f"{{{{ {v} | find: '{n}' }}}}",
                f"{{{{ {v} | has: '{n}' }}}}", f"{{{{ {v} | uniq: '{n}' | size }}}}", f"{{{{ {v} | compact: '{n}' | size }}}}",
                f"{{{{ hl | map: x => x.{n} | join: ',' }}}}", f"{{{{ tl | map: x => x.{n} | join: ',' }}}}",
                f"{{% if {v}.{n} %}}T{{% else %}}E{{% endif %}}{{{{ {v}.{n} | default: 'D' }}}}",
                f"{{% for x in {v} %}}[{{{{ x }}}}{{{{ x.{n} }}}}]{{% else %}}none{{% endfor %}}",
                f"{{% for x in {v}.{n} %}}[{{{{ x }}}}]{{% else %}}none{{% endfor %}}",
            ]
        out += [f"{{{{ {v} }}}}|{{{{ {v}[0] }}}}|{{{{ {v}.first }}}}|{{{{ {v}.last }}}}|{{{{ {v}.size }}}}|{{{{ {v} | size }}}}",
                f"{{{{ {v} | join: ',' }}}}|{{{{ {v} | first }}}}|{{{{ {v} | json }}}}|{{{{ {v}[kk] }}}}|{{{{ {v}[{v}] }}}}",
                f"{{{{ {v} | default: 'D' }}}}|{{% if {v} == {v} %}}eq{{% endif %}}|{{% if {v} contains 'secret' %}}c{{% endif %}}"]
    return out


# ----------------------------------------------------------------------------
# value specs -> real Python objects
#
# spec := ("nil",) | ("bool", b) | ("int", z) | ("str", s) | ("list", [spec])
#       | ("dict", [(k, spec)]) | ("obj", {...})
# obj  := id, kind plain|mapping|sequence, shape inst|class|module, hg, async,
#         str, liq (None | prim spec), html (None | str), len (None | int),
#         items, aitems [(k, spec)], seq [spec],
#         attrs [(name, ("val", spec) | ("prop", spec) | ("call", ret) | ("opaque",))]


def build(spec: tuple, memo: dict[int, Any]) -> Any:
    t = spec[0]
    if t == "nil":
        return None
    if t in ("bool", "int", "str"):
        return spec[1]
    if t == "list":
        return [build(x, memo) for x in spec[1]]
    if t == "tuple":
        return tuple(build(x, memo) for x in spec[1])
    if t == "dict":
        return {k: build(v, memo) for k, v in spec[1]}
    if t == "hyb":
        key = ("hyb", spec[1]["cls"], spec[1]["secret"])
        if key not in memo:
            memo[key] = hybrids(spec[1]["secret"])[spec[1]["cls"]]()   # type: ignore[index]
        return memo[key]                                                # type: ignore[index]
    if t == "obj":
        o = spec[1]
        if o["id"] in memo:
            return memo[o["id"]]
        obj = _build_obj(o, memo)
        memo[o["id"]] = obj
        return obj
    raise ValueError(t)


_CLASSES: dict[tuple, type] = {}


def _instance_class(kind: str, is_async: bool, has_liq: bool, has_html: bool, has_int: bool,
                    length: int | None, members: tuple, is_callable: bool) -> type:
    """One class per *shape* (reused across runs: creating a class per object
    makes every isinstance-against-an-ABC check walk an ever longer list of
    subclasses).  All per-object data lives in the instance's hidden store."""
    key = (kind, is_async, has_liq, has_html, has_int, length, members, is_callable)
    if key in _CLASSES:
        return _CLASSES[key]
    ns: dict[str, Any] = {}
    if kind == "mapping":
        def __getitem__(self, k):  # type: ignore[no-untyped-def]
            p = _oget(self, "_c05")
            LOG.getitem.append((p["id"], k))
            if isinstance(k, str) and k in p["items"]:
                return p["items"][k]
            raise KeyError(k)

        def __iter__(self):  # type: ignore[no-untyped-def]
            return iter(list(_oget(self, "_c05")["items"]))

        def __len__(self):  # type: ignore[no-untyped-def]
            return len(_oget(self, "_c05")["items"])
        ns.update(__getitem__=__getitem__, __iter__=__iter__, __len__=__len__)
    elif kind == "sequence":
        def __getitem__(self, k):  # type: ignore[no-untyped-def]
            p = _oget(self, "_c05")
            LOG.getitem.append((p["id"], k))
            return p["seq"][k]

        def __len__(self):  # type: ignore[no-untyped-def]
            return len(_oget(self, "_c05")["seq"])
        ns.update(__getitem__=__getitem__, __len__=__len__)
    elif length is not None:
        ns["__len__"] = lambda self: length
    if is_async:
        async def __getitem_async__(self, k):  # type: ignore[no-untyped-def]
            p = _oget(self, "_c05")
            LOG.getitem.append((p["id"], k))
            if isinstance(k, str) and k in p["aitems"]:
                return p["aitems"][k]
            raise KeyError(k)
        ns["__getitem_async__"] = __getitem_async__
    if has_liq:
        ns["__liquid__"] = lambda self: _oget(self, "_c05")["liq"]
    if has_html:
        ns["__html__"] = lambda self: _oget(self, "_c05")["html"]
    if has_int:
        ns["__int__"] = lambda self: _oget(self, "_c05")["int"]
    if any(name == "__repr__" for name, _ in members):
        def __repr__(self):  # type: ignore[no-untyped-def]
            f = sys._getframe(1)
            LOG.reprs.append((f.f_code.co_filename, f.f_lineno))
            return _oget(self, "_c05")["calls"]["__repr__"]

        def __format__(self, spec):  # type: ignore[no-untyped-def]
            if not spec:
                return str(self)          # format(obj, "") is string conversion
            LOG.calls.append("dunder:__format__")
            return DUNDER_SENT

        def _dunder(name):  # type: ignore[no-untyped-def]
            def f(self, *a, **k):  # type: ignore[no-untyped-def]
                LOG.calls.append("dunder:" + name)
                return (DUNDER_SENT,) if name != "__bytes__" else DUNDER_SENT.encode()
            return f
        def __fspath__(self):  # type: ignore[no-untyped-def]
            # os.PathLike: pathlib.Path(obj) / open(obj) would call this instead of str(obj)
            LOG.calls.append("dunder:__fspath__")
            return FSPATH_NAME

        ns.update(__repr__=__repr__, __format__=__format__, __fspath__=__fspath__)
        for dn in ("__reduce__", "__reduce_ex__", "__getstate__", "__bytes__", "__dir__", "__copy__", "__deepcopy__"):
            ns[dn] = _dunder(dn)
    for name, tag in members:
        if name == "__repr__":
            continue
        if tag == "prop":
            def getter(self, _n=name):  # type: ignore[no-untyped-def]
                LOG.calls.append("property:" + _n)
                return _oget(self, "_c05")["props"][_n]
            ns[name] = property(getter)
        elif tag == "call":
            def meth(self, *args, _n=name, **kw):  # type: ignore[no-untyped-def]
                LOG.calls.append("method:" + _n)
                return _oget(self, "_c05")["calls"][_n]
            ns[name] = meth
        else:
            ns[name] = object()
    if is_callable:
        def __call__(self, *args, **kw):  # type: ignore[no-untyped-def]
            LOG.calls.append("__call__")
            return SENT
        ns["__call__"] = __call__
    bases: tuple[type, ...] = {"plain": (Base,), "mapping": (Base, abc.Mapping),
                               "sequence": (Base, abc.Sequence)}[kind]
    cls = type("D%d%s" % (len(_CLASSES), CLS_SENT), bases, ns)
    _CLASSES[key] = cls
    return cls


def _build_obj(o: dict, memo: dict[int, Any]) -> Any:
    oid = o["id"]
    shape = o.get("shape", "inst")
    if shape == "module":
        m = LogModule(o["modname"])
        for name, a in o["attrs"]:
            if a[0] in ("val", "prop"):
                types.ModuleType.__setattr__(m, name, build(a[1], memo))
            elif a[0] == "call":
                def fn(*args, _ret=a[1], _n=name, **kw):  # type: ignore[no-untyped-def]
                    LOG.calls.append("function:" + _n)
                    return _ret
                types.ModuleType.__setattr__(m, name, fn)
        return m
    if shape == "class":
        ns2: dict[str, Any] = {"_cstr": o["str"]}
        for name, a in o["attrs"]:
            if a[0] == "val":
                ns2[name] = build(a[1], memo)
            elif a[0] == "prop":
                def getter(self, _spec=a[1], _n=name):  # type: ignore[no-untyped-def]
                    LOG.calls.append("property:" + _n)
                    return build(_spec, {})
                ns2[name] = property(getter)
            elif a[0] == "call":
                def meth(self, *args, _ret=a[1], _n=name, **kw):  # type: ignore[no-untyped-def]
                    LOG.calls.append("method:" + _n)
                    return _ret
                ns2[name] = meth
            else:
                ns2[name] = object()
        if o["hg"]:
            ns2["__getitem__"] = lambda self, k: SENT
        return LogMeta("K%d" % oid, (object,), ns2)
    members = tuple((name, a[0]) for name, a in o["attrs"] if a[0] != "val")
    cls = _instance_class(o["kind"], bool(o.get("async")), o.get("liq") is not None,
                          o.get("html") is not None, o.get("int") is not None, o.get("len"),
                          members, shape == "callable")
    obj = cls.__new__(cls)
    p: dict[str, Any] = {"str": o["str"], "id": oid, "html": o.get("html"), "int": o.get("int"),
                         "kind": o["kind"]}
    object.__setattr__(obj, "_c05", p)
    memo[oid] = obj
    p["liq"] = build(o["liq"], memo) if o.get("liq") is not None else None
    p["items"] = {k: build(v, memo) for k, v in o.get("items", [])}
    p["aitems"] = {k: build(v, memo) for k, v in o.get("aitems", [])}
    p["seq"] = [build(v, memo) for v in o.get("seq", [])]
    p["props"] = {name: build(a[1], memo) for name, a in o["attrs"] if a[0] == "prop"}
    p["calls"] = {name: a[1] for name, a in o["attrs"] if a[0] == "call"}
    for name, a in o["attrs"]:
        if a[0] == "val":
            object.__setattr__(obj, name, build(a[1], memo))
    return obj


def obj_specs(spec: tuple, out: dict[int, dict] | None = None) -> dict[int, dict]:
    """All object specs reachable through the protocol part or attributes."""
    if out is None:
        out = {}
    t = spec[0]
    if t in ("list", "tuple"):
        for x in spec[1]:
            obj_specs(x, out)
    elif t == "dict":
        for _, v in spec[1]:
            obj_specs(v, out)
    elif t == "obj":
        o = spec[1]
        if o["id"] not in out:
            out[o["id"]] = o
            for _, v in o.get("items", []) + o.get("aitems", []):
                obj_specs(v, out)
            for v in o.get("seq", []):
                obj_specs(v, out)
            if o.get("liq"):
                obj_specs(o["liq"], out)
            for _, a in o["attrs"]:
                if a[0] in ("val", "prop"):
                    obj_specs(a[1], out)
    return out


# ----------------------------------------------------------------------------
# Coq printers

_SAFE = re.compile(r"[ !#-\[\]-~]*")   # printable ASCII without '"' and '\'


def cq(s: str) -> str:
    if _SAFE.fullmatch(s):
        return '(lit "%s")' % s
    if all(32 <= ord(ch) < 127 for ch in s) and "\\" not in s:
        return '(lit "%s")' % s.replace('"', '""')
    return C.cstr(s)


def c_prim(v: tuple) -> str:
    t = v[0]
    if t == "nil":
        return "PNil"
    if t == "bool":
        return f"(PBool {C.cbool(v[1])})"
    if t == "int":
        return f"(PInt {C.cZ(v[1])})"
    return f"(PStr {cq(v[1])})"


def c_kvs(kvs: list[tuple[str, tuple]]) -> str:
    return C.clist((C.cpair(cq(k), c_val(v)) for k, v in kvs), "(str * val)")


def c_val(v: tuple) -> str:
    t = v[0]
    if t == "nil":
        return "VNil"
    if t == "bool":
        return f"(VBool {C.cbool(v[1])})"
    if t == "int":
        return f"(VInt {C.cZ(v[1])})"
    if t == "str":
        return f"(VStr {cq(v[1])})"
    if t in ("list", "tuple"):
        return f"(VList {C.cbool(t == 'tuple')} {C.clist(map(c_val, v[1]), 'val')})"
    if t == "dict":
        return f"(VDict {c_kvs(v[1])})"
    o = v[1]
    kind = {"plain": "KPlain", "mapping": "KMapping", "sequence": "KSequence"}[o["kind"]]
    hdr = (f"{{| o_id := {o['id']}; o_kind := {kind}; o_hg := {C.cbool(o['hg'])}; "
           f"o_async := {C.cbool(bool(o.get('async')))}; o_str := {cq(o['str'])}; "
           f"o_liq := {C.copt(c_prim(o['liq']) if o.get('liq') else None, 'prim')}; o_loop := false |}}")
    attrs = []
    for name, a in o["attrs"]:
        if a[0] in ("val", "prop"):
            attrs.append(C.cpair(cq(name), c_val(a[1])))
        elif a[0] == "call":
            attrs.append(C.cpair(cq(name), f"(VCallable {cq(a[1])})"))
        else:
            attrs.append(C.cpair(cq(name), "(VOpaque 7)"))
    return (f"(VObj {hdr} {c_kvs(o.get('items', []))} {c_kvs(o.get('aitems', []))} "
            f"{C.clist(map(c_val, o.get('seq', [])), 'val')} {C.clist(attrs, '(str * val)')})")


def c_data(data: list[tuple[str, tuple]]) -> str:
    return c_kvs(data)


# ----------------------------------------------------------------------------
# programs
#
# seg   := ("s", str) | ("i", int) | ("p", root, [seg])
# pexpr := ("nil",) | ("true",) | ("false",) | ("int", z) | ("str", s) | ("path", root, [seg])
# bexpr := ("prim", pexpr) | ("not", b) | ("and", a, b) | ("or", a, b) | ("cmp", op, a, b)
# farg  := ("pos", pexpr) | ("kw", k, pexpr) | ("lam", [param], bexpr)
# expr  := (pexpr, [(filtername, [farg])])
# stmt  := ("text", s) | ("out", expr) | ("assign", x, expr) | ("if", b, th, el)
#        | ("for", x, pexpr, body, els)

_IDENT = re.compile(r"[a-zA-Z_][a-zA-Z0-9_]*")
OPS = {"eq": ("==", "OEq"), "ne": ("!=", "ONe"), "lt": ("<", "OLt"), "gt": (">", "OGt"),
       "le": ("<=", "OLe"), "ge": (">=", "OGe"), "contains": ("contains", "OContains"),
       "in": ("in", "OIn")}
FNAMES = {"map": "FMap", "where": "FWhere", "reject": "FReject", "compact": "FCompact",
          "uniq": "FUniq", "sort": "FSort", "sum": "FSum", "find": "FFind",
          "find_index": "FFindIndex", "has": "FHas", "first": "FFirst", "last": "FLast",
          "size": "FSize", "join": "FJoin", "default": "FDefault", "t": "FT",
          "gettext": "FGettext"}


def canon_path(root: str, segs: list) -> str:
    """Path.__str__ (the loop name of a ForLoop is '<var>-<iterable>')."""
    out = [root]
    for s in segs:
        if s[0] == "s":
            out.append("." + s[1] if re.fullmatch(r"[a-zA-Z_][a-zA-Z0-9_-]*", s[1]) else f"[{s[1]!r}]")
        elif s[0] == "i":
            out.append(f"[{s[1]}]")
        else:
            out.append("[" + canon_path(s[1], s[2]) + "]")
    return "".join(out)


def p_path(root: str, segs: list, br: bool = False) -> str:
    out = [root]
    for s in segs:
        if s[0] == "s":
            if _IDENT.fullmatch(s[1]) and not br:
                out.append("." + s[1])
            else:
                out.append(f"['{s[1]}']")
        elif s[0] == "i":
            out.append(f"[{s[1]}]")
        else:
            out.append("[" + p_path(s[1], s[2], br) + "]")
    return "".join(out)


def p_pexpr(e: tuple, br: bool = False) -> str:
    t = e[0]
    if t in ("nil", "true", "false"):
        return t
    if t == "int":
        return str(e[1])
    if t == "str":
        return f"'{e[1]}'"
    return p_path(e[1], e[2], br)


def p_bexpr(b: tuple, br: bool = False, top: bool = True) -> str:
    t = b[0]
    if t == "prim":
        return p_pexpr(b[1], br)
    if t == "not":
        s = "not (" + p_bexpr(b[1], br, True) + ")"
    elif t in ("and", "or"):
        s = f"({p_bexpr(b[1], br, True)}) {t} ({p_bexpr(b[2], br, True)})"
    else:
        s = f"{p_bexpr(b[2], br, False)} {OPS[b[1]][0]} {p_bexpr(b[3], br, False)}"
    return s if top else "(" + s + ")"


def p_farg(a: tuple, br: bool = False) -> str:
    if a[0] == "pos":
        return p_pexpr(a[1], br)
    if a[0] == "kw":
        return f"{a[1]}: {p_pexpr(a[2], br)}"
    ps = a[1][0] if len(a[1]) == 1 else "(" + ", ".join(a[1]) + ")"
    return f"{ps} => {p_bexpr(a[2], br)}"


def p_expr(e: tuple, br: bool = False) -> str:
    s = p_pexpr(e[0], br)
    for name, args in e[1]:
        s += " | " + name
        if args:
            s += ": " + ", ".join(p_farg(a, br) for a in args)
    return s


def p_stmts(ss: list, br: bool = False) -> str:
    out = []
    for s in ss:
        t = s[0]
        if t == "text":
            out.append(s[1])
        elif t == "out":
            out.append("{{ " + p_expr(s[1], br) + " }}")
        elif t == "assign":
            out.append("{% assign " + s[1] + " = " + p_expr(s[2], br) + " %}")
        elif t == "if":
            out.append("{% if " + p_bexpr(s[1], br) + " %}" + p_stmts(s[2], br)
                       + ("{% else %}" + p_stmts(s[3], br) if s[3] else "") + "{% endif %}")
        else:
            out.append("{% for " + s[1] + " in " + p_pexpr(s[2], br) + " %}" + p_stmts(s[3], br)
                       + ("{% else %}" + p_stmts(s[4], br) if s[4] else "") + "{% endfor %}")
    return "".join(out)


def c_seg(s: tuple) -> str:
    if s[0] == "s":
        return f"(SegS {cq(s[1])})"
    if s[0] == "i":
        return f"(SegI {C.cZ(s[1])})"
    return f"(SegP {cq(s[1])} {C.clist(map(c_seg, s[2]), 'seg')})"


def c_pexpr(e: tuple) -> str:
    t = e[0]
    if t == "nil":
        return "ENil"
    if t == "true":
        return "ETrue"
    if t == "false":
        return "EFalse"
    if t == "int":
        return f"(EInt {C.cZ(e[1])})"
    if t == "str":
        return f"(EStr {cq(e[1])})"
    return f"(EPath {cq(e[1])} {C.clist(map(c_seg, e[2]), 'seg')})"


def c_bexpr(b: tuple) -> str:
    t = b[0]
    if t == "prim":
        return f"(BPrim {c_pexpr(b[1])})"
    if t == "not":
        return f"(BNot {c_bexpr(b[1])})"
    if t == "and":
        return f"(BAnd {c_bexpr(b[1])} {c_bexpr(b[2])})"
    if t == "or":
        return f"(BOr {c_bexpr(b[1])} {c_bexpr(b[2])})"
    return f"(BCmp {OPS[b[1]][1]} {c_bexpr(b[2])} {c_bexpr(b[3])})"


def c_farg(a: tuple) -> str:
    if a[0] == "pos":
        return f"(APos {c_pexpr(a[1])})"
    if a[0] == "kw":
        return f"(AKw {cq(a[1])} {c_pexpr(a[2])})"
    return f"(ALam {C.clist(map(cq, a[1]), 'str')} {c_bexpr(a[2])})"


def c_expr(e: tuple) -> str:
    fs = C.clist((f"{{| f_name := {FNAMES[n]}; f_args := {C.clist(map(c_farg, args), 'farg')} |}}"
                  for n, args in e[1]), "fcall")
    return f"{{| e_left := {c_pexpr(e[0])}; e_filters := {fs} |}}"


def c_stmts(ss: list) -> str:
    out = []
    for s in ss:
        t = s[0]
        if t == "text":
            out.append(f"(SText {cq(s[1])})")
        elif t == "out":
            out.append(f"(SOut {c_expr(s[1])})")
        elif t == "assign":
            out.append(f"(SAssign {cq(s[1])} {c_expr(s[2])})")
        elif t == "if":
            out.append(f"(SIf {c_bexpr(s[1])} {c_stmts(s[2])} {c_stmts(s[3])})")
        else:
            label = s[1] + "-" + (canon_path(s[2][1], s[2][2]) if s[2][0] == "path" else p_pexpr(s[2]))
            out.append(f"(SFor {cq(s[1])} {cq(label)} {c_pexpr(s[2])} {c_stmts(s[3])} {c_stmts(s[4])})")
    return C.clist(out, "stmt")


def prog_names(ss: Any, out: set[str] | None = None) -> set[str]:
    """Every string that occurs in a program (segment names, string literals, keys)."""
    if out is None:
        out = set()
    if isinstance(ss, (list, tuple)):
        for x in ss:
            prog_names(x, out)
    elif isinstance(ss, str):
        out.add(ss)
    return out


# ----------------------------------------------------------------------------
# generators

ITEM_KEYS = ["a", "b", "k", "title", "id", "size", "first", "last"]
ATTR_NAMES = ["secret", "_p", "prop", "meth", "token", "title", "a", "hidden"]
DUNDERS = ["__class__", "__dict__", "__init__", "__globals__", "__mro__", "__subclasses__",
           "__doc__", "__module__", "__getitem__", "__len__", "__str__", "__liquid__",
           "__html__", "__getitem_async__", "_c05", "force_liquid_default", "gettext"]
STRS = ["x", "y", "T", "a", "b", "1"]
# Attribute names that coincide with Mapping / Sequence / str / datetime method
# names or with Liquid's special properties: a type check loosened to duck
# typing (`hasattr(obj, "items")`) would reach them.
DUCK_NAMES = ["items", "keys", "values", "get", "first", "last", "size", "count", "index",
              "strftime", "isoformat", "timestamp", "format", "join", "split", "lower", "poke"]
DUCK_EXCLUDE = {"mapping": {"items", "keys", "values", "get"}, "sequence": {"index", "count"}, "plain": set()}
DUCK_ITEMS = ("list", [("list", [("str", "k"), ("str", SENT + "i")])])


class Gen:
    def __init__(self, r: Any) -> None:
        self.r = r
        self.nid = 0

    # -- data ---------------------------------------------------------------
    def prim(self) -> tuple:
        r = self.r
        k = r.random()
        if k < 0.12:
            return ("nil",)
        if k < 0.25:
            return ("bool", r.random() < 0.5)
        if k < 0.6:
            return ("int", r.choice([0, 1, 2, 3, 7, -1]))
        return ("str", r.choice(STRS))

    def value(self, depth: int) -> tuple:
        r = self.r
        k = r.random()
        if depth <= 0 or k < 0.55:
            return self.prim()
        if k < 0.7:
            return ("list" if r.random() < 0.8 else "tuple",
                    [self.value(depth - 1) for _ in range(r.randint(0, 3))])
        if k < 0.8:
            return ("dict", self.kvs(depth - 1))
        return self.obj(depth - 1)

    def kvs(self, depth: int, lo: int = 1) -> list[tuple[str, tuple]]:
        ks = self.r.sample(ITEM_KEYS, self.r.randint(lo, 4))
        return [(k, self.value(depth)) for k in ks]

    def attrs(self, depth: int, exposed: list[str], kind: str = "plain",
              allow_repr: bool = True) -> list[tuple[str, tuple]]:
        r = self.r
        out: list[tuple[str, tuple]] = [("secret", ("val", ("str", SENT)))]
        if r.random() < 0.45:
            # methods / properties / plain attributes named like protocol methods
            names = [n for n in DUCK_NAMES if n not in DUCK_EXCLUDE[kind] and n not in exposed]
            for name in r.sample(names, r.randint(1, 3)):
                k = r.random()
                if k < 0.5:
                    out.append((name, ("call", SENT + "c")))
                elif k < 0.85:
                    out.append((name, ("prop", DUCK_ITEMS if r.random() < 0.5 else ("str", SENT + "q"))))
                else:
                    out.append((name, ("val", DUCK_ITEMS)))
        for name in r.sample(ATTR_NAMES[1:], r.randint(0, 3)):
            if name == "prop":
                out.append((name, ("prop", ("str", SENT + "p"))))
            elif name == "meth":
                out.append((name, ("call", SENT + "m")))
            elif name == "token":
                out.append((name, ("opaque",)))
            elif name == "hidden" and depth > 0:
                out.append((name, ("val", self.obj(depth - 1))))
            else:
                out.append((name, ("val", ("str", SENT + name))))
        if allow_repr and r.random() < 0.4:
            out.append(("__repr__", ("call", "Obj(secret='%s')" % REPR_SENT)))
        if exposed and r.random() < 0.3:
            k = r.choice(exposed)
            if all(n != k for n, _ in out):
                out.append((k, ("val", ("str", SENT + "k"))))
        return out

    def obj(self, depth: int, kind: str | None = None, shape: str = "inst") -> tuple:
        r = self.r
        self.nid += 1
        oid = self.nid
        kind = kind or r.choice(["plain", "plain", "mapping", "mapping", "mapping", "sequence"])
        o: dict[str, Any] = {"id": oid, "kind": kind, "shape": shape, "hg": kind != "plain",
                             "async": False, "liq": None, "items": [], "aitems": [], "seq": [],
                             "str": {"plain": "P", "mapping": "M", "sequence": "Q"}[kind] + "#%d" % oid}
        if kind == "mapping":
            o["items"] = self.kvs(depth, lo=0 if r.random() < 0.1 else 1)
            if r.random() < 0.2:
                o["async"] = True
                o["aitems"] = self.kvs(0)
        elif kind == "sequence":
            o["seq"] = [self.value(depth) if r.random() < 0.35 else
                        (("dict", self.kvs(0)) if r.random() < 0.5 or depth <= 0 else self.obj(depth - 1))
                        for _ in range(r.randint(0, 3))]
        if r.random() < 0.15:
            o["liq"] = r.choice([("int", 0), ("int", 1), ("str", "a"), ("str", "secret"),
                                 ("bool", False), ("nil",), ("str", "")])
        o["attrs"] = self.attrs(depth, [k for k, _ in o["items"]], kind)
        return ("obj", o)

    def class_obj(self) -> tuple:
        self.nid += 1
        hg = self.r.random() < 0.5
        return ("obj", {"id": self.nid, "kind": "plain", "shape": "class", "hg": hg, "async": False,
                        "liq": None, "items": [], "aitems": [], "seq": [],
                        "str": "<class 'K%d'>" % self.nid, "attrs": self.attrs(0, [], allow_repr=False)})

    def module_obj(self) -> tuple:
        self.nid += 1
        return ("obj", {"id": self.nid, "kind": "plain", "shape": "module", "hg": False, "async": False,
                        "liq": None, "items": [], "aitems": [], "seq": [], "modname": "secretmod",
                        "str": "<module 'secretmod'>",
                        "attrs": [("secret", ("val", ("str", SENT))), ("meth", ("call", SENT + "m")),
                                  ("items", ("call", SENT + "c")), ("first", ("val", ("str", SENT + "f")))]})

    def callable_obj(self) -> tuple:
        self.nid += 1
        return ("obj", {"id": self.nid, "kind": "plain", "shape": "callable", "hg": False, "async": False,
                        "liq": None, "items": [], "aitems": [], "seq": [],
                        "str": "F#%d" % self.nid, "attrs": [("secret", ("val", ("str", SENT)))]})

    def data(self) -> list[tuple[str, tuple]]:
        r = self.r
        self.nid = 0
        o = self.obj(2)
        m = self.obj(1, "mapping")
        p = self.obj(1, "plain")
        items = []
        for _ in range(r.randint(2, 4)):
            k = r.random()
            if k < 0.4:
                items.append(("dict", self.kvs(1)))
            elif k < 0.85:
                items.append(self.obj(1))
            elif k < 0.93:
                items.append(items[0] if items else self.prim())   # aliasing
            else:
                items.append(self.prim())
        out = [("o", o), ("m", m), ("l", ("list", items))]
        if r.random() < 0.6:
            out.append(("s", self.obj(1, "sequence")))
        if r.random() < 0.5:
            out.append(("p", p))
        if r.random() < 0.5:
            d = self.kvs(1)
            if r.random() < 0.4:
                d.append(("f", self.callable_obj()))
            if r.random() < 0.3:
                d.append(("o", o))
            out.append(("d", ("dict", d)))
        if r.random() < 0.25:
            out.append(("c", self.class_obj()))
        if r.random() < 0.12:
            out.append(("mod", self.module_obj()))
        return out

    # -- programs -----------------------------------------------------------
    # Paths are *guided* by the data: most segments are valid steps (so that
    # the walk reaches objects deep inside the data), and at any step the
    # generator may switch to an attack name: an attribute name of the object
    # it stands on, a dunder name, a private name.
    def setup(self, data: list[tuple[str, tuple]]) -> None:
        self.env: dict[str, tuple | None] = dict(data)
        objs: dict[int, dict] = {}
        keys: set[str] = set()
        for _, v in data:
            obj_specs(v, objs)
            _collect_keys(v, keys)
        attrs = sorted({n for o in objs.values() for n, _ in o["attrs"]})
        self.keys = sorted(keys) or ["a"]
        self.attr_pool = attrs * 3 + DUNDERS
        self.attr_names = set(attrs) | set(DUNDERS)
        self.loop_depth = 0

    def attack(self, cur: tuple | None) -> str:
        r = self.r
        if cur is not None and cur[0] == "obj" and r.random() < 0.6:
            return r.choice([n for n, _ in cur[1]["attrs"]])
        if cur is not None and cur[0] == "hyb":
            return r.choice(HYBRID_ATTRS[cur[1]["cls"]])
        if self.loop_depth and r.random() < 0.25:
            return r.choice(["it", "item", "_index", "step", "_keys", "parentloop", "index", "length",
                             "name", "rindex0", "first", "last"])
        return r.choice(self.attr_pool)

    def step(self, cur: tuple | None) -> tuple[tuple, tuple | None]:
        """One path segment from the value [cur]; returns (segment, value reached or None)."""
        r = self.r
        k = r.random()
        if cur is None or k < 0.3:
            if k < 0.04:
                return ("i", r.choice([0, -1, 5])), None
            return ("s", self.attack(cur)), None
        t = cur[0]
        if k < 0.38:
            name = r.choice(["size", "first", "last"])
            return ("s", name), None
        kvs: list[tuple[str, tuple]] = []
        seq: list[tuple] = []
        if t == "dict":
            kvs = cur[1]
        elif t in ("list", "tuple"):
            seq = cur[1]
        elif t == "obj":
            kvs, seq = cur[1].get("items", []), cur[1].get("seq", [])
        if kvs and (not seq or r.random() < 0.5):
            key, v = r.choice(kvs)
            if r.random() < 0.12:
                # the key held in a variable: a nested path
                for name, val in self.env.items():
                    if val == ("str", key):
                        return ("p", name, []), v
            return ("s", key), v
        if seq:
            i = r.randrange(len(seq))
            return ("i", i if r.random() < 0.7 else i - len(seq)), seq[i]
        return ("s", r.choice(self.keys) if r.random() < 0.5 else self.attack(cur)), None

    def gpath(self, root: str | None = None, lo: int = 1, hi: int = 3) -> tuple[tuple, tuple | None]:
        r = self.r
        if root is None:
            root = "nosuch" if r.random() < 0.02 else r.choice(list(self.env))
        cur = self.env.get(root)
        segs = []
        for _ in range(r.randint(lo, hi)):
            sg, cur = self.step(cur)
            segs.append(sg)
            if cur is None and r.random() < 0.7:
                break
        return ("path", root, segs), cur

    def path(self, root: str | None = None, lo: int = 1, hi: int = 3) -> tuple:
        return self.gpath(root, lo, hi)[0]

    def coll_path(self) -> tuple[tuple, tuple | None]:
        """A path that (probably) reaches a collection or an object."""
        best: tuple[tuple, tuple | None] = self.gpath(lo=0, hi=2)
        for _ in range(4):
            if best[1] is not None and best[1][0] in ("list", "obj", "dict"):
                break
            best = self.gpath(lo=0, hi=2)
        return best

    def elems(self, cur: tuple | None) -> list[tuple]:
        """The values a sequence filter / a for loop would iterate (approximately)."""
        if cur is None:
            return []
        if cur[0] in ("list", "tuple"):
            out = []
            for x in cur[1]:
                out += self.elems(x) if x[0] in ("list", "tuple") else [x]
            return out
        if cur[0] == "obj" and cur[1]["kind"] == "sequence":
            return list(cur[1]["seq"])
        return [cur]

    def item_key(self, cur: tuple | None) -> str:
        """A name for a key argument: a real key of some element, or an attack name."""
        r = self.r
        es = self.elems(cur)
        if es and r.random() < 0.5:
            e = r.choice(es)
            ks = [k for k, _ in (e[1] if e[0] == "dict" else e[1].get("items", []) if e[0] == "obj" else [])]
            if ks:
                return r.choice(ks)
        if es and r.random() < 0.8:
            return self.attack(r.choice(es))
        return r.choice(self.attr_pool + self.keys)

    def lit(self) -> tuple:
        r = self.r
        k = r.random()
        if k < 0.5:
            return ("str", r.choice(STRS + [r.choice(self.attr_pool)]))
        if k < 0.8:
            return ("int", r.choice([0, 1, 2, 3]))
        return r.choice([("nil",), ("true",), ("false",)])

    def bexpr(self, depth: int = 1, root: str | None = None) -> tuple:
        r = self.r
        k = r.random()
        if k < 0.3:
            return ("prim", self.path(root))
        if k < 0.8 or depth <= 0:
            op = r.choice(["eq", "eq", "ne", "lt", "gt", "le", "ge", "contains", "contains", "in"])
            pa, cur = self.gpath(root, lo=0)
            a = ("prim", pa)
            if op in ("contains",) and r.random() < 0.7:
                b: tuple = ("prim", ("str", self.item_key(cur) if r.random() < 0.7 else r.choice(STRS)))
            elif cur is not None and cur[0] in ("int", "str", "bool") and r.random() < 0.5:
                b = ("prim", (cur[0], cur[1]) if cur[0] != "bool" else ("true",) if cur[1] else ("false",))
            else:
                b = ("prim", self.lit() if r.random() < 0.6 else self.path(lo=0))
            return ("cmp", op, a, b) if (r.random() < 0.8 or op == "in") else ("cmp", op, b, a)
        if k < 0.87:
            return ("not", self.bexpr(depth - 1, root))
        return (r.choice(["and", "or"]), self.bexpr(depth - 1, root), self.bexpr(depth - 1, root))

    def key_arg(self, cur: tuple | None) -> tuple:
        k = self.r.random()
        if k < 0.8:
            return ("pos", ("str", self.item_key(cur)))
        if k < 0.87:
            return ("pos", ("int", self.r.choice([0, 1, -1])))
        if k < 0.97:
            return ("pos", self.path())
        return ("pos", ("nil",))

    def lam(self, path_only: bool, cur: tuple | None) -> tuple:
        r = self.r
        two = r.random() < 0.2
        params = ["x", "i"] if two else ["x"]
        es = self.elems(cur)
        saved = dict(self.env)
        self.env["x"] = r.choice(es) if es else None
        if two:
            self.env["i"] = ("int", 0)
        root = "x" if r.random() < 0.92 else "i" if two else "x"
        if path_only or r.random() < 0.4:
            body: tuple = ("prim", self.path(root, lo=0 if r.random() < 0.1 else 1, hi=2))
        else:
            body = self.bexpr(1, root)
        self.env = saved
        return ("lam", params, body)

    def post(self, cur: tuple | None) -> list:
        k = self.r.random()
        if k < 0.45:
            return [("map", [("pos", ("str", self.item_key(cur)))]), ("join", [("pos", ("str", ","))])]
        if k < 0.85:
            return [("join", [("pos", ("str", ","))])]
        if k < 0.93:
            return [("size", [])]
        return []

    def keyed_filter(self, cur: tuple | None) -> list:
        r = self.r
        f = r.choice(["map", "map", "where", "where", "reject", "compact", "uniq", "sort", "sum",
                      "find", "find_index", "has"])
        path_only = f in ("map", "compact", "uniq", "sort", "sum")
        k = r.random()
        if k < 0.3:
            args = [self.lam(path_only, cur)]
        elif f in ("where", "reject", "find", "find_index", "has") and k < 0.6:
            key = self.key_arg(cur)
            val: tuple = self.lit()
            es = self.elems(cur)
            if es and key[1][0] == "str" and r.random() < 0.6:
                e = r.choice(es)
                for kk, vv in (e[1] if e[0] == "dict" else e[1].get("items", []) if e[0] == "obj" else []):
                    if kk == key[1][1] and vv[0] in ("int", "str"):
                        val = vv
            args = [key, ("pos", val if r.random() < 0.85 else self.path())]
        elif f in ("compact", "uniq", "sort", "sum") and k < 0.4:
            args = []
        else:
            args = [self.key_arg(cur)]
        fs = [(f, args)]
        if f == "map":
            fs.append(("join", [("pos", ("str", ","))]))
        elif f in ("where", "reject", "compact", "uniq", "sort"):
            fs += self.post(cur)
        return fs

    def expr(self) -> tuple:
        r = self.r
        k = r.random()
        if k < 0.35:
            return (self.path(), [])
        left, cur = self.coll_path()
        if k < 0.8:
            return (left, self.keyed_filter(cur))
        if k < 0.86:
            return (left, [(r.choice(["first", "last", "size"]), [])])
        if k < 0.9:
            return (left, [("join", [] if r.random() < 0.5 else [("pos", self.lit())])])
        if k < 0.95:
            return (self.path(lo=0) if r.random() < 0.5 else left,
                    [("default", [] if r.random() < 0.2 else [("pos", ("str", "D"))])])
        msg = r.choice(["hello", "{0.__class__}", "{x.secret} {x.__class__}", "{secret}"])
        kw = [("kw", "x", self.path(lo=0))] if r.random() < 0.6 else []
        if r.random() < 0.15:
            kw.append(("kw", "context", self.path(lo=0)))     # a reserved name: LiquidTypeError
        return (("str", msg) if r.random() < 0.7 else self.path(), [(r.choice(["t", "gettext"]), kw)])

    def stmt(self, depth: int) -> list:
        r = self.r
        k = r.random()
        if k < 0.45 or depth <= 0:
            return [("out", self.expr()), ("text", ";")]
        if k < 0.6:
            x = r.choice(["y", "z", "x"]) if r.random() < 0.93 else "translations"
            if r.random() < 0.5:
                pe, cur = self.gpath(lo=0, hi=2)
                e: tuple = (pe, [])
            else:
                e, cur = self.expr(), None
            self.env[x] = cur
            return [("assign", x, e)]
        if k < 0.78:
            th = [("text", "T")] + self.stmts(depth - 1, 1)
            el = [("text", "E")] if r.random() < 0.5 else []
            return [("if", self.bexpr(), th, el)]
        x = r.choice(["x", "it"])
        it, cur = self.coll_path()
        if it[1] == "forloop" and not it[2]:
            it, cur = ("path", "l", []), self.env.get("l")
        saved = dict(self.env)
        es: list[tuple] = []
        if cur is not None and cur[0] == "dict":
            es = [("list", [("str", kk), vv]) for kk, vv in cur[1]]
        elif cur is not None and cur[0] == "obj" and cur[1]["kind"] == "mapping":
            es = [("list", [("str", kk), vv]) for kk, vv in cur[1]["items"]]
        elif cur is not None and cur[0] == "list":
            es = list(cur[1])
        elif cur is not None and cur[0] == "obj" and cur[1]["kind"] == "sequence":
            es = list(cur[1]["seq"])
        self.env[x] = r.choice(es) if es else None
        self.env["forloop"] = None
        self.loop_depth += 1
        body = [("text", "[")] + self.stmts(depth - 1, r.randint(1, 2)) + [("text", "]")]
        self.loop_depth -= 1
        self.env = saved
        els = [("text", "none")] if r.random() < 0.4 else []
        return [("for", x, it, body, els)]

    def stmts(self, depth: int, n: int) -> list:
        out: list = []
        for _ in range(n):
            out += self.stmt(depth)
        return out

    def program(self, data: list[tuple[str, tuple]]) -> list:
        self.setup(data)
        return self.stmts(2, self.r.randint(1, 4))


def _collect_keys(v: tuple, out: set[str]) -> None:
    t = v[0]
    if t in ("list", "tuple"):
        for x in v[1]:
            _collect_keys(x, out)
    elif t == "dict":
        for k, x in v[1]:
            out.add(k)
            _collect_keys(x, out)
    elif t == "obj":
        for k, x in v[1].get("items", []) + v[1].get("aitems", []):
            out.add(k)
            _collect_keys(x, out)
        for x in v[1].get("seq", []):
            _collect_keys(x, out)


def twin(spec: tuple, r: Any) -> tuple:
    """The same protocol part with different Python attributes."""
    t = spec[0]
    if t in ("list", "tuple"):
        return (t, [twin(x, r) for x in spec[1]])
    if t == "dict":
        return ("dict", [(k, twin(v, r)) for k, v in spec[1]])
    if t == "hyb":
        return ("hyb", dict(spec[1], secret=SENT2))
    if t != "obj":
        return spec
    o = dict(spec[1])
    o["items"] = [(k, twin(v, r)) for k, v in o.get("items", [])]
    o["aitems"] = [(k, twin(v, r)) for k, v in o.get("aitems", [])]
    o["seq"] = [twin(v, r) for v in o.get("seq", [])]
    mode = r.random()
    attrs: list[tuple[str, tuple]] = [(n, a) for n, a in o["attrs"] if n == "__repr__"]
    if mode < 0.3:
        attrs.append(("other", ("val", ("str", SENT2))))
    else:
        for n, a in o["attrs"]:
            if n == "__repr__":
                continue
            if a[0] in ("val", "prop"):
                attrs.append((n, (a[0], _swap(twin(a[1], r)))))
            elif a[0] == "call":
                attrs.append((n, ("call", SENT2 + "m")))
            elif r.random() < 0.5:
                attrs.append((n, a))
        if mode < 0.6:
            for k, _ in o["items"][:1]:
                if all(n != k for n, _ in attrs):
                    attrs.append((k, ("val", ("str", SENT2 + "k"))))
            attrs.append(("extra", ("call", SENT2)))
    o["attrs"] = attrs
    return ("obj", o)


def _swap(spec: tuple) -> tuple:
    if spec[0] == "str":
        return ("str", spec[1].replace(SENT, SENT2))
    return spec


# ----------------------------------------------------------------------------
# running the implementation

PARTIALS = {
    "tp": "{{ 'x' | t }}{% translate %}y{% endtranslate %}",
    "p": "<{{ x }}|{{ v }}|{{ x.secret }}|{{ v.secret }}|{{ x.__class__ }}>",
    "secret": "<partial named secret>",
    "__class__": "<partial named __class__>",
    "title": "<partial named title>",
}


class Rec:
    """A registered filter, with every argument handed to it recorded."""

    def __init__(self, f: Any, name: str) -> None:
        self._f = f
        self._name = name

    def __call__(self, *args: Any, **kw: Any) -> Any:
        LOG.filter_args.append((self._name, (args, {k: v for k, v in kw.items()
                                                    if k not in ("context", "environment")})))
        return self._f(*args, **kw)

    def __getattr__(self, n: str) -> Any:
        return getattr(self._f, n)


_ENVS: dict[tuple, Any] = {}


UNDEFS = ("default", "debug", "strict", "falsy")


CFGS = ("std", "novalidate", "alt")


FS_FILES = {
    "inc_a": "<A {{ v }}{{ a }}>",
    FSPATH_NAME: "<" + SENT + " partial {{ v }}>",
    "inc_base": "[base {% block b %}B{% endblock %}]",
}
_FS_DIR: list[str] = []


def fs_dir() -> str:
    """A scratch directory holding the partials as files (removed at exit)."""
    if not _FS_DIR:
        import atexit
        import os
        import shutil
        import tempfile
        d = tempfile.mkdtemp(prefix="c05_", dir=os.environ.get("VERIF_SCRATCH", "/var/tmp"))
        for name, src in {**PARTIALS, **FS_FILES}.items():
            with open(os.path.join(d, name), "w", encoding="utf-8") as f:
                f.write(src)
        atexit.register(shutil.rmtree, d, ignore_errors=True)
        _FS_DIR.append(d)
    return _FS_DIR[0]


def make_env(shopify: bool = False, auto_escape: bool = False, undef: str = "default", cfg: str = "std",
             loader: str = "dict") -> Any:
    """cfg: 'std' | 'novalidate' (validate_filter_arguments=False, the documented switch for
    lazily registered filters) | 'alt' (the other documented switches: shorthand_indexes,
    suppress_blank_control_flow_blocks off, the three resource limits set, no validation)."""
    key = (shopify, auto_escape, undef, cfg, loader)
    if key not in _ENVS:
        from liquid2 import DictLoader
        from liquid2 import undefined as U
        ucls = {"default": U.Undefined, "debug": U.DebugUndefined, "strict": U.StrictUndefined,
                "falsy": U.FalsyStrictUndefined}[undef]
        if shopify:
            from liquid2.shopify import Environment
        else:
            from liquid2 import Environment
        if cfg == "alt":
            class Environment(Environment):  # type: ignore[no-redef]
                shorthand_indexes = True
                suppress_blank_control_flow_blocks = False
                loop_iteration_limit = 10 ** 7
                local_namespace_limit = 10 ** 9
                output_stream_limit = 10 ** 8
        if loader == "fs":
            from liquid2 import FileSystemLoader
            ld: Any = FileSystemLoader(fs_dir())
        elif loader == "cfs":
            from liquid2 import CachingFileSystemLoader
            ld = CachingFileSystemLoader(fs_dir())
        else:
            ld = DictLoader({**PARTIALS, **FS_FILES})
        env = Environment(loader=ld, auto_escape=auto_escape, undefined=ucls,
                          validate_filter_arguments=(cfg == "std"))
        for name, f in list(env.filters.items()):
            env.filters[name] = Rec(f, name)
        _ENVS[key] = env
    return _ENVS[key]


_LOOP: Any = None


def run_impl(src: str, data: list[tuple[str, tuple]], *, async_: bool = False,
             shopify: bool = False, auto_escape: bool = False, undef: str = "default",
             cfg: str = "std", loader: str = "dict") -> tuple:
    """('ok', text) | ('err', class name, message).  Logs are left in LOG."""
    global _LOOP
    env = make_env(shopify, auto_escape, undef, cfg, loader)
    memo: dict[int, Any] = {}
    pydata = {k: build(v, memo) for k, v in data}
    LOG.clear()
    try:
        t = env.from_string(src)
        if async_:
            if _LOOP is None:
                _LOOP = asyncio.new_event_loop()
            return ("ok", _LOOP.run_until_complete(t.render_async(**pydata)))
        return ("ok", t.render(**pydata))
    except RecursionError:
        return ("err", "RecursionError", "")
    except Exception as e:  # noqa: BLE001
        try:
            msg = str(e)
        except Exception:  # noqa: BLE001
            msg = ""
        return ("err", type(e).__name__, msg)


LCLASSES = {"LiquidSyntaxError", "LiquidTypeError", "LiquidNameError", "LiquidValueError",
            "UndefinedError", "TemplateNotFoundError", "TemplateInheritanceError",
            "RequiredBlockError", "DisabledTagError", "TranslationSyntaxError",
            "ContextDepthError", "LoopIterationLimitError", "OutputStreamLimitError",
            "LocalNamespaceLimitError", "UnknownFilterError", "LiquidIndexError"}
PYKINDS = {"IndexError", "ValueError", "KeyError", "TypeError", "OverflowError", "ZeroDivisionError",
           "AssertionError", "AttributeError", "RecursionError"}


def c_outcome(o: tuple) -> str:
    if o[0] == "ok":
        return f"(Ok {cq(o[1])})"
    if o[1] in LCLASSES:
        return f"(LErr {o[1]} None)"
    if o[1] in PYKINDS:
        return f"(PyExc {o[1]})"
    return "(PyExc OtherPyError)"


def canon(o: tuple) -> tuple:
    return o[:2]


# ----------------------------------------------------------------------------
# direct oracles

# Names the engine source reads literally and that belong to the documented
# protocol: the three hooks, hasattr(obj, "__getitem__") in the filter-side
# _getitem helpers, obj.__class__.__name__ in error messages, and obj.items()
# which is only reached under isinstance(obj, Mapping) (iteration of a Mapping).
PROTOCOL_LITERALS = {"__liquid__", "__html__", "__getitem_async__", "__getitem__", "__class__", "items"}
# ... but the Mapping / Sequence mixin methods are protocol only for objects
# that ARE Mappings / Sequences: on any other object `items`, `keys`, `get`,
# `index` ... are ordinary Python attributes (duck typing on them is a leak).
MAPPING_ONLY = {"items", "keys", "values", "get"}
SEQUENCE_ONLY = {"index", "count", "__reversed__"}
# obj[key] on a *class* object makes CPython look up __class_getitem__ on it:
# that is item access by key, performed by the interpreter.
CPYTHON_SUBSCRIPT_READS = {"__class_getitem__"}
# Standard-library modules that implement the hybrid shapes' own methods
# (Enum.__hash__ reads self._name_, dataclass / namedtuple generated code ...):
# reads from those frames are the object reading itself, like a drop's __getitem__.
OWN_CLASS_FILES = ("/enum.py", "/dataclasses.py", "/collections/__init__.py", "/types.py", "<string>")
KNOWN_LITERALS = {
    "force_liquid_default": "default-filter-reads-force_liquid_default",
    "gettext": "translations-provider-rebindable-by-template",
    "ngettext": "translations-provider-rebindable-by-template",
    "pgettext": "translations-provider-rebindable-by-template",
    "npgettext": "translations-provider-rebindable-by-template",
}
# Reads made by CPython / the standard library / markupsafe on behalf of the
# engine (isinstance against an ABC reads instance.__class__; markupsafe.escape
# and Markup.join test __html__; json.dumps and str.join read nothing).
# The collections.abc mixins (Mapping.__eq__, ItemsView, __contains__ ...) call
# the object's own Mapping / Sequence methods: that is the documented protocol.
CPYTHON_READS = {"__class__", "__html__", "items", "keys", "values", "get", "__len__", "__iter__",
                 "__getitem__", "__contains__", "__reversed__", "index", "count"}


def _scan(x: Any, depth: int = 0) -> bool:
    """Does a value handed to a filter contain a sentinel (without looking
    at Python attributes)?"""
    if isinstance(x, str):
        return SENT in x or SENT2 in x or DUNDER_SENT in x
    if depth > 6:
        return False
    if isinstance(x, (list, tuple)):
        return any(_scan(y, depth + 1) for y in x)
    if isinstance(x, dict):
        return any(_scan(k, depth + 1) or _scan(v, depth + 1) for k, v in x.items())
    return False


def _scan_repr(x: Any, depth: int = 0) -> bool:
    if isinstance(x, str):
        return REPR_SENT in x
    if depth > 6:
        return False
    if isinstance(x, (list, tuple)):
        return any(_scan_repr(y, depth + 1) for y in x)
    if isinstance(x, dict):
        return any(_scan_repr(k, depth + 1) or _scan_repr(v, depth + 1) for k, v in x.items())
    return False


def explicit_repr_calls(repo_liquid2: str) -> list[str]:
    """__repr__ of a context object called by an explicit repr in the engine
    source (`!r`, `repr(`, `%r`) or from outside the engine.  What remains is the
    implicit call CPython makes for str(dict) / str(list) (known finding)."""
    out = []
    for filename, lineno in LOG.reprs:
        line = linecache.getline(filename, lineno)
        if not filename.startswith(repo_liquid2) or "!r" in line or "repr(" in line or "%r" in line:
            out.append(f"{filename}:{lineno}: {line.strip()[:90]}")
    return out


def check_logs(repo_liquid2: str, exempt: frozenset[str] = frozenset()) -> list[tuple[str, str]]:
    """(signature, description) for every oracle failure visible in LOG.
    exempt: attribute / method names that are documented protocol for this run
    (the Translations methods of an application-supplied `translations`)."""
    bad: list[tuple[str, str]] = []
    for name, filename, lineno, kind in LOG.attr:
        if name in exempt:
            continue
        if (name in MAPPING_ONLY and kind != "mapping") or (name in SEQUENCE_ONLY and kind != "sequence"):
            bad.append(("mixin-name-read-on-non-collection",
                        f"attribute {name!r} of a {kind} object (not a "
                        f"{'Mapping' if name in MAPPING_ONLY else 'Sequence'}) read at {filename}:{lineno}: "
                        f"{linecache.getline(filename, lineno).strip()[:80]}"))
        elif filename.startswith(repo_liquid2):
            ctx = "".join(linecache.getline(filename, n) for n in range(lineno - 2, lineno + 3))
            here = linecache.getline(filename, lineno)
            literal = (f'"{name}"' in ctx or f"'{name}'" in ctx or re.search(r"\.%s\b" % re.escape(name), ctx))
            where = f"{filename[len(repo_liquid2) - 8:]}:{lineno}"
            if name == "__class__" and "isinstance" in ctx:
                continue
            if name in CPYTHON_SUBSCRIPT_READS and ("[" in here or "getitem(" in here):
                continue
            if not literal:
                bad.append(("attribute-read-by-computed-name",
                            f"attribute {name!r} read at {where}: {here.strip()[:80]}"))
            elif name in KNOWN_LITERALS:
                bad.append((KNOWN_LITERALS[name], f"attribute {name!r} read at {where}: {here.strip()[:80]}"))
            elif name not in PROTOCOL_LITERALS:
                bad.append(("attribute-read-outside-protocol",
                            f"attribute {name!r} read at {where}: {here.strip()[:80]}"))
        elif filename.endswith(OWN_CLASS_FILES):
            continue          # the object's own class machinery (Enum.__hash__, dataclass / namedtuple methods)
        elif "/harness/" in filename and name == "__class__":
            continue          # isinstance(key, str) inside a harness drop's own __getitem__
        elif "/harness/" in filename:
            bad.append(("harness-read", f"harness read {name!r} at {filename}:{lineno}"))
        elif name not in CPYTHON_READS:
            bad.append(("attribute-read-by-library", f"attribute {name!r} read at {filename}:{lineno}"))
    for c in LOG.calls:
        if c.split(":", 1)[-1] in exempt:
            continue
        bad.append(("method-called", f"{c} of a context object was called"))
    explicit = explicit_repr_calls(repo_liquid2)
    for e in explicit:
        bad.append(("repr-called-by-engine", f"repr() of a context object taken at {e}"))
    if LOG.reprs and not explicit:
        bad.append((REPR_SIG, "str() of a dict / list called __repr__ of an object inside it"))
    for fname, args in LOG.filter_args:
        if _scan(args):
            bad.append(("secret-handed-to-filter", f"filter {fname!r} received an attribute value"))
        elif _scan_repr(args):
            bad.append((REPR_SIG if not explicit else "secret-handed-to-filter",
                        f"filter {fname!r} received the repr() of a context object"))
    return bad


_INTERNAL = re.compile(r"<bound method|<built-in|<function |iterator object|frozenset\(|<liquid2\.|<class 'liquid2"
                       r"|<class 'abc|<method |<slot wrapper|<member '|<property object|RenderContext|StringIO")


def internal_leak(o: tuple) -> bool:
    """The repr of an engine-internal Python object (iterator, bound method, class ...) in the output."""
    return o[0] == "ok" and bool(_INTERNAL.search(o[1]))


def leaks(o: tuple) -> bool:
    """An attribute value in the output or in the error message."""
    return any(SENT in str(x) or SENT2 in str(x) or DUNDER_SENT in str(x) for x in o[1:])


def repr_leaks(o: tuple) -> bool:
    return any(REPR_SENT in str(x) for x in o[1:])


# ----------------------------------------------------------------------------
# correspondence with "no prediction" answers


def correspond_tolerant(chk: C.Check, tag: str, items: list[dict[str, Any]], what: str,
                        defs: str = "") -> dict[str, Any]:
    """Like C.correspond, but a case on which the model answers [unmodelled]
    (OutOfFuel: behaviour this model does not transcribe) is counted as
    'no prediction' instead of a disagreement."""
    import os
    tag = f"{tag}_{os.getpid()}"       # two concurrent runs of this check must not share a case directory
    rc = C.run_cases(tag, IMPORTS, defs, [it["case"] for it in items],
                     shard=min(120, max(40, -(-len(items) // C.JOBS))))
    for e in rc["errors"]:
        chk.notes.append("coq case error: " + e[:400])
    bad = rc["bad"]
    outs = C.eval_terms(tag, IMPORTS, defs, [items[i]["model"] for i in bad]) if bad else []
    if bad and "tol" in items[bad[0]]:
        # the same comparison with [unmodelled] answers accepted: false = a real disagreement
        tol = C.eval_terms(tag + "t", IMPORTS, defs, [items[i]["tol"] for i in bad])
        real = [(i, o) for i, o, t in zip(bad, outs, tol) if "true" not in t]
    else:
        real = [(i, o) for i, o in zip(bad, outs) if not re.match(r"\(\d+%nat, OutOfFuel\)", o)]
    unmodelled = len(bad) - len(real)
    for i, o in real[:3]:
        chk.notes.append(f"{what}: model/implementation disagree on case #{i}: "
                         f"{str(items[i]['replay'])[:400]} model={o[:300]}")
    if real and not chk.violations:
        i, o = real[0]
        chk.finding("correspondence:" + what,
                    f"model and implementation disagree ({len(real)} of {rc['n']} cases); no direct property failure found",
                    {"case": items[i]["replay"], "model": o, "broken": f"correspondence {what}",
                     "disagreeing_cases": [j for j, _ in real][:50]}, no_input=True)
    elif rc["errors"] and not chk.violations:
        chk.finding("correspondence:" + what + ":build", "generated case files did not evaluate",
                    {"errors": rc["errors"][:3], "broken": f"correspondence {what} (coqc on generated cases)"},
                    no_input=True)
    cov = chk.coverage
    cov["model_cases"] = cov.get("model_cases", 0) + rc["n"]
    cov["model_disagreements"] = cov.get("model_disagreements", 0) + len(real)
    cov["model_no_prediction"] = cov.get("model_no_prediction", 0) + unmodelled
    cov.setdefault("correspondence_wall_s", {})[what] = round(rc["wall"], 1)
    return {"n": rc["n"], "real": real, "unmodelled": unmodelled, "errors": rc["errors"]}


def model_item2(prog: list, data: list[tuple[str, tuple]], outs: dict[bool, tuple], src: str,
                dref: str | None = None) -> dict[str, Any]:
    """One case for both APIs: render() and render_async() of the same program and data."""
    head = f"let p := {c_stmts(prog)} in let d := {dref or c_data(data)} in "
    e0, e1 = c_outcome(outs[False]), c_outcome(outs[True])
    tolm = lambda a, e: f"match render {a} p d with OutOfFuel => true | r => str_res_eqb r {e} end"  # noqa: E731
    return {"case": head + f"(str_res_eqb (render false p d) {e0} && str_res_eqb (render true p d) {e1})%bool",
            "tol": head + f"(({tolm('false', e0)}) && ({tolm('true', e1)}))%bool",
            "model": head + "(render false p d, render true p d)",
            "replay": {"source": src, "data": data if dref is None else dref,
                       "implementation_sync": outs[False], "implementation_async": outs[True]}}


def model_item(prog: list, data: list[tuple[str, tuple]], async_: bool, outcome: tuple, src: str) -> dict[str, Any]:
    term = f"render {C.cbool(async_)} {c_stmts(prog)} {c_data(data)}"
    return {"case": f"str_res_eqb ({term}) {c_outcome(outcome)}", "model": term,
            "replay": {"source": src, "async": async_, "data": data, "implementation": outcome}}


# ----------------------------------------------------------------------------
# kernel A: ForLoop / TableRow / BlockDrop __getitem__

EXTRA_NAMES = ["__dict__", "__mro__", "__globals__", "__subclasses__", "__weakref__", "__name__",
               "__bases__", "__qualname__", "secret", "super", "x", "Index", "index ", " index",
               "parent", "col2", "rows", "forloop", "tablerowloop", "block", "self", "_keys ", "it.x"]


def _c_fres(fn: Any, parent: Any) -> str:
    try:
        v = fn()
    except KeyError:
        return "(PyExc KeyError)"
    except AttributeError:
        return "(PyExc AttributeError)"
    except Exception as e:  # noqa: BLE001
        return "(PyExc %s)" % (type(e).__name__ if type(e).__name__ in PYKINDS else "OtherPyError")
    if v is parent:
        return "(Ok FParent)"
    if isinstance(v, bool):
        return f"(Ok (FBool {C.cbool(v)}))"
    if isinstance(v, int):
        return f"(Ok (FInt {C.cZ(v)}))"
    if isinstance(v, str):
        return f"(Ok (FStr {cq(v)}))"
    return "(Ok (FOpaque 999))"


PUBLIC_KEYS = {
    "ForLoop": {"name", "length", "index", "index0", "rindex", "rindex0", "first", "last", "parentloop"},
    "TableRow": {"length", "index", "index0", "rindex", "rindex0", "first", "last", "col", "col0",
                 "col_first", "col_last", "row"},
    "BlockDrop": {"super"},
}
DROP_FAILURES: list[str] = []


def kernel_a_items(thorough: bool) -> list[dict[str, Any]]:
    import io

    from liquid2 import Environment, RenderContext
    from liquid2.builtin.tags.extends_tag import BlockDrop
    from liquid2.builtin.tags.for_tag import ForLoop
    from liquid2.shopify.tags.tablerow_tag import TableRow

    names = sorted(set(dir(ForLoop)) | set(ForLoop.__slots__) | set(dir(TableRow)) | set(TableRow.__slots__)
                   | set(dir(BlockDrop)) | set(BlockDrop.__slots__) | set(EXTRA_NAMES))
    items: list[dict[str, Any]] = []

    DROP_FAILURES.clear()

    def add(case: str, model: str, what: str, impl: str) -> None:
        items.append({"case": case, "model": model, "replay": {"what": what, "implementation": impl}})
        # the property itself: an item answer only for a documented key, never an internal object
        m = re.match(r"(ForLoop|TableRow|BlockDrop)\b.*\[('.*'|\".*\")\]$", what)
        if m and impl.startswith("(Ok"):
            key = eval(m.group(2))  # noqa: S307 - a repr() produced above
            if key not in PUBLIC_KEYS[m.group(1)] or "FOpaque" in impl:
                DROP_FAILURES.append(f"{what} answers {impl}")

    parent = object()
    lens = (1, 3) if not thorough else (1, 2, 3, 4, 7)
    for L in lens:
        for i in range(-1, L):
            fl = ForLoop("x-a", iter(range(L)), L, parent)
            for _ in range(i + 1):
                next(fl)
            rec = f"{{| fl_name := {cq('x-a')}; fl_length := {C.cZ(L)}; fl_index := {C.cZ(i)} |}}"
            for n in names:
                exp = _c_fres(lambda fl=fl, n=n: fl[n], parent)
                t = f"forloop_getitem {rec} {cq(n)}"
                add(f"fval_res_eqb ({t}) {exp}", t, f"ForLoop(length={L}, _index={i})[{n!r}]", exp)
                if L == lens[0] and i == 0:
                    t2 = f"match forloop_getattr {rec} {cq(n)} with Some _ => true | None => false end"
                    add(f"Bool.eqb ({t2}) {C.cbool(hasattr(fl, n))}", t2, f"hasattr(ForLoop, {n!r})", str(hasattr(fl, n)))
    for L in (lens if thorough else (3,)):
        for ncols in ((1, 2) if not thorough else (1, 2, 3)):
            tr = TableRow("x-a", iter(range(L)), L, ncols)
            for k in range(0, L + 1):
                if k:
                    next(tr)
                st = (f"{{| tr_name := {cq('x-a')}; tr_length := {C.cZ(L)}; tr_ncols := {C.cZ(ncols)}; "
                      f"tr_index := {C.cZ(tr._index)}; tr_row := {C.cZ(tr._row)}; tr_col := {C.cZ(tr._col)} |}}")
                for n in names:
                    exp = _c_fres(lambda tr=tr, n=n: tr[n], parent)
                    t = f"tablerow_getitem {st} {cq(n)}"
                    add(f"fval_res_eqb ({t}) {exp}", t, f"TableRow(length={L}, ncols={ncols}) after {k} steps [{n!r}]", exp)
                    if L == (lens[0] if thorough else 3) and ncols == 1 and k == 1:
                        t2 = f"match tablerow_getattr {st} {cq(n)} with Some _ => true | None => false end"
                        add(f"Bool.eqb ({t2}) {C.cbool(hasattr(tr, n))}", t2, f"hasattr(TableRow, {n!r})", str(hasattr(tr, n)))
    env = Environment()
    ctx = RenderContext(env.from_string(""))
    bd = BlockDrop(token=None, context=ctx, buffer=io.StringIO(), name="b", parent=None)  # type: ignore[arg-type]
    for n in names:
        def get(n: str = n) -> Any:
            bd[n]
            return _SUPER
        exp = _c_fres(get, None).replace("(Ok (FOpaque 999))", "(Ok FSuper)")
        t = f"blockdrop_getitem {cq(n)}"
        add(f"fval_res_eqb ({t}) {exp}", t, f"BlockDrop[{n!r}]", exp)
        if hasattr(bd, "__getitem_async__"):      # the async twin answers the same keys
            def aget(n: str = n) -> Any:
                loop = asyncio.new_event_loop()
                try:
                    loop.run_until_complete(bd.__getitem_async__(n))
                finally:
                    loop.close()
                return _SUPER
            expa = _c_fres(aget, None).replace("(Ok (FOpaque 999))", "(Ok FSuper)")
            add(f"fval_res_eqb ({t}) {expa}", t, f"BlockDrop.__getitem_async__ [{n!r}]", expa)
        t2 = f"match blockdrop_getattr {cq(n)} with Some _ => true | None => false end"
        add(f"Bool.eqb ({t2}) {C.cbool(hasattr(bd, n))}", t2, f"hasattr(BlockDrop, {n!r})", str(hasattr(bd, n)))
    # through templates: every name as `tablerowloop.<name>` (the for loop goes
    # through the evaluator, see sweep_programs)
    for n in names:
        if not n or not re.fullmatch(r"[ -~]+", n) or "'" in n:
            continue
        src = "{% tablerow x in a cols:2 %}{{ tablerowloop" + p_path("", [("s", n)])[0:] + " }}{% endtablerow %}"
        out = run_impl(src, [("a", ("list", [("int", 1), ("int", 2), ("int", 3)]))], shopify=True)
        cells = re.findall(r'<td class="col\d+">(.*?)</td>', out[1]) if out[0] == "ok" else None
        exp = C.clist(map(cq, cells), "str") if cells is not None else "[lit \"<error>\"]"
        t = (f"List.map (fun t => fval_res_str (tablerow_getitem t {cq(n)})) "
             f"(tablerow_states 3 (tablerow_init {cq('x-a')} 3%Z 2%Z))")
        add(f"list_str_eqb ({t}) {exp}", t, src, str(out[:2]))
    return items


class _Super:
    pass


_SUPER = _Super()


def callable_programs(g: Gen) -> list[tuple[list, list[tuple[str, tuple]]]]:
    """Data whose *items* are callables (an instance with __call__, a class):
    no filter or path may call them."""
    g.nid = 0
    f1, f2, k = g.callable_obj(), g.callable_obj(), g.class_obj()
    m = ("obj", {"id": 90, "kind": "mapping", "shape": "inst", "hg": True, "async": False, "liq": None,
                 "items": [("f", f2), ("g", k)], "aitems": [], "seq": [], "str": "M#90",
                 "attrs": [("secret", ("val", ("str", SENT)))]})
    data = [("fn", ("dict", [("f", f1), ("g", k), ("n", ("int", 1))])), ("m", m),
            ("l", ("list", [("dict", [("f", f1)]), m, ("dict", [("f", f2)])]))]
    J = ("join", [("pos", ("str", ","))])
    P = lambda root, *segs: ("path", root, [("s", x) for x in segs])  # noqa: E731
    progs: list[list] = []
    for root in ("fn", "m", "l"):
        for key in ("f", "g"):
            S = ("pos", ("str", key))
            progs += [
                [("out", (P(root), [("map", [S]), J]))],
                [("out", (P(root), [("map", [("lam", ["x"], ("prim", P("x", key)))]), J]))],
                [("out", (P(root, key), []))],
                [("out", (P(root), [("where", [S]), ("map", [S]), J]))],
                [("out", (P(root), [("find", [S]), ("map", [S]), J]))],
                [("out", (P(root), [("has", [S])]))],
                [("out", (P(root), [("uniq", [S]), ("size", [])]))],
                [("out", (P(root), [("sum", [S])]))],
                [("out", (P(root), [("compact", [S]), ("size", [])]))],
                [("out", (P(root), [("sort", [S]), ("size", [])]))],
                [("if", ("prim", P(root, key)), [("text", "T")], [("text", "E")])],
                [("for", "x", P(root), [("out", (P("x", key), [])), ("out", (("path", "x", [("i", 1)]), [])), ("text", ";")], [])],
                [("out", (P(root, key), [("default", [("pos", ("str", "D"))])]))],
            ]
    return [(p, data) for p in progs]


def duck_data() -> list[tuple[str, tuple]]:
    """Objects of every shape whose METHODS and PROPERTIES are named like
    Mapping / Sequence / str / datetime methods and Liquid's special
    properties, each answering the secret."""
    call = lambda n: (n, ("call", SENT + "c"))  # noqa: E731
    prop = lambda n, v=("str", SENT + "q"): (n, ("prop", v))  # noqa: E731
    sec = ("secret", ("val", ("str", SENT)))
    base = {"shape": "inst", "async": False, "liq": None, "items": [], "aitems": [], "seq": []}
    pd = dict(base, id=1, kind="plain", hg=False, str="P#1",
              attrs=[sec] + [call(n) for n in DUCK_NAMES])
    pp = dict(base, id=2, kind="plain", hg=False, str="P#2",
              attrs=[sec, prop("items", DUCK_ITEMS), prop("keys", DUCK_ITEMS), prop("values", DUCK_ITEMS),
                     prop("size", ("int", 41)), prop("count", ("int", 41))]
              + [prop(n) for n in DUCK_NAMES if n not in ("items", "keys", "values", "size", "count")])
    sd = dict(base, id=3, kind="sequence", hg=True, str="Q#3", seq=[("int", 1), ("str", "q")],
              attrs=[sec, call("items"), prop("keys", DUCK_ITEMS), call("values"), call("get"), prop("first"),
                     call("last"), prop("size", ("int", 99)), call("strftime"), call("isoformat"),
                     call("join"), call("split"), call("format"), ("timestamp", ("val", DUCK_ITEMS))])
    md = dict(base, id=4, kind="mapping", hg=True, str="M#4", items=[("a", ("int", 1))],
              attrs=[sec, call("first"), prop("last"), prop("size", ("int", 99)), call("count"), call("index"),
                     call("strftime"), call("isoformat"), call("join"), call("split"), call("format")])
    cd = dict(base, id=5, kind="plain", shape="class", hg=False, str="<class 'K5'>",
              attrs=[sec, call("items"), call("keys"), call("get"), ("first", ("val", ("str", SENT + "f"))),
                     ("size", ("val", ("int", 41))), call("strftime"), call("join")])
    objs = {k: ("obj", v) for k, v in (("pd", pd), ("pp", pp), ("sd", sd), ("md", md), ("cd", cd))}
    data = list(objs.items())
    data.append(("l", ("list", [objs["pd"], objs["pp"], objs["sd"], objs["md"]])))
    data.append(("d", ("dict", [("k", objs["pd"]), ("n", ("int", 1))])))
    return data


DUCK_VARS = ["pd", "pp", "sd", "md", "cd"]


def duck_programs(thorough: bool = False) -> list[tuple[list, list[tuple[str, tuple]]]]:
    """for-iterables, .first/.last/.size roots, filter inputs and arguments (evaluator fragment)."""
    data = duck_data()
    J = ("join", [("pos", ("str", ","))])
    P = lambda root, *segs: ("path", root, [("s", x) for x in segs])  # noqa: E731
    S = lambda k: ("pos", ("str", k))  # noqa: E731
    progs: list[list] = []
    for v in DUCK_VARS:
        progs += [
            [("for", "x", P(v), [("out", (P("x"), [])), ("text", ",")], [("text", "none")])],
            [("for", "x", P(v, "items"), [("out", (P("x"), [])), ("text", ",")], [("text", "none")])],
            [("out", (P(v, "first"), [])), ("text", "|"), ("out", (P(v, "last"), [])), ("text", "|"),
             ("out", (P(v, "size"), []))],
            [("out", (P(v, "items"), [])), ("text", "|"), ("out", (P(v, "keys", "first"), [])), ("text", "|"),
             ("out", (P(v, "first", "first"), [])), ("text", "|"), ("out", (P(v, "get"), []))],
            [("out", (P(v), [("first", [])])), ("text", "|"), ("out", (P(v), [("last", [])])), ("text", "|"),
             ("out", (P(v), [("size", [])]))],
            [("out", (P(v), [J]))],
            [("out", (P(v), [("default", [S("D")])]))],
            [("out", (("str", ""), [("default", [("pos", P(v))])]))],
            [("out", (P("l"), [("join", [("pos", P(v))])]))],
            [("if", ("prim", P(v, "first")), [("text", "T")], [("text", "E")])],
            [("if", ("cmp", "contains", ("prim", P(v)), ("prim", ("str", "items"))), [("text", "T")], [("text", "E")])],
            [("if", ("cmp", "in", ("prim", ("str", "first")), ("prim", P(v))), [("text", "T")], [("text", "E")])],
            [("if", ("cmp", "eq", ("prim", P(v, "size")), ("prim", ("int", 41))), [("text", "T")], [("text", "E")])],
        ]
        for key in (("items", "first", "size", "get", "strftime") if thorough else ("items", "first", "size")):
            progs += [
                [("out", (P(v), [("map", [S(key)]), J]))],
                [("out", (P(v), [("where", [S(key)]), ("size", [])]))],
                [("out", (P(v), [("sort", [S(key)]), ("size", [])]))],
                [("out", (P(v), [("sum", [S(key)])]))],
                [("out", (P(v), [("uniq", [S(key)]), ("size", [])]))],
                [("out", (P(v), [("compact", [S(key)]), ("size", [])]))],
                [("out", (P(v), [("find", [S(key)])]))],
                [("out", (P(v), [("has", [S(key)])]))],
            ]
    for key in (("items", "first", "size", "keys", "last", "join") if thorough else ("items", "first", "size")):
        progs += [
            [("out", (P("l"), [("map", [("lam", ["x"], ("prim", P("x", key)))]), J]))],
            [("out", (P("l"), [("map", [S(key)]), J]))],
            [("out", (P("l"), [("where", [S(key)]), ("size", [])]))],
            [("out", (P("l"), [("sum", [S(key)])]))],
            [("out", (P("l"), [("find", [("lam", ["x"], ("prim", P("x", key)))]), ("size", [])]))],
            [("for", "x", P("l"), [("out", (P("x", key), [])), ("text", ",")], [])],
            [("for", "x", P("d"), [("out", (("path", "x", [("i", 1), ("s", key)]), [])), ("text", ",")], [])],
        ]
    return [(p, data) for p in progs]


def key_data(g: Gen) -> list[tuple[str, tuple]]:
    """Objects (each with a __repr__ that shows what its __str__ hides) to be used as bracket keys."""
    rp = ("__repr__", ("call", "Obj(secret='%s')" % REPR_SENT))
    sec = ("secret", ("val", ("str", SENT)))
    base = {"shape": "inst", "async": False, "liq": None, "items": [], "aitems": [], "seq": []}
    o = ("obj", dict(base, id=1, kind="plain", hg=False, str="P#1", attrs=[sec, rp]))
    m = ("obj", dict(base, id=2, kind="mapping", hg=True, str="M#2", items=[("a", ("int", 1))], attrs=[sec, rp]))
    q = ("obj", dict(base, id=3, kind="sequence", hg=True, str="Q#3", seq=[("int", 1)], attrs=[sec, rp]))
    lq = ("obj", dict(base, id=4, kind="plain", hg=False, str="P#4", liq=("str", "nokey"), attrs=[sec, rp]))
    return [("o", o), ("m", m), ("q", q), ("lq", lq),
            ("a", ("dict", [("b", ("dict", [("n", ("int", 1))])), ("k", ("str", "v"))])),
            ("l", ("list", [("int", 1), o])), ("t", ("tuple", [o, m]))]


def key_templates() -> list[str]:
    out = []
    for k in ("o", "m", "q", "lq", "l", "t", "a", "o.secret", "l[1]", "t[0]"):
        out += [
            f"{{{{ a[{k}] }}}}|{{{{ l[{k}] }}}}|{{{{ m[{k}] }}}}|{{{{ q[{k}] }}}}|{{{{ o[{k}] }}}}",
            f"{{{{ a[{k}].x | default: 'D' }}}}",
            f"{{{{ a.b[{k}].c }}}}|{{{{ a[{k}][{k}] }}}}|{{{{ nosuch[{k}] }}}}|{{{{ l[{k}].first }}}}",
            f"{{% if a[{k}] %}}T{{% else %}}E{{% endif %}}{{% for x in a[{k}] %}}{{{{ x }}}}{{% else %}}none{{% endfor %}}",
            f"{{% assign z = a[{k}] %}}[{{{{ z }}}}][{{{{ z.y }}}}][{{{{ z | upcase }}}}][{{{{ z | size }}}}]",
            f"{{{{ l | map: x => x[{k}] | join: ',' }}}}|{{{{ a[{k}] | append: 'x' }}}}|{{{{ 'x' | append: a[{k}] }}}}",
            f"{{% echo a[{k}] %}}{{% capture c %}}{{{{ m[{k}] }}}}{{% endcapture %}}{{{{ c }}}}{{% cycle a[{k}], 1 %}}",
            f"{{% case a[{k}] %}}{{% when 1 %}}A{{% else %}}B{{% endcase %}}{{% with w: a[{k}] %}}{{{{ w }}}}{{% endwith %}}",
            f"{{% include 'p', x: a[{k}] %}}|{{% render 'p', x: m[{k}] %}}",
            f"{{{{ a[{k}] == nil }}}}|{{{{ a[{k}] | json }}}}|{{{{ a[{k}] | date: '%Y' }}}}|{{{{ a[{k}] | plus: 1 }}}}",
            f"{{{{ [{k}] }}}}|{{{{ [{k}].x }}}}|{{{{ [{k}] | default: 'D' }}}}|{{% if [{k}] %}}T{{% else %}}E{{% endif %}}",
        ]
    return out


def duck_templates() -> list[tuple[str, bool]]:
    """The same objects through the tags and filters outside the evaluator fragment."""
    out: list[tuple[str, bool]] = []
    for v in DUCK_VARS:
        out += [(t, False) for t in [
            f"{{% for x in {v} limit: {v}.size offset: {v}.first %}}[{{{{ x }}}}]{{% endfor %}}",
            f"{{% for x in {v} reversed %}}[{{{{ x }}}}]{{% endfor %}}|{{% for x in ({v}.first..{v}.size) %}}{{{{ x }}}}{{% endfor %}}",
            f"{{% include 'p' for {v} as x %}}|{{% render 'p' for {v} as x %}}|{{% render 'p' for {v}.items as v %}}",
            f"{{{{ {v} | date: '%Y' }}}}|{{{{ {v}.strftime | date: '%Y' }}}}",
            f"{{{{ 1 | date: {v} }}}}",
            f"{{{{ {v} | date: {v}.strftime }}}}",
            f"{{{{ l | concat: {v} | size }}}}",
            f"{{{{ {v} | concat: l | size }}}}",
            f"{{{{ 'a,b' | split: {v} | join: '-' }}}}|{{{{ {v} | split: ',' | join: '-' }}}}",
            f"{{{{ {v} | reverse | join: ',' }}}}|{{{{ {v} | slice: 0 }}}}|{{{{ {v} | json }}}}",
            f"{{{{ {v} | sort_natural: 'items' | size }}}}|{{{{ {v} | sort_numeric: 'size' | size }}}}",
            f"{{{{ {v} | times: 2 }}}}|{{{{ {v} | plus: {v}.size }}}}|{{{{ {v} | append: {v}.first }}}}",
            f"{{{{ {v} | upcase }}}}|{{{{ {v} | url_encode }}}}|{{{{ {v} | truncate: {v}.size }}}}",
            f"{{% cycle {v}, {v}.first %}}|{{% case {v}.size %}}{{% when 41 %}}A{{% else %}}B{{% endcase %}}",
            f"{{% with q: {v} %}}{{% for x in q %}}{{{{ x }}}}{{% endfor %}}{{{{ q.first }}}}{{% endwith %}}",
            f"{{% capture c %}}{{% for x in {v} %}}{{{{ x }}}}{{% endfor %}}{{% endcapture %}}[{{{{ c }}}}]",
            f"{{% translate x: {v}.first, count: {v}.size %}}a {{{{ x }}}}{{% plural %}}b {{{{ x }}}}{{% endtranslate %}}",
            f"{{{{ {v}.first | default: {v}.items }}}}|{{{{ {v} | where: 'first', {v}.last | size }}}}",
        ]]
        out += [(t, True) for t in [
            f"{{% tablerow x in {v} %}}{{{{ x }}}}{{% endtablerow %}}",
            f"{{% tablerow x in {v}.items cols: {v}.size %}}{{{{ x }}}}{{% endtablerow %}}",
            f"{{% tablerow x in l cols: {v}.first limit: {v}.size %}}{{{{ x.items }}}}{{{{ x.first }}}}{{% endtablerow %}}",
            f"{{{{ {v} | base64_encode }}}}",
        ]]
    return out


def sweep_programs() -> list[tuple[list, list[tuple[str, tuple]]]]:
    """`forloop.<name>` / `forloop.parentloop.<name>` for every name, as evaluator programs."""
    from liquid2.builtin.tags.for_tag import ForLoop
    names = sorted(set(dir(ForLoop)) | set(ForLoop.__slots__) | set(EXTRA_NAMES))
    data = [("a", ("list", [("int", 1), ("int", 2), ("int", 3)])), ("b", ("list", [("str", "p"), ("str", "q")]))]
    out = []
    for n in names:
        if not n or "'" in n:
            continue
        p1 = [("for", "x", ("path", "a", []),
               [("out", (("path", "forloop", [("s", n)]), [])), ("text", ",")], [])]
        p2 = [("for", "x", ("path", "a", []),
               [("for", "y", ("path", "b", []),
                 [("out", (("path", "forloop", [("s", "parentloop"), ("s", n)]), [])), ("text", ","),
                  ("out", (("path", "forloop", []), [("map", [("pos", ("str", n))]),
                                                      ("join", [("pos", ("str", "/"))])])), ("text", ";")], [])], [])]
        out += [(p1, data), (p2, data)]
    return out


# ----------------------------------------------------------------------------
# oracle stream: every tag, every registered filter

def special_objs(g: Gen) -> list[tuple[str, tuple]]:
    """Shapes outside the Coq model: __html__, __len__ / __int__ only (docs 'Foo')."""
    g.nid += 1
    h = ("obj", {"id": g.nid, "kind": "plain", "shape": "inst", "hg": False, "async": False, "liq": None,
                 "html": "<b>H</b>", "items": [], "aitems": [], "seq": [], "str": "H#%d" % g.nid,
                 "attrs": [("secret", ("val", ("str", SENT))), ("meth", ("call", SENT + "m"))]})
    g.nid += 1
    foo = ("obj", {"id": g.nid, "kind": "plain", "shape": "inst", "hg": False, "async": False, "liq": None,
                   "len": 5, "int": 7, "items": [], "aitems": [], "seq": [], "str": "Bar",
                   "attrs": [("secret", ("val", ("str", SENT))), ("prop", ("prop", ("str", SENT + "p")))]})
    hyb = [(n, ("hyb", {"cls": n, "secret": SENT})) for n in g.r.sample(sorted(HYBRID_ATTRS), 3)]
    return [("h", h), ("foo", foo)] + hyb


def tag_templates(v: str, n: str, m: str) -> list[tuple[str, bool]]:
    """(source, needs the shopify environment). v: a variable, n / m: names."""
    vn = f"{v}.{n}" if _IDENT.fullmatch(n) else f"{v}['{n}']"
    vm = f"{v}.{m}" if _IDENT.fullmatch(m) else f"{v}['{m}']"
    T = [
        f"{{{{ {vn} }}}}|{{{{ {v}['{n}'] }}}}|{{{{ {vn}.{m} }}}}|{{{{ {v}[{vm}] }}}}",
        f"{{% echo {vn} %}}|{{% echo {v} | map: '{n}' | join: ',' %}}",
        f"{{% assign q = {vn} %}}{{{{ q }}}}|{{{{ q.{m} }}}}",
        f"{{% capture q %}}{{{{ {vn} }}}}{{% endcapture %}}[{{{{ q }}}}]",
        f"{{% if {vn} %}}T{{% elsif {vm} == '{n}' %}}U{{% else %}}E{{% endif %}}",
        f"{{% unless {vn} contains '{m}' %}}T{{% else %}}E{{% endunless %}}",
        f"{{% case {vn} %}}{{% when '{n}' %}}A{{% when {vm} %}}B{{% else %}}C{{% endcase %}}",
        f"{{% case '{n}' %}}{{% when {vn}, {vm} %}}A{{% else %}}C{{% endcase %}}",
        f"{{% for x in {vn} %}}[{{{{ x }}}}{{{{ x.{m} }}}}{{{{ forloop.{n} }}}}]{{% else %}}none{{% endfor %}}",
        f"{{% for x in {v} limit: {vn} offset: {vm} %}}[{{{{ x.{n} }}}}]{{% endfor %}}",
        f"{{% for x in {v} %}}{{{{ forloop.{n} }}}}{{{{ forloop['{m}'] }}}}{{{{ forloop.parentloop.{n} }}}}{{% endfor %}}",
        f"{{% with a: {vn}, b: {v} %}}{{{{ a }}}}|{{{{ b.{m} }}}}{{% endwith %}}",
        f"{{% cycle {vn}, 'b' %}}{{% cycle {vn}, 'b' %}}|{{% cycle '{n}': {vm}, 2 %}}",
        f"{{% include 'p' %}}|{{% include 'p', x: {vn} %}}|{{% include 'p' with {vn} as v %}}",
        f"{{% render 'p', x: {vn}, v: {v} %}}|{{% render 'p' for {vn} as v %}}|{{% render 'p' with {v} as x %}}",
        f"{{% include '{n}' %}}",
        f"{{% include {vn} %}}",
        f"{{% render '{n}' %}}",
        f"{{% translate x: {vn}, y: {v} %}}Hello {{{{ x }}}} {{{{ y }}}} {{x.{m}}} {{0.{n}}}{{% endtranslate %}}",
        f"{{% translate count: {vn} %}}one {{{{ count }}}}{{% plural %}}many {{{{ count }}}}{{% endtranslate %}}",
        f"{{{{ 'Hello %({n})s %(x)s {{x.{m}}}' | t: x: {v}, {n if _IDENT.fullmatch(n) else 'z'}: {vn} }}}}",
        f"{{% increment {n if _IDENT.fullmatch(n) else 'z'} %}}{{% decrement {n if _IDENT.fullmatch(n) else 'z'} %}}{{{{ {vn} }}}}",
        f"{{% macro f a %}}[{{{{ a.{n} }}}}{{{{ a['{m}'] }}}}]{{% endmacro %}}{{% call f {v} %}}{{% call f a: {vn} %}}",
        f"{{% liquid\nassign q = {vn}\necho q\necho {v} | where: '{n}' | map: '{m}' | join: ','\n%}}",
        f"{{{{ {vn} if {vm} else '{n}' }}}}|{{{{ {v} | map: '{n}' if {vm} else {vn} | join: ',' }}}}",
        f"{{{{ \"a${{{vn}}}b${{{v} | map: '{m}' | join: ','}}\" }}}}",
        f"{{{{ [{vn}, {vm}] | join: ',' }}}}|{{{{ ({vn}..{vm}) | join: ',' }}}}",
        f"{{% block b %}}{{{{ block.{n} }}}}{{{{ block['{m}'] }}}}{{{{ {vn} }}}}{{% endblock %}}",
    ]
    out = [(t, False) for t in T]
    out += [
        (f"{{% tablerow x in {v} cols: {vn} %}}{{{{ x.{m} }}}}{{{{ tablerowloop.{n} }}}}{{% endtablerow %}}", True),
        (f"{{% tablerow x in {vn} limit: {vm} %}}{{{{ tablerowloop['{m}'] }}}}{{{{ x }}}}{{% endtablerow %}}", True),
    ]
    return out


def filter_templates(fname: str, v: str, n: str, m: str) -> list[str]:
    vn = f"{v}.{n}" if _IDENT.fullmatch(n) else f"{v}['{n}']"
    return [
        f"{{{{ {v} | {fname} }}}}",
        f"{{{{ {v} | {fname}: '{n}' }}}}",
        f"{{{{ {v} | {fname}: '{n}', '{m}' }}}}",
        f"{{{{ {v} | {fname}: {vn} }}}}",
        f"{{{{ {vn} | {fname}: {v} }}}}",
        f"{{{{ '{n}' | {fname}: {v}, {vn} }}}}",
        f"{{{{ {v} | {fname}: x => x.{n} }}}}",
        f"{{{{ {v} | {fname}: '{n}' | join: ',' }}}}|{{{{ {v} | {fname}: '{n}' | map: '{m}' | join: ',' }}}}",
    ]


INTERP_CASES = [
    # (source, expected as a function of str(o)): %-interpolation, never str.format
    ("{{ 'Hello %(x)s {x.__class__} {0} {x.secret}' | t: x: o }}",
     lambda so: "Hello %s {x.__class__} {0} {x.secret}" % so),
    ("{{ '{0.__class__.__mro__}' | t }}", lambda so: "{0.__class__.__mro__}"),
    ("{{ '{x.secret}' | gettext: x: o }}", lambda so: "{x.secret}"),
    ("{{ '%(x)s|{x.__dict__}' | gettext: x: o }}", lambda so: so + "|{x.__dict__}"),
    ("{% translate x: o %}A {{ x }} {x.secret} {0.__class__}{% endtranslate %}",
     lambda so: "A " + so + " {x.secret} {0.__class__}"),
    ("{{ 'a' | ngettext: '{x.secret} %(x)s', 2, x: o }}", lambda so: "{x.secret} " + so),
]


def hook_obj(oid: int, attrs: list[tuple[str, tuple]], kind: str = "plain") -> tuple:
    return ("obj", {"id": oid, "kind": kind, "shape": "inst", "hg": kind != "plain", "async": False,
                    "liq": None, "items": [("a", ("int", 1))] if kind == "mapping" else [],
                    "aitems": [], "seq": [], "str": "P#%d" % oid, "attrs": attrs})


def hook_cases() -> list[tuple[list, list[tuple[str, tuple]]]]:
    """Programs x data that exercise the two hook sites of the model (correspondence only)."""
    sec = ("secret", ("val", ("str", SENT)))
    variants = [
        [("force_liquid_default", ("val", ("bool", True))), sec],
        [("force_liquid_default", ("val", ("bool", False))), sec],
        [("force_liquid_default", ("val", ("str", ""))), sec],
        [("force_liquid_default", ("val", ("int", 1))), sec],
        [("force_liquid_default", ("call", "r")), sec],
        [("gettext", ("call", "translated")), sec],
        [("gettext", ("val", ("str", "notcallable"))), sec],
        [("gettext", ("call", "G")), ("force_liquid_default", ("val", ("bool", True)))],
        [sec],
    ]
    dflt = lambda e: (e, [("default", [("pos", ("str", "D"))])])  # noqa: E731
    progs = [
        [("out", dflt(("path", "o", [])))],
        [("out", (("path", "o", []), [("default", [])])), ("text", "|"), ("out", dflt(("path", "l", [("i", 0)])))],
        [("out", (("path", "l", []), [("map", [("lam", ["x"], ("prim", ("path", "x", [])))]),
                                      ("first", []), ("default", [("pos", ("str", "D"))])]))],
        [("assign", "translations", (("path", "o", []), [])), ("out", (("str", "x"), [("t", [])]))],
        [("assign", "translations", (("path", "o", []), [])),
         ("out", (("str", "{0.__class__}"), [("gettext", [("kw", "x", ("path", "o", []))])]))],
        [("for", "translations", ("path", "l", []), [("out", (("str", "m"), [("t", [])])), ("text", ",")], [])],
        [("out", (("path", "l", []), [("map", [("lam", ["translations"], ("prim", ("path", "translations", [("s", "gettext")])))]),
                                      ("join", [])])),
         ("out", (("str", "z"), [("t", [])]))],
        [("if", ("prim", ("path", "o", [])), [("assign", "translations", (("path", "l", [("i", 0)]), []))], []),
         ("out", (("path", "o", []), [("t", [("kw", "count", ("int", 2))])]))],
    ]
    out = []
    oid = 0
    for attrs in variants:
        for kind in ("plain", "mapping"):
            oid += 1
            o = hook_obj(oid, attrs, kind)
            oid += 1
            o2 = hook_obj(oid, [sec], kind)
            data = [("o", o), ("l", ("list", [o, o2]))]
            for p in progs:
                out.append((p, data))
            out.append(([("out", (("str", "g"), [("gettext", [])]))], [("translations", o)] + data))
    return out


WITNESS_DEFAULT = ("{{ o | default: 'D' }}",
                   [("o", hook_obj(1, [("force_liquid_default", ("val", ("bool", True)))]))],
                   [("o", hook_obj(1, []))])
WITNESS_TRANSLATIONS = [
    ("{% assign translations = o %}{{ 'x' | t }}", "gettext"),
    ("{% assign translations = o %}{{ 'x' | gettext }}", "gettext"),
    ("{% assign translations = o %}{{ 'x' | t: plural: 'y', count: 2 }}", "ngettext"),
    ("{% assign translations = o %}{{ 'x' | t: 'ctx' }}", "pgettext"),
    ("{% assign translations = o %}{{ 'x' | t: 'ctx', plural: 'y', count: 2 }}", "npgettext"),
    ("{% assign translations = o %}{% translate %}x{% endtranslate %}", "gettext"),
    ("{% for translations in l %}{{ 'x' | t }}{% endfor %}", "gettext"),
]


# ----------------------------------------------------------------------------
# main

KNOWN_SIGS = set(KNOWN_LITERALS.values()) | {REPR_SIG, CLASSGETITEM_SIG}   # CLSNAME_SIG: fixed in 40355f0
TR_SIG = "translations-provider-rebindable-by-template"
TR_METHODS = frozenset({"gettext", "ngettext", "pgettext", "npgettext"})
MAGIC_NAMES = ["locale", "input_locale", "timezone", "input_timezone", "currency_code", "currency_format",
               "datetime_format", "decimal_format", "decimal_quantization", "unit_length", "unit_format"]
TR_TEMPLATES = ["{{ 'x' | t }}", "{{ 'x' | gettext }}", "{{ 'x' | ngettext: 'y', 2 }}", "{{ 'x' | pgettext: 'c' }}",
                "{{ 'x' | npgettext: 'c', 'y', 2 }}", "{{ 'x' | t: 'c', plural: 'y', count: 2 }}",
                "{% translate %}x{% endtranslate %}", "{% translate count: 2 %}a{% plural %}b{% endtranslate %}",
                "{% render 'tp' %}|{% include 'tp' %}"]
MAGIC_TEMPLATES = ["{{ 1234.5 | currency }}", "{{ 1234.5 | money }}", "{{ '1,5' | decimal }}", "{{ 0 | datetime }}",
                   "{{ 0 | datetime: format: 'short' }}", "{{ 12 | unit: 'length-meter' }}",
                   "{{ 1 | money_with_currency }}", "{{ 1 | decimal: group_separator: false }}",
                   "{{ 0 | date: '%Y' }}", "{{ 'x' | t }}"]


def magic_stream(oracle_run: Any, known_as: list, g: "Gen", r: Any, thorough: bool) -> None:
    """`translations` and the babel filters' variables, bound to context objects."""
    provider = hook_obj(50, [(m, ("call", "TR")) for m in sorted(TR_METHODS)] + [("secret", ("val", ("str", SENT)))])
    thief = hook_obj(51, [(m, ("call", SENT + "c")) for m in sorted(TR_METHODS)] + [("secret", ("val", ("str", SENT)))])
    plain = g.obj(1)
    # (i) supplied by the application as render data: the documented Translations protocol --
    # its four methods may be called, nothing else of it may be touched
    for src in TR_TEMPLATES:
        for prov in (provider, plain):
            oracle_run(src, [("translations", prov), ("o", thief)], exempt=TR_METHODS, differential=prov is plain,
                       names={"translations"})
    # (ii) bound by the template: known finding
    known_as[0] = TR_SIG
    binders = ["{{% assign translations = o %}}{0}", "{{% for translations in l %}}{0}{{% endfor %}}",
               "{{% with translations: o %}}{0}{{% endwith %}}", "{{% capture translations %}}{{{{ o }}}}{{% endcapture %}}{0}",
               "{{% assign translations = l | first %}}{0}", "{{% render 'tp', translations: o %}}",
               "{{% include 'tp', translations: o %}}", "{{% include 'tp' with o as translations %}}"]
    for b in binders:
        for src in (TR_TEMPLATES if thorough else TR_TEMPLATES[::3]):
            oracle_run(b.format(src), [("o", thief), ("l", ("list", [thief]))], differential=False, names={"translations"})
    known_as[0] = None
    # (iii) the babel filters' variables: as render data and bound by the template
    objs = [plain, g.obj(1, "mapping"), g.obj(1, "sequence"), thief]
    for i, name in enumerate(MAGIC_NAMES):
        o = objs[i % len(objs)]
        for src in (MAGIC_TEMPLATES if thorough else MAGIC_TEMPLATES[i % 2::2]):
            oracle_run(src, [(name, o)], names={name})
            oracle_run(f"{{% assign {name} = o %}}" + src, [("o", o)], names={name})


def main(chk: C.Check, build: C.Build) -> None:
    import os

    import liquid2

    warnings.simplefilter("ignore")
    proofs_ok = C.proof_stage(chk, build, NEEDED)
    thorough = chk.tier == "thorough"
    r = C.rng("c05")
    seed_parity = C.seed() % 2
    pkg = os.path.dirname(os.path.abspath(liquid2.__file__)) + os.sep
    g = Gen(r)
    dist = {"ok": 0, "error": 0, "async": 0, "oracle_renders": 0, "attr_reads_logged": 0,
            "getitem_calls_logged": 0, "filter_calls_logged": 0}
    err_classes: dict[str, int] = {}
    nontrivial: set[int] = set()
    evaluations = 0
    samples: list[dict[str, Any]] = []

    known_as: list[str | None] = [None]    # set while templates of a known mechanism are run

    def report(sig: str, what: str, replay: dict[str, Any]) -> None:
        if sig not in KNOWN_SIGS and known_as[0]:
            sig = known_as[0]
        chk.finding(sig if sig in KNOWN_SIGS else "oracle:" + sig, what, replay)

    def oracle_run(src: str, data: list[tuple[str, tuple]], **kw: Any) -> dict[bool, tuple]:
        """Every program is rendered with BOTH render() and render_async()."""
        return {a: oracle_one(src, data, async_=a, **kw) for a in (False, True)}

    def oracle_one(src: str, data: list[tuple[str, tuple]], *, async_: bool = False, shopify: bool = False,
                   auto_escape: bool = False, undef: str = "default", cfg: str = "std", loader: str = "dict",
                   names: set[str] | None = None, differential: bool = True,
                   exempt: frozenset[str] = frozenset()) -> tuple:
        """Render on the implementation and evaluate the direct oracles."""
        nonlocal evaluations
        kw = dict(async_=async_, shopify=shopify, auto_escape=auto_escape, undef=undef, cfg=cfg, loader=loader)
        out = run_impl(src, data, **kw)
        evaluations += 1
        dist["oracle_renders"] += 1
        dist["attr_reads_logged"] += len(LOG.attr)
        dist["getitem_calls_logged"] += len(LOG.getitem)
        dist["filter_calls_logged"] += len(LOG.filter_args)
        touched = bool(LOG.attr or LOG.getitem)
        rp = {"source": src, "data": data, "env": kw, "implementation": out, "how": "harness/c05.py run_impl"}
        if leaks(out):
            report("secret-in-output", f"an attribute value appears in the {'output' if out[0] == 'ok' else 'error message'}: {out[1:]!r:.200}", rp)
        if internal_leak(out):
            report("engine-internal-in-output", f"the output shows a Python-internal object: {out[1]!r:.200}", rp)
        if out[0] == "ok" and CLS_SENT in out[1]:
            report(CLSNAME_SIG if "a variable name must be a string" in out[1] else "class-name-in-output",
                   f"the Python class name of a context object appears in the output: {out[1]!r:.200}", rp)
        if repr_leaks(out):
            # repr(obj) is not string conversion.  Reached through str(dict) it is the known
            # finding; taken explicitly by the engine (hint texts, error messages) it is not.
            report("secret-in-output" if explicit_repr_calls(pkg) or not LOG.reprs else REPR_SIG,
                   f"what __repr__ of a context object returns appears in the "
                   f"{'output' if out[0] == 'ok' else 'error message'}: {out[1:]!r:.200}", rp)
        for sig, what in check_logs(pkg, exempt):
            report(sig, what, rp)
        if names is not None and touched:
            objs: dict[int, dict] = {}
            for _, v in data:
                obj_specs(v, objs)
            attack = {n for o in objs.values() for n, _ in o["attrs"]} | set(DUNDERS)
            if names & attack:
                nontrivial.add(hash((src, repr(data))))
        if differential:
            d2 = [(k, twin(v, r)) for k, v in data]
            out2 = run_impl(src, d2, **kw)
            dist["oracle_renders"] += 1
            if leaks(out2):
                report("secret-in-output", f"an attribute value appears in the output: {out2[1:]!r:.200}",
                       dict(rp, data=d2, implementation=out2))
            if repr_leaks(out2):
                report("secret-in-output" if explicit_repr_calls(pkg) or not LOG.reprs else REPR_SIG,
                       f"what __repr__ of a context object returns appears in the output: {out2[1:]!r:.200}",
                       dict(rp, data=d2, implementation=out2))
            for sig, what in check_logs(pkg, exempt):
                report(sig, what, dict(rp, data=d2, implementation=out2))
            if canon(out) != canon(out2):
                # the twin's class has another name: a class name in the hint differs, same known finding
                report(CLSNAME_SIG if (out[0] == "ok" and CLS_SENT in out[1] and "must be a string" in out[1])
                       else "differential", f"data differing only in Python attributes render differently: {canon(out)!r:.120} vs {canon(out2)!r:.120}",
                       dict(rp, data_twin=d2, implementation_twin=out2))
        return out

    # -- 0. known findings: re-observe the recorded witnesses --------------------
    src, d1, d2 = WITNESS_DEFAULT
    o1, o2 = run_impl(src, d1), run_impl(src, d2)
    if canon(o1) != canon(o2):
        chk.finding("default-filter-reads-force_liquid_default",
                    f"{src} renders {o1[1]!r} for an object whose Python attribute force_liquid_default is true and {o2[1]!r} without it",
                    {"source": src, "data": d1, "data_twin": d2, "implementation": o1, "implementation_twin": o2})
    for src, meth in WITNESS_TRANSLATIONS:
        # since 97793ac only an object with an attribute `gettext` is accepted as a provider
        o = hook_obj(1, [(m, ("call", SENT)) for m in sorted(TR_METHODS)])
        data = [("o", o), ("l", ("list", [o]))]
        out = run_impl(src, data)
        called = list(LOG.calls)
        if leaks(out) or called:
            chk.finding("translations-provider-rebindable-by-template",
                        f"{src} calls the Python method {meth} of the context object bound to the template variable `translations` and renders its result ({out[1]!r:.60})",
                        {"source": src, "data": data, "implementation": out, "calls": called})

    ro = hook_obj(1, [("__repr__", ("call", "Obj(secret='%s')" % REPR_SENT))])
    out = run_impl("{{ d }}", [("d", ("dict", [("k", ro)]))])
    if repr_leaks(out) and not explicit_repr_calls(pkg):
        chk.finding(REPR_SIG, f"{{{{ d }}}} for a dict holding an object prints repr(obj), not str(obj): {out[1]!r:.80}",
                    {"source": "{{ d }}", "data": [("d", ("dict", [("k", ro)]))], "implementation": out})

    # fixed in a1c4a1d: the recorded witness must stay fixed, whatever the configuration
    ko = hook_obj(1, [("secret", ("val", ("str", SENT))), ("auto_escape", ("val", ("bool", True)))])
    for wsrc in ("{{ 'x' | t: context: o }}", "{{ 'x' | escape: environment: o }}", "{{ l | join: ',', environment: o }}",
                 "{{ 'x' | url_encode: environment: o }}", "{{ 1 | date: '%Y', environment: o }}",
                 "{{ l | where: 'a', context: o }}"):
        for cfg in CFGS:
            for a in (False, True):
                out = run_impl(wsrc, [("o", ko), ("l", ("list", [("str", "a")]))], async_=a, cfg=cfg)
                evaluations += 1
                reads = sorted({n for n, *_ in LOG.attr if not n.startswith("__")})
                if reads or out[:2] != ("err", "LiquidTypeError"):
                    report(KWARG_SIG, f"{wsrc} (environment {cfg}, {'async' if a else 'sync'}) hands the template's o to the "
                           f"filter in place of the injected argument: reads {reads}, outcome {out[:2]}",
                           {"source": wsrc, "cfg": cfg, "async": a, "data": [("o", ko)], "implementation": out})

    # fixed in 40355f0: regression check -- no Python class name in the hint, printed or raised
    for undef in ("debug", "strict", "falsy"):
        for a in (False, True):
            out = run_impl("{{ [o] }}|{{ [o].x }}", [("o", ko)], undef=undef, async_=a)
            evaluations += 1
            if any(CLS_SENT in str(x) for x in out[1:]):
                report(CLSNAME_SIG, f"{{{{ [o] }}}} with {undef} undefined shows o.__class__.__name__: {out[1:]!r:.120}",
                       {"source": "{{ [o] }}|{{ [o].x }}", "undefined": undef, "async": a, "data": [("o", ko)],
                        "implementation": out})
    out = run_impl("{{ lst.size }}|{{ reg.admin_token }}", classobj_data())
    if out[0] == "ok" and ("list['size']" in out[1] or LOG.calls):
        chk.finding(CLASSGETITEM_SIG, "item access on a class object calls its __class_getitem__ with the template's "
                    f"segment and prints the result: {{{{ lst.size }}}}|{{{{ reg.admin_token }}}} -> {out[1]!r:.80}",
                    {"source": "{{ lst.size }}|{{ reg.admin_token }}", "implementation": out, "calls": list(LOG.calls)})

    # -- 1. the getattr-by-name drops ------------------------------------------
    ka = kernel_a_items(thorough)
    for f in DROP_FAILURES[:3]:
        report("drop-getitem-answers-undocumented-key", f, {"how": "harness/c05.py kernel_a_items", "what": f})

    # -- 2. evaluator programs: correspondence + oracles ------------------------
    items: list[dict[str, Any]] = []
    defs: list[str] = []
    drefs: dict[int, str] = {}
    fixed = sweep_programs() + callable_programs(g) + duck_programs(thorough)
    hooks = hook_cases()
    for _, data in fixed + hooks:
        # these families share a few data sets: define each once per case file
        if id(data) not in drefs:
            drefs[id(data)] = "D%d" % len(drefs)
            defs.append(f"Definition {drefs[id(data)]} : list (str * val) := {c_data(data)}.")
    for prog, data in fixed:
        src = p_stmts(prog)
        outs = oracle_run(src, data, names=prog_names(prog), differential=False)
        items.append(model_item2(prog, data, outs, src, drefs[id(data)]))
    n_hook = 0
    for prog, data in hooks:
        src = p_stmts(prog)
        outs = {a: run_impl(src, data, async_=a) for a in (False, True)}   # hook sites: correspondence only
        evaluations += 2
        n_hook += 1
        items.append(model_item2(prog, data, outs, src, drefs[id(data)]))
    n_rand = 500 if not thorough else 8000
    for i in range(n_rand):
        data = g.data()
        prog = g.program(data)
        src = p_stmts(prog, br=r.random() < 0.2)
        outs = oracle_run(src, data, names=prog_names(prog))
        for a in (False, True):
            out = outs[a]
            dist["async"] += a
            if out[0] == "ok":
                dist["ok"] += 1
            else:
                dist["error"] += 1
                err_classes[out[1]] = err_classes.get(out[1], 0) + 1
        items.append(model_item2(prog, data, outs, src))
        if outs[False][:2] != outs[True][:2]:
            dist["sync_async_differ"] = dist.get("sync_async_differ", 0) + 1
        if i < 3:
            samples.append({"source": src, "data": data, "outcome_sync": outs[False][:2],
                            "outcome_async": outs[True][:2]})

    # -- 3. every tag and every registered filter (implementation only) ---------
    # object-valued bracket keys with failing lookups, under every Undefined policy: the hint
    # (printed by DebugUndefined, raised by StrictUndefined) may only show str() conversions
    kd = key_data(g)
    for src in key_templates():
        for undef in UNDEFS:
            oracle_run(src, kd, undef=undef, names=set(re.findall(r"[A-Za-z_][A-Za-z0-9_]*", src)))
    # template names held in variables, on every loader: only str(x) may name the partial
    # (a file-system loader builds pathlib.Path(name), which prefers x.__fspath__())
    base = {"shape": "inst", "async": False, "liq": None, "items": [], "aitems": [], "seq": []}
    dund = [("secret", ("val", ("str", SENT))), ("__repr__", ("call", "Obj(secret='%s')" % REPR_SENT))]
    nx = ("obj", dict(base, id=1, kind="plain", hg=False, str="inc_a", attrs=dund))
    nm = ("obj", dict(base, id=2, kind="mapping", hg=True, str="inc_a", items=[("n", nx)], attrs=dund))
    nq = ("obj", dict(base, id=3, kind="sequence", hg=True, str="Q", seq=[nx], attrs=dund))
    ndata = [("x", nx), ("m", nm), ("q", nq), ("l", ("list", [("int", 1), nx])), ("s", ("str", "inc_a"))]
    name_templates = [
        "{% include x %}", "{% include x, a: 1 %}", "{% include x with m as v %}", "{% include x for l as v %}",
        "{% assign n = x %}{% include n %}", "{% include m.n %}", "{% include q[0] %}", "{% include l[1] %}",
        "{% include m %}", "{% include q.first %}", "{% for n in l %}{% include n %}{% endfor %}",
        "{% include s %}|{% include x.secret %}|{% include nosuch %}",
        "{% render 'inc_a', v: x %}|{% render 'inc_a' for l as v %}|{% include 'inc_a' with x as v %}",
        "{% extends 'inc_base' %}{% block b %}{{ x }}{% include x %}{% endblock %}",
        "{% capture n %}{{ x }}{% endcapture %}{% include n %}", "{% with n: x %}{% include n %}{% endwith %}",
    ]
    for src in name_templates:
        for ld in ("dict", "fs", "cfs"):
            oracle_run(src, ndata, loader=ld, names={"include", "__fspath__"})
    # class objects as data: obj[key] on a class is __class_getitem__ (known finding)
    known_as[0] = CLASSGETITEM_SIG
    cd_ = classobj_data()
    for src in classobj_templates():
        oracle_run(src, cd_, names={"size", "admin_token", "__class__"})
    known_as[0] = None
    # named tuples and the other hybrid shapes: every attribute name, dotted / bracketed /
    # variable-keyed, through paths, filters and loops
    hd = hybrid_data()
    for i, src in enumerate(hybrid_templates()):
        if thorough or i % 2 == seed_parity:
            oracle_run(src, hd, undef=UNDEFS[i % 4], names=set(re.findall(r"[A-Za-z_][A-Za-z0-9_]*", src)))
    # keyword arguments named like the parameters the library injects, on every registered filter
    # (fixed in a1c4a1d; run under every environment configuration: a guard that only runs
    # at parse time is skipped by validate_filter_arguments=False)
    fenv = make_env(True, False)
    for rnd in range(1 if not thorough else 2):
        kdata = g.data() + special_objs(g)
        kv = [k for k, _ in kdata]
        for fi, fname in enumerate(sorted(fenv.filters)):
            v, w = r.choice(kv), r.choice(kv)
            shapes = (f"{{{{ {v} | {fname}: context: {w} }}}}", f"{{{{ {v} | {fname}: environment: {w} }}}}",
                      f"{{{{ {v} | {fname}: 'a', context: {w}, environment: {v} }}}}",
                      f"{{{{ 'a' | {fname}: {v}, environment: {w}.secret, context: nil }}}}")
            for si, src in enumerate(shapes):
                for cfg in (CFGS if thorough else (CFGS[(fi + si + seed_parity) % 3], "novalidate")):
                    oracle_run(src, kdata, shopify=True, cfg=cfg, names={"context", "environment"})
    # variable names the library itself looks up: bound to instrumented objects
    magic_stream(oracle_run, known_as, g, r, thorough)
    dd = duck_data()
    for src, shop in duck_templates():
        for ae in (False, True):
            oracle_run(src, dd, shopify=shop, auto_escape=ae, names=set(re.findall(r"[A-Za-z_][A-Za-z0-9_]*", src)))
    env = make_env(True, False)
    fnames = sorted(env.filters)
    n_data = 70 if not thorough else 500
    for i in range(n_data):
        data = g.data() + special_objs(g)
        g.setup(data)
        vs = [k for k, _ in data]
        tt: list[tuple[str, bool]] = []
        v, n, m = r.choice(vs), g.attack(dict(data)[r.choice(vs)]), r.choice(g.attr_pool + g.keys)
        alltags = tag_templates(v, n, m)
        tt += alltags if thorough or i < 2 else r.sample(alltags, 8)
        for fname in (fnames if (thorough and i % 10 == 0) else r.sample(fnames, 10)):
            v, n, m = r.choice(vs), g.attack(dict(data)[r.choice(vs)]), r.choice(g.attr_pool + g.keys)
            fts = filter_templates(fname, v, n, m)
            tt += [(t, True) for t in (fts if thorough else r.sample(fts, 3))]
        for src, shop in tt:
            ae = r.random() < 0.3
            outs = oracle_run(src, data, shopify=shop, auto_escape=ae, undef=r.choice(UNDEFS),
                              cfg=r.choice(CFGS), names=set(re.findall(r"[A-Za-z_][A-Za-z0-9_]*", src)))
            if i == 0 and len(samples) < 6:
                samples.append({"source": src, "data": "(generated)", "outcome_sync": outs[False][:2],
                                "outcome_async": outs[True][:2]})
        # %-interpolation of translated messages
        o = g.obj(1)
        for src, expected in INTERP_CASES:
            outs = oracle_run(src, [("o", o)])
            exp = expected(o[1]["str"]) if o[1]["kind"] != "sequence" else None
            for a in (False, True):
                if exp is not None and outs[a][:2] != ("ok", exp):
                    report("translation-interpolation", f"expected {exp!r}, got {outs[a][:2]!r}",
                           {"source": src, "async": a, "data": [("o", o)], "implementation": outs[a]})

    # -- 5. correspondence ---------------------------------------------------------
    correspond_tolerant(chk, "c05a", ka, "ForLoop/TableRow/BlockDrop.__getitem__")
    correspond_tolerant(chk, "c05r", items, "ObjAccess.render (sync and async)", "\n".join(defs))
    C.proofs_verdict(chk, proofs_ok)

    chk.coverage.update({
        "evaluations": evaluations + len(ka),
        "distinct_nontrivial": len(nontrivial),
        "rule": ("(a) ForLoop/TableRow/BlockDrop.__getitem__ and hasattr for every name in dir() + slots + attack names, in every "
                 "state of loops of length 1..3 (thorough: ..7) x columns 1..3; (b) evaluator programs (output/assign/if/for, paths, "
                 "17 filters with string / lambda key arguments) generated along the data so that most segments are valid steps and "
                 "any step may switch to an attack name (an attribute name of the object it stands on, a dunder, a private name), "
                 "over instances / Mapping drops / Sequence drops / __liquid__ / __getitem_async__ objects, classes, modules and "
                 "callables passed as data, sync and async, compared with Coq `render`; (c) every built-in tag and every registered "
                 "filter (shopify environment, auto_escape on/off) instantiated with such names, implementation only. Oracles on "
                 "(b)+(c): sentinel, differential twin data, attribute-read log, call log, filter-argument log. non-trivial = the "
                 "program names at least one Python-attribute name of an object in its data (or a dunder) AND the render touched "
                 "an instrumented object (an attribute read or __getitem__ call was logged); distinct by (source, data)"),
        "samples": samples,
        "distribution": dict(dist, error_classes=err_classes, kernel_a_cases=len(ka), hook_site_cases=n_hook,
                             evaluator_programs=len(items)),
        "exhaustive": False,
        "tier_proved": "kernel (access primitives + expression/filter evaluator with if/for/assign)",
    })
    chk.assumptions += [
        "context objects are abstracted to (identity, ABC kind, __str__, __liquid__, items, async items, sequence items, attributes); drops that override comparison dunders, __bool__, __contains__ or __iter__ inconsistently with __getitem__/__len__ are outside the model",
        "auto_escape = False in the model (Markup typing is C04's subject); __html__, __len__/__int__-only objects, tablerow, include/render, case, capture, with, cycle, translate, macro and the filters outside the 17 modelled ones are covered by the direct oracles only",
        "guard of c05_attrs_noninterference_partial: no object has an attribute named force_liquid_default or gettext (else known findings default-filter-reads-force_liquid_default, translations-provider-rebindable-by-template)",
        "reads of __class__ by isinstance()/ABC machinery and of __html__ by markupsafe are CPython/library behaviour, whitelisted in the attribute log",
        "a ForLoop stored in a variable and used after the loop advanced (aliasing of a mutable drop), iterating or comparing a ForLoop, %-interpolation of messages containing '%' are answered 'no prediction' by the model",
    ]
