"""Regenerate /verif/MANIFEST.json from the table below (run by hand)."""

from __future__ import annotations

import json
from pathlib import Path

VERIF = Path(__file__).resolve().parent.parent

LEVEL_NOTE = (
    "Trusted: Coq 8.16.1 kernel incl. vm_compute (no native_compute); theorems are "
    "closed under the global context unless evidence lists an axiom; the hand-written "
    "Gallina model is tied to /repo by the executable correspondence run of this check "
    "(for C03 also by a normalising AST diff of every sync/async method pair of the current "
    "source, harness/c03_twins.py); no extraction; CPython and the libraries "
    "liquid2 calls are modelled, not verified. See DESIGN.md §8."
)

CHECKS: dict[str, dict[str, str]] = {
    "C14": {
        "text": "Theorems over all histories and configurations of the caching-loader state machine "
                "(LRU refinement to a recency list, capacity bound, key uniqueness, caller's globals always "
                "bound, equality with the non-caching loader under auto-reload with freshness information, "
                "stale answers only from an earlier load of the same key, namespace isolation); the model is "
                "tied to the real loaders (dict, file system over one and two search paths, choice; direct loads, "
                "loads from include / render, loads with a context argument and own globals) by exhaustive short "
                "and random long histories.",
        "design_ref": "DESIGN.md §7 C14",
        "technique": "Coq proof (invariant + refinement by induction over operation lists) on a hand model; vm_compute correspondence against the real caching loaders",
    },
}

# Only properties whose check has been integrated (patches applied to /repo,
# quick check green on the unchanged tree) are claimed.
_INTEGRATED = (VERIF / "harness" / "manifest.d" / "INTEGRATED").read_text().split()
for _f in sorted((VERIF / "harness" / "manifest.d").glob("*.json")):
    for _k, _v in json.loads(_f.read_text()).items():
        if _k in _INTEGRATED:
            CHECKS[_k] = _v

PENDING_REASON = "check not built yet in this session (planned: see DESIGN.md §13); not claimed until its theorems and correspondence run exist"


def main() -> None:
    props = [json.loads(l)["id"] for l in (VERIF / "properties.jsonl").read_text().splitlines() if l.strip()]
    checks = []
    for pid in props:
        if pid not in CHECKS:
            continue
        c = CHECKS[pid]
        checks.append({
            "property_id": pid,
            "quick_cmd": f"./check {pid} quick",
            "thorough_cmd": f"./check {pid} thorough",
            "evidence_file": f"/verif/evidence/{pid}.json",
            "replay_cmd_template": f"./check {pid} quick --replay {{path}}",
            "engine": "coq-model+correspondence",
            "level_claimed": {"category": "proof", "text": c["text"], "design_ref": c["design_ref"]},
            "level_note": LEVEL_NOTE,
            "technique": c["technique"],
        })
    man = {
        "version": 1,
        "setup_cmd": "./setup.sh",
        "hooks": {
            "guard": "PYTHON_LIQUID2_VERIF",
            "enable": "no instrumentation is compiled into /repo: checks import liquid2 from /repo's working tree (PYTHONPATH=/repo) and observe it from outside; the variable is exported by ./check for completeness",
            "baseline_off_cmd": "cd /repo && /venv/bin/python -m pytest -ra -q -p no:cacheprovider --timeout=900 --continue-on-collection-errors",
            "source_commits": [],
            "add_only": True,
        },
        "engines": [{
            "name": "coq-model+correspondence",
            "path": "/verif/coq, /verif/harness",
            "serves_properties": sorted(CHECKS),
            "kind_free_text": "Coq 8.16.1 development (hand-written Gallina model, theorems, Print Assumptions audit) plus a Python correspondence runner that evaluates the model with vm_compute on the inputs the implementation ran",
        }],
        "checks": checks,
        "not_applicable": [{"property_id": p, "reason": PENDING_REASON} for p in props if p not in CHECKS],
        "notes": "fix: commits in /repo are listed in known_findings.json and known_findings.d/*.json (status fixed); genuine defects kept are listed there with status known and printed as KNOWN-FINDING lines.",
    }
    (VERIF / "MANIFEST.json").write_text(json.dumps(man, indent=1) + "\n")


if __name__ == "__main__":
    main()
