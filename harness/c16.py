"""C16 — strict undefined raises only for missing variables and refines the default.

Tie.  Programs of the fragment modelled by Kernels/Undefined.v are generated
as ASTs, printed to Liquid source, and rendered by the real engine under
`Undefined`, `StrictUndefined`, `FalsyStrictUndefined` and under a *probe*
(`Environment(undefined=<factory that raises at the first failed lookup>)`)
for the base data and for the data with every subset (exhaustive up to 4
references, seeded beyond) of the referenced variables / properties / indexes
deleted.  The model (`render pol fuel prog data`) must give the same output or
the same error class under the same policy.  Below the template level the
model's primitives are compared with the real functions on values that
contain undefined objects of each class: the dunders of the three classes
(`poke`), `to_liquid_string`, `is_truthy`, `_eq`, `_lt`, `_contains`,
`RenderContext.get_item`, and every modelled filter function.

Direct oracle on the real engine (also beyond the modelled fragment: every
registered filter applied to a missing variable and with a missing variable as
each argument, auto-escape on and off):
  (1) a strict / falsy-strict render that succeeds prints what the default
      policy prints;
  (2) the default policy never raises UndefinedError;
  (3) a strict / falsy-strict render raises UndefinedError only if the probe
      run saw a failed lookup; in particular never on the undeleted data of a
      program all of whose references resolve;
  (4) when the probe sees no failed lookup all policies give one outcome;
  (5) adding a variable the program never mentions changes nothing;
  (6) laziness: at every short-circuit site (multi-value `when` after a match, right
      operand of and/or after a deciding left operand, ternary branch not taken,
      elsif conditions and blocks after a true branch, for/else bodies not entered,
      later `when` blocks) deleting a variable that must not be reached changes
      nothing under any policy;
  (7) history: the same template fetched again from a caching loader with other
      per-call globals and rendered without arguments gives what the same call gives
      on fresh objects (raises iff a reached variable is missing NOW);
every template case is rendered through render() and render_async().
"""

from __future__ import annotations

import itertools
import time
import warnings
from typing import Any, Iterable

from . import common as C

IMPORTS = "From LQ Require Import Kernels.Undefined."
NEEDED = ["theories/Base/Str.v", "theories/Kernels/Undefined.v",
          "theories/Proofs/Undefined_proofs.v"]

POLS = ["D", "S", "F", "P"]
CPOL = {"D": "PDefault", "S": "PStrict", "F": "PFalsy", "P": "PProbe"}
FUEL = 40


class ProbeMiss(Exception):
    """Raised by the probe factory at the first failed lookup."""


_TOUCHED: list[str] = []
_TRACKED: list[Any] = []


def _tracked_class() -> Any:
    """Undefined objects that the engine creates WITHOUT a failed lookup (an
    omitted macro argument, forloop.parentloop of an outermost loop,
    block.super without a parent): the probe cannot abort when they are
    created (parentloop is created for every loop), so it records whether
    they are ever touched."""
    if _TRACKED:
        return _TRACKED[0]
    from liquid2 import Undefined

    def t(name: str) -> None:
        _TOUCHED.append(name)

    class TrackedUndefined(Undefined):
        __slots__ = ()

        def __getattribute__(self, name: str) -> Any:
            if name not in ("path", "token", "obj", "hint", "__class__"):
                t(name)
            return object.__getattribute__(self, name)

        def __contains__(self, item: object) -> bool:
            t("__contains__")
            return False

        def __eq__(self, other: object) -> bool:
            t("__eq__")
            return isinstance(other, Undefined) or other is None

        def __getitem__(self, key: Any) -> object:
            t("__getitem__")
            return self

        def __len__(self) -> int:
            t("__len__")
            return 0

        def __iter__(self) -> Any:
            t("__iter__")
            return iter([])

        def __str__(self) -> str:
            t("__str__")
            return ""

        def __int__(self) -> int:
            t("__int__")
            return 0

        def __hash__(self) -> int:
            t("__hash__")
            return hash(object.__getattribute__(self, "path"))

        def __reversed__(self) -> Any:
            t("__reversed__")
            return []

    _TRACKED.append(TrackedUndefined)
    return TrackedUndefined


def _classes() -> dict[str, Any]:
    from liquid2 import FalsyStrictUndefined, StrictUndefined, Undefined

    def probe(name: str, *, token: Any, hint: str | None = None, **kw: Any) -> Any:
        # RenderContext.get passes a hint at each of its three failure sites;
        # parentloop / macro defaults / block.super / context.resolve do not.
        if hint is not None:
            raise ProbeMiss(name)
        return _tracked_class()(name, token=token, hint=hint, **kw)

    return {"D": Undefined, "S": StrictUndefined, "F": FalsyStrictUndefined, "P": probe}


def _probe_outcome(o: tuple[str, str]) -> tuple[str, str]:
    """The probe also counts as 'something missing was used' when an undefined
    created without a failed lookup was touched."""
    if _TOUCHED and o[0] != "miss":
        return ("miss", "Touched:" + _TOUCHED[0])
    return o


_ENVS: dict[tuple[str, bool], Any] = {}


def _env(pol: str, auto_escape: bool = False) -> Any:
    from liquid2 import Environment
    k = (pol, auto_escape)
    if k not in _ENVS:
        _ENVS[k] = Environment(undefined=_classes()[pol], auto_escape=auto_escape)
    return _ENVS[k]


def outcome_of_exception(e: BaseException) -> tuple[str, str]:
    from liquid2.exceptions import LiquidError
    if isinstance(e, ProbeMiss):
        return ("miss", "ProbeMiss")
    if isinstance(e, LiquidError):
        return ("lerr", type(e).__name__)
    return ("pyexc", type(e).__name__)


_LOOP: list[Any] = []


def render_impl_async(src: str, data: dict[str, Any], pol: str, auto_escape: bool = False) -> tuple[str, str]:
    """The same render through Template.render_async (the async twins of every node)."""
    import asyncio
    if not _LOOP:
        _LOOP.append(asyncio.new_event_loop())
    del _TOUCHED[:]
    try:
        t = _env(pol, auto_escape).from_string(src)
        o = ("ok", _LOOP[0].run_until_complete(t.render_async(**data)))
    except Exception as e:  # noqa: BLE001
        o = outcome_of_exception(e)
    return _probe_outcome(o) if pol == "P" else o


def render_impl(src: str, data: dict[str, Any], pol: str, auto_escape: bool = False) -> tuple[str, str]:
    del _TOUCHED[:]
    try:
        o = ("ok", _env(pol, auto_escape).from_string(src).render(**data))
    except Exception as e:  # noqa: BLE001
        o = outcome_of_exception(e)
    return _probe_outcome(o) if pol == "P" else o


# ---------------------------------------------------------------- AST -> source

FILTERS = ["default", "size", "first", "last", "join", "upcase", "downcase", "append", "prepend",
           "escape", "plus", "minus", "times", "where", "map", "sort", "concat", "compact", "uniq",
           "sum", "slice", "split", "reverse"]
CFILTER = {f: "F" + f.capitalize() for f in FILTERS}
CMP_SRC = {"eq": "==", "ne": "!=", "lt": "<", "le": "<=", "gt": ">", "ge": ">=", "contains": "contains", "in": "in"}
CMP_COQ = {"eq": "CEq", "ne": "CNe", "lt": "CLt", "le": "CLe", "gt": "CGt", "ge": "CGe",
           "contains": "CContains", "in": "CIn"}


def is_ident(s: str) -> bool:
    return bool(s) and (s[0].isalpha() or s[0] == "_") and all(c.isalnum() or c in "_-" for c in s) and s.isascii()


def p_lit(v: Any) -> str:
    if v is None:
        return "nil"
    if v is True:
        return "true"
    if v is False:
        return "false"
    if isinstance(v, int):
        return str(v)
    assert isinstance(v, str) and "'" not in v and "\\" not in v and "$" not in v, v
    return "'" + v + "'"


def p_prim(e: tuple) -> str:
    if e[0] == "lit":
        return p_lit(e[1])
    assert e[0] == "path", e
    out = e[1]
    for s in e[2]:
        if s[0] == "n":
            out += "." + s[1] if is_ident(s[1]) else "[" + p_lit(s[1]) + "]"
        elif s[0] == "i":
            out += f"[{s[1]}]"
        else:
            out += "[" + p_prim(s[1]) + "]"
    return out


def p_filters(fs: list[tuple]) -> str:
    out = ""
    for name, pos, kw in fs:
        args = [p_prim(a) for a in pos] + [f"{k}: {p_prim(a)}" for k, a in kw]
        out += " | " + name + (": " + ", ".join(args) if args else "")
    return out


def unchain(e: tuple) -> tuple[tuple, list[tuple]]:
    fs: list[tuple] = []
    while e[0] == "filter":
        fs.insert(0, (e[2], e[3], e[4]))
        e = e[1]
    return e, fs


def p_fexpr(e: tuple) -> str:
    """A filtered expression: primitive or array literal followed by filters."""
    base, fs = unchain(e)
    if base[0] == "arr":
        assert len(base[1]) >= 2
        b = ", ".join(p_prim(x) for x in base[1])
    else:
        b = p_prim(base)
    return b + p_filters(fs)


def p_expr(e: tuple) -> str:
    """Top-level expression of an output / echo / assign."""
    base, tail = unchain(e)
    if base[0] == "tern":
        _, left, cond, alt = base
        s = p_fexpr(left) + " if " + p_cond(cond)
        if alt is not None:
            s += " else " + p_fexpr(alt)
        if tail:
            s += " ||" + p_filters(tail)[2:]
        return s
    return p_fexpr(e)


def p_cond(e: tuple, top: bool = True) -> str:
    k = e[0]
    if k in ("lit", "path"):
        return p_prim(e)
    if k == "not":
        s = "not " + p_cond(e[1], False)
    elif k in ("and", "or"):
        s = p_cond(e[1], False) + f" {k} " + p_cond(e[2], False)
    else:
        assert k == "cmp", e
        s = p_prim(e[2]) + " " + CMP_SRC[e[1]] + " " + p_prim(e[3])
    return s if top else "(" + s + ")"


def p_block(b: list[tuple]) -> str:
    return "".join(p_stmt(s) for s in b)


def p_stmt(s: tuple) -> str:
    k = s[0]
    if k == "text":
        return s[1]
    if k == "out":
        return "{{ " + p_expr(s[1]) + " }}"
    if k == "echo":
        return "{% echo " + p_expr(s[1]) + " %}"
    if k == "assign":
        return "{% assign " + s[1] + " = " + p_expr(s[2]) + " %}"
    if k == "capture":
        return "{% capture " + s[1] + " %}" + p_block(s[2]) + "{% endcapture %}"
    if k in ("if", "unless"):
        out = "{% " + k + " " + p_cond(s[1]) + " %}" + p_block(s[2])
        for ec, eb in (s[4] if len(s) > 4 else []):
            out += "{% elsif " + p_cond(ec) + " %}" + p_block(eb)
        if s[3] is not None:
            out += "{% else %}" + p_block(s[3])
        return out + "{% end" + k + " %}"
    if k == "case":
        out = "{% case " + p_prim(s[1]) + " %}"
        for es, b in s[2]:
            out += "{% when " + ", ".join(p_prim(x) for x in es) + " %}" + p_block(b)
        if s[3] is not None:
            out += "{% else %}" + p_block(s[3])
        return out + "{% endcase %}"
    assert k == "for", s
    _, x, it, limit, body, dflt = s
    if it[0] == "arr":
        assert limit is None
        its = ", ".join(p_prim(e) for e in it[1])
    else:
        its = p_prim(it)
    out = "{% for " + x + " in " + its + (" limit: " + p_prim(limit) if limit is not None else "") + " %}" + p_block(body)
    if dflt is not None:
        out += "{% else %}" + p_block(dflt)
    return out + "{% endfor %}"


# ---------------------------------------------------------------- AST -> Coq

_STRS: dict[str, str] = {}


def cs(s: str) -> str:
    """A Coq string, shared through a definition when it is used often."""
    if s not in _STRS:
        _STRS[s] = f"s{len(_STRS)}"
    return _STRS[s]


def str_defs() -> str:
    return "\n".join(f"Definition {n} : str := {C.cstr(s)}." for s, n in _STRS.items())


def c_val(v: Any) -> str:
    from liquid2.undefined import Undefined
    if v is None:
        return "VNil"
    if v is True:
        return "(VBool true)"
    if v is False:
        return "(VBool false)"
    if isinstance(v, int):
        return f"(VInt {C.cZ(v)})"
    if isinstance(v, str):
        return f"(VStr {cs(v)})"
    if isinstance(v, (list, tuple)):
        return "(VList " + C.clist((c_val(x) for x in v), "val") + ")"
    if isinstance(v, dict):
        return "(VDict " + C.clist((C.cpair(cs(k), c_val(x)) for k, x in v.items()), "(str * val)") + ")"
    if isinstance(v, Undefined):
        return f"(VUndef {cs(object.__getattribute__(v, 'path'))})"
    raise TypeError(type(v))


def c_expr(e: tuple) -> str:
    k = e[0]
    if k == "lit":
        v = e[1]
        if v is None:
            return "(ELit LNil)"
        if isinstance(v, bool):
            return f"(ELit (LBool {C.cbool(v)}))"
        if isinstance(v, int):
            return f"(ELit (LInt {C.cZ(v)}))"
        return f"(ELit (LStr {cs(v)}))"
    if k == "path":
        segs = []
        for s in e[2]:
            if s[0] == "n":
                segs.append(f"SName {cs(s[1])}")
            elif s[0] == "i":
                segs.append(f"SIdx {C.cZ(s[1])}")
            else:
                segs.append(f"SExpr {c_expr(s[1])}")
        return f"(EPath {cs(e[1])} {C.clist(segs, 'seg')})"
    if k == "arr":
        return "(EArray " + C.clist((c_expr(x) for x in e[1]), "expr") + ")"
    if k == "filter":
        return (f"(EFilter {c_expr(e[1])} {CFILTER[e[2]]} " + C.clist((c_expr(a) for a in e[3]), "expr") + " "
                + C.clist((C.cpair(cs(n), c_expr(a)) for n, a in e[4]), "(str * expr)") + ")")
    if k == "tern":
        return f"(ETernary {c_expr(e[1])} {c_expr(e[2])} {C.copt(c_expr(e[3]) if e[3] is not None else None, 'expr')})"
    if k == "not":
        return f"(ENot {c_expr(e[1])})"
    if k in ("and", "or"):
        return f"({'EAnd' if k == 'and' else 'EOr'} {c_expr(e[1])} {c_expr(e[2])})"
    assert k == "cmp"
    return f"(ECmp {CMP_COQ[e[1]]} {c_expr(e[2])} {c_expr(e[3])})"


def c_block(b: list[tuple]) -> str:
    return C.clist((c_stmt(s) for s in b), "stmt")


def c_oblock(b: list[tuple] | None) -> str:
    return C.copt(c_block(b) if b is not None else None, "(list stmt)")


def c_stmt(s: tuple) -> str:
    k = s[0]
    if k == "text":
        return f"(SText {cs(s[1])})"
    if k == "out":
        return f"(SOutput {c_expr(s[1])})"
    if k == "echo":
        return f"(SEcho {c_expr(s[1])})"
    if k == "assign":
        return f"(SAssign {cs(s[1])} {c_expr(s[2])})"
    if k == "capture":
        return f"(SCapture {cs(s[1])} {c_block(s[2])})"
    if k in ("if", "unless"):
        elifs = C.clist((C.cpair(c_expr(ec), c_block(eb)) for ec, eb in (s[4] if len(s) > 4 else [])), "(expr * list stmt)")
        return f"({'SIf' if k == 'if' else 'SUnless'} {c_expr(s[1])} {c_block(s[2])} {elifs} {c_oblock(s[3])})"
    if k == "case":
        whens = C.clist((C.cpair(C.clist((c_expr(x) for x in es), "expr"), c_block(b)) for es, b in s[2]),
                        "(list expr * list stmt)")
        return f"(SCase {c_expr(s[1])} {whens} {c_oblock(s[3])})"
    _, x, it, limit, body, dflt = s
    return (f"(SFor {cs(x)} {c_expr(it)} {C.copt(c_expr(limit) if limit is not None else None, 'expr')} "
            f"{c_block(body)} {c_oblock(dflt)})")


def c_data(d: dict[str, Any]) -> str:
    return C.clist((C.cpair(cs(k), c_val(v)) for k, v in d.items()), "(str * val)")


LCLASS = {"LiquidSyntaxError", "LiquidTypeError", "LiquidNameError", "LiquidValueError", "UndefinedError",
          "ContextDepthError", "LoopIterationLimitError", "OutputStreamLimitError", "LocalNamespaceLimitError",
          "UnknownFilterError", "LiquidIndexError"}
PYKIND = {"IndexError", "ValueError", "KeyError", "TypeError", "OverflowError", "ZeroDivisionError",
          "AssertionError", "AttributeError", "RecursionError"}


def c_outcome(o: tuple[str, str], ok: str | None = None) -> str:
    """The implementation's outcome as a Coq [res] (the Ok payload is [ok])."""
    if o[0] == "ok":
        return f"(Ok {ok if ok is not None else cs(o[1])})"
    if o[0] == "miss":
        return "(LErr LiquidNameError None)"
    if o[0] == "lerr":
        return f"(LErr {o[1] if o[1] in LCLASS else 'OtherLiquidError'} None)"
    # a Python exception the model has no name for can only agree with [outside]
    return f"(PyExc {o[1]})" if o[1] in PYKIND else "(PyExc UnicodeError)"


DEFS_CASE = """
Definition is_outside {A} (r : res A) : bool := match r with PyExc OtherPyError => true | _ => false end.
Definition agree_s (r e : res str) : bool := is_outside r || res_eqb_nopos str_eqb r e.
Definition agree_v (r e : res val) : bool := is_outside r || res_eqb_nopos val_eqb r e.
Definition agree_b (r e : res bool) : bool := is_outside r || res_eqb_nopos Bool.eqb r e.
Definition agree_u (r e : res unit) : bool := res_eqb_nopos (fun _ _ => true) r e.
Definition inside_s (r : res str) : bool := negb (is_outside r).
"""


# ---------------------------------------------------------------- references and deletion

def refs_of_expr(e: tuple | None, acc: list[tuple]) -> None:
    """Collect the deletable references (root, literal segment prefix...)."""
    if e is None:
        return
    k = e[0]
    if k == "path":
        pre: list[Any] = []
        acc.append((e[1],))
        for s in e[2]:
            if s[0] == "e":
                refs_of_expr(s[1], acc)
                break
            pre.append(s[1])
            acc.append((e[1],) + tuple(pre))
    elif k == "arr":
        for x in e[1]:
            refs_of_expr(x, acc)
    elif k == "filter":
        refs_of_expr(e[1], acc)
        for a in e[3]:
            refs_of_expr(a, acc)
        for _, a in e[4]:
            refs_of_expr(a, acc)
    elif k == "tern":
        for x in e[1:]:
            refs_of_expr(x, acc)
    elif k == "not":
        refs_of_expr(e[1], acc)
    elif k in ("and", "or"):
        refs_of_expr(e[1], acc)
        refs_of_expr(e[2], acc)
    elif k == "cmp":
        refs_of_expr(e[2], acc)
        refs_of_expr(e[3], acc)


def refs_of_block(b: list[tuple] | None, acc: list[tuple]) -> None:
    for s in b or []:
        k = s[0]
        if k in ("out", "echo"):
            refs_of_expr(s[1], acc)
        elif k == "assign":
            refs_of_expr(s[2], acc)
        elif k == "capture":
            refs_of_block(s[2], acc)
        elif k in ("if", "unless"):
            refs_of_expr(s[1], acc)
            refs_of_block(s[2], acc)
            for ec, eb in (s[4] if len(s) > 4 else []):
                refs_of_expr(ec, acc)
                refs_of_block(eb, acc)
            refs_of_block(s[3], acc)
        elif k == "case":
            refs_of_expr(s[1], acc)
            for es, bb in s[2]:
                for x in es:
                    refs_of_expr(x, acc)
                refs_of_block(bb, acc)
            refs_of_block(s[3], acc)
        elif k == "for":
            refs_of_expr(s[2], acc)
            refs_of_expr(s[3], acc)
            refs_of_block(s[4], acc)
            refs_of_block(s[5], acc)


def resolves(data: Any, ref: tuple) -> bool:
    cur: Any = data
    for i, seg in enumerate(ref):
        if isinstance(cur, dict) and isinstance(seg, str) and seg in cur:
            cur = cur[seg]
        elif isinstance(cur, list) and isinstance(seg, int) and not isinstance(seg, bool) and -len(cur) <= seg < len(cur):
            cur = cur[seg]
        else:
            return False
    return True


def delete_ref(data: Any, ref: tuple) -> Any:
    """A deep copy of [data] in which [ref] no longer resolves (a dict key is
    removed; a list is truncated just below the index)."""
    def go(cur: Any, i: int) -> Any:
        seg = ref[i]
        last = i == len(ref) - 1
        if isinstance(cur, dict):
            if seg not in cur:
                return cur
            if last:
                return {k: v for k, v in cur.items() if k != seg}
            return {k: (go(v, i + 1) if k == seg else v) for k, v in cur.items()}
        if isinstance(cur, list) and isinstance(seg, int) and -len(cur) <= seg < len(cur):
            j = seg if seg >= 0 else len(cur) + seg
            if last:
                return cur[:j]
            return [go(v, i + 1) if n == j else v for n, v in enumerate(cur)]
        return cur
    return go(data, 0)


def deletions(prog: list[tuple], data: dict[str, Any], r: Any, exhaustive_upto: int, sample: int) -> list[tuple[tuple, dict[str, Any]]]:
    acc: list[tuple] = []
    refs_of_block(prog, acc)
    refs = []
    for x in acc:
        if x not in refs and resolves(data, x):
            refs.append(x)
    subsets: list[tuple] = []
    if len(refs) <= exhaustive_upto:
        for n in range(len(refs) + 1):
            subsets += list(itertools.combinations(refs, n))
    else:
        subsets = [()] + [(x,) for x in refs]
        for _ in range(sample):
            subsets.append(tuple(x for x in refs if r.random() < 0.4))
    out = []
    seen = set()
    for sub in subsets:
        d = data
        for ref in sorted(sub, key=len, reverse=True):
            d = delete_ref(d, ref)
        key = repr(d)
        if key not in seen:
            seen.add(key)
            out.append((sub, d))
    return out


# ---------------------------------------------------------------- generators

BASE = {
    "s": "ab", "t": "b,a", "e": "", "n": 3, "k": 0, "w": "2", "b": True, "f": False, "z": None,
    "l": [3, 1, 2], "ls": ["b", "a", "b"], "el": [],
    "d": {"p": "x", "q": 5, "r": [1, 2], "u": None, "g": False},
    "ld": [{"a": 1, "c": "x"}, {"a": 2, "c": None}, {"a": 1, "c": "y"}],
    "ll": [[1, 2], [3]], "ix": 1, "key": "p",
}

P = lambda root, *segs: ("path", root, [("n", s) if isinstance(s, str) else ("i", s) if isinstance(s, int) else ("e", s) for s in segs])  # noqa: E731
L = lambda v: ("lit", v)  # noqa: E731
M = P("m")                                     # never defined

PATHS_SCALAR = [P("s"), P("n"), P("k"), P("w"), P("b"), P("f"), P("z"), P("e"), P("d", "p"), P("d", "q"), P("d", "u"),
                P("d", "g"), P("l", 0), P("l", -1), P("ls", 1), P("ld", 0, "a"), P("ld", 1, "c"), P("l", P("ix")),
                P("d", P("key")), P("l", "size"), P("l", "first"), P("s", "size"), P("d", "size"), P("ld", "last", "a"),
                P("ll", 1, 0), M, P("m", "x"), P("d", "nope"), P("l", 7), P("s", "p"), P("n", "size"), P("d", P("m")),
                P("l", P("m")), P("ls", "last"), P("t")]
PATHS_SEQ = [P("l"), P("ls"), P("el"), P("ld"), P("ll"), P("d", "r"), P("s"), P("t"), M, P("d", "nope"), P("z"), P("n"), P("d")]
LITS = [L(None), L(True), L(False), L(0), L(1), L(2), L(-1), L(""), L("a"), L("b"), L("x"), L(","), L("2"), L("p"), L("c")]


def gen_prim(r: Any, seq: bool = False, local: list[str] | None = None) -> tuple:
    x = r.random()
    if local and x < 0.2:
        return P(r.choice(local))
    if x < 0.25:
        return r.choice(LITS)
    if seq or x < 0.4:
        return r.choice(PATHS_SEQ)
    return r.choice(PATHS_SCALAR)


ARGS_OF = {
    "default": lambda r, g: r.choice([([], []), ([g()], []), ([g()], [("allow_false", r.choice([L(True), L(False), g()]))]),
                                      ([], [("allow_false", L(True))])]),
    "size": lambda r, g: ([], []), "first": lambda r, g: ([], []), "last": lambda r, g: ([], []),
    "join": lambda r, g: r.choice([([], []), ([g()], [])]),
    "upcase": lambda r, g: ([], []), "downcase": lambda r, g: ([], []), "escape": lambda r, g: ([], []),
    "append": lambda r, g: ([g()], []), "prepend": lambda r, g: ([g()], []),
    "plus": lambda r, g: ([g()], []), "minus": lambda r, g: ([g()], []), "times": lambda r, g: ([g()], []),
    "where": lambda r, g: r.choice([([r.choice([L("a"), L("c"), L(0), g()])], []),
                                    ([r.choice([L("a"), L("c"), L(0), g()]), g()], [])]),
    "map": lambda r, g: ([r.choice([L("a"), L("c"), L("a"), g()])], []),
    "sort": lambda r, g: r.choice([([], []), ([g()], [])]),
    "concat": lambda r, g: ([r.choice([P("l"), P("ls"), P("el"), g()])], []),
    "compact": lambda r, g: r.choice([([], []), ([], []), ([g()], [])]),
    "uniq": lambda r, g: r.choice([([], []), ([], []), ([M], []), ([L(None)], []), ([P("d", "nope")], [])]),
    "sum": lambda r, g: r.choice([([], []), ([r.choice([L("a"), g()])], [])]),
    "slice": lambda r, g: r.choice([([g()], []), ([r.choice([L(0), L(1), L(-1), L(-2)]), r.choice([L(1), L(2), L(5), g()])], [])]),
    "split": lambda r, g: ([r.choice([L(","), L(""), L("b"), g()])], []),
    "reverse": lambda r, g: ([], []),
}
SEQ_FILTERS = ["size", "first", "last", "join", "where", "map", "sort", "concat", "compact", "uniq", "sum", "slice", "reverse"]


SCALAR_FILTERS = ["default", "default", "size", "upcase", "downcase", "append", "prepend", "escape", "plus", "minus",
                  "times", "slice", "split", "first", "last", "join", "sum"]
PLAIN_SEQ_FILTERS = ["size", "first", "last", "join", "sort", "concat", "compact", "uniq", "sum", "slice", "reverse", "default"]
DICT_SEQ_FILTERS = ["where", "where", "map", "map", "size", "first", "last", "compact", "sum", "uniq", "reverse", "concat"]
NUMS = [P("n"), P("k"), P("d", "q"), P("l", 0), P("ld", 0, "a"), L(0), L(1), L(2), P("w"), M, P("d", "nope"), P("l", 7)]


def gen_fexpr(r: Any, local: list[str], allow_arr: bool = True, depth: int = 2) -> tuple:
    g = lambda: gen_prim(r, local=local)  # noqa: E731
    x = r.random()
    kind = "scalar"
    if allow_arr and x < 0.12:
        e: tuple = ("arr", [gen_prim(r, local=local) for _ in range(r.choice([2, 2, 3]))])
        kind = "seq"
    elif r.random() < 0.45:
        e = gen_prim(r, seq=True, local=local)
        kind = "dseq" if e == P("ld") else "seq"
    else:
        e = gen_prim(r, local=local)
    for _ in range(r.choice([0, 1, 1, 1, 2, 2, 3][:depth + 4])):
        y = r.random()
        if y < 0.2:
            f = r.choice(FILTERS)
        elif kind == "dseq":
            f = r.choice(DICT_SEQ_FILTERS)
        elif kind == "seq":
            f = r.choice(PLAIN_SEQ_FILTERS)
        else:
            f = r.choice(SCALAR_FILTERS)
        pos, kw = ARGS_OF[f](r, g)
        e = ("filter", e, f, pos, kw)
        if f in ("where", "compact", "uniq", "reverse", "concat") and kind == "dseq":
            kind = "dseq"
        elif f in ("where", "map", "sort", "concat", "compact", "uniq", "reverse", "split") or (f == "slice" and kind != "scalar"):
            kind = "seq"
        else:
            kind = "scalar"
    return e


def gen_cond(r: Any, local: list[str], depth: int = 2) -> tuple:
    x = r.random()
    g = lambda: gen_prim(r, local=local)  # noqa: E731
    if depth == 0 or x < 0.3:
        return g()
    if x < 0.65:
        op = r.choice(list(CMP_SRC))
        if op in ("contains", "in") and r.random() < 0.7:
            c = gen_prim(r, seq=True, local=local)
            return ("cmp", op, c, g()) if op == "contains" else ("cmp", op, g(), c)
        if op in ("lt", "le", "gt", "ge") and r.random() < 0.8:
            return ("cmp", op, r.choice(NUMS), r.choice(NUMS))
        return ("cmp", op, g(), g())
    if x < 0.75:
        return ("not", gen_cond(r, local, depth - 1))
    return (r.choice(["and", "or"]), gen_cond(r, local, depth - 1), gen_cond(r, local, depth - 1))


def gen_expr(r: Any, local: list[str]) -> tuple:
    if r.random() < 0.18:
        alt = gen_fexpr(r, local, allow_arr=False, depth=1) if r.random() < 0.6 else None   # `x if cond` without else is nil
        e: tuple = ("tern", gen_fexpr(r, local, allow_arr=r.random() < 0.2, depth=1), gen_cond(r, local, 1), alt)
        for _ in range(r.choice([0, 0, 1, 1, 2])):
            f = r.choice(FILTERS)
            pos, kw = ARGS_OF[f](r, lambda: gen_prim(r, local=local))
            e = ("filter", e, f, pos, kw)
        return e
    return gen_fexpr(r, local)


TEXTS = ["T", "[", "]", "-", " ", "x y", "\n"]


def gen_block(r: Any, local: list[str], depth: int, n: int | None = None) -> list[tuple]:
    out = []
    for _ in range(n if n is not None else r.choice([1, 1, 2, 2, 3])):
        x = r.random()
        if x < 0.15:
            out.append(("text", r.choice(TEXTS)))
        elif x < 0.45 or depth == 0:
            out.append((r.choice(["out", "out", "out", "echo"]), gen_expr(r, local)))
        elif x < 0.57:
            v = r.choice(["v", "u2", "s", "l"])
            out.append(("assign", v, gen_expr(r, local)))
            local = local + [v]
        elif x < 0.63:
            v = r.choice(["cp", "v"])
            out.append(("capture", v, gen_block(r, local, depth - 1)))
            local = local + [v]
        elif x < 0.8:
            elifs = [(gen_cond(r, local, 1), gen_block(r, local, depth - 1, n=1)) for _ in range(r.choice([0, 0, 0, 1, 2]))]
            out.append((r.choice(["if", "if", "unless"]), gen_cond(r, local), gen_block(r, local, depth - 1),
                        gen_block(r, local, depth - 1) if r.random() < 0.6 else None, elifs))
        elif x < 0.88:
            whens = [([gen_prim(r, local=local) for _ in range(r.choice([1, 1, 2]))], gen_block(r, local, depth - 1))
                     for _ in range(r.choice([1, 2]))]
            out.append(("case", gen_prim(r, local=local), whens, gen_block(r, local, depth - 1) if r.random() < 0.6 else None))
        else:
            var = r.choice(["i", "j", "s"])
            if r.random() < 0.15:
                it: tuple = ("arr", [gen_prim(r, local=local) for _ in range(2)])
                lim = None
            else:
                it = gen_prim(r, seq=True, local=local)
                lim = r.choice([None, None, L(1), L(2), L(0), P("n"), P("w"), M, P("z"), P("d", "nope")]) if r.random() < 0.4 else None
            out.append(("for", var, it, lim, gen_block(r, local + [var], depth - 1),
                        gen_block(r, local, depth - 1) if r.random() < 0.5 else None))
    return out


def site_programs() -> list[tuple[list[tuple], dict[str, Any]]]:
    """Every modelled use site with a missing / deletable value in it."""
    progs: list[list[tuple]] = []
    left_candidates = [M, P("d", "nope"), P("l", 7), P("x"), P("s"), P("n"), P("l"), P("ld"), P("d"), P("z"), P("f"),
                       ("arr", [P("n"), M]), ("arr", [P("z"), M]), ("arr", [P("f"), M]), ("arr", [M, M]), ("arr", [P("d"), M])]
    arg_candidates = [M, P("x"), L("a"), L(1), L(None), P("l"), P("s"), L(0), L("")]
    arity = {"default": [0, 1], "size": [0], "first": [0], "last": [0], "join": [0, 1], "upcase": [0], "downcase": [0],
             "append": [1], "prepend": [1], "escape": [0], "plus": [1], "minus": [1], "times": [1], "where": [1, 2],
             "map": [1], "sort": [0, 1], "concat": [1], "compact": [0, 1], "uniq": [0, 1], "sum": [0, 1], "slice": [1, 2],
             "split": [1], "reverse": [0]}
    for f in FILTERS:
        for left in left_candidates:
            for n in arity[f]:
                for args in itertools.product(arg_candidates, repeat=n):
                    if n == 2 and not (args[0] in (M, L("a"), L(0)) or args[1] in (M, L(1))):
                        continue
                    e = ("filter", left, f, list(args), [])
                    progs.append([("out", e)])
                    if f in ("where", "map", "sort", "concat", "compact", "uniq", "slice", "split", "reverse", "first", "last"):
                        progs.append([("out", ("filter", e, "size", [], []))])
                        progs.append([("out", ("filter", e, "join", [L("-")], []))])
        progs.append([("out", ("filter", M, "default", [L("d")], [("allow_false", M)]))])
        progs.append([("out", ("filter", P("f"), "default", [L("d")], [("allow_false", M)]))])
    prims = [M, P("x"), P("z"), P("f"), P("b"), P("n"), P("k"), P("s"), P("e"), P("l"), P("el"), P("d"), L(None), L(False),
             L(1), L("a"), P("d", "nope"), P("l", 7)]
    for op in CMP_SRC:
        for a in prims:
            for b in prims:
                if M in (a, b) or P("x") in (a, b) or P("d", "nope") in (a, b) or P("l", 7) in (a, b):
                    progs.append([("if", ("cmp", op, a, b), [("text", "T")], [("text", "F")])])
    for arr in ([P("f"), M], [P("z"), M], [P("n"), M], [M, M], [P("x"), P("x")]):
        for other in ([P("f"), P("z")], [P("z"), P("z")], [P("n"), M], [P("n"), P("z")]):
            progs.append([("assign", "v", ("arr", arr)), ("assign", "u2", ("arr", other)),
                          ("if", ("cmp", "eq", P("v"), P("u2")), [("text", "T")], [("text", "F")])])
        progs.append([("assign", "v", ("arr", arr)), ("if", ("cmp", "contains", P("v"), M), [("text", "T")], [("text", "F")])])
        progs.append([("assign", "v", ("arr", arr)), ("if", ("cmp", "contains", P("v"), L(None)), [("text", "T")], [("text", "F")])])
        progs.append([("assign", "v", ("arr", arr)), ("if", ("cmp", "contains", P("v"), L(False)), [("text", "T")], [("text", "F")])])
        progs.append([("assign", "v", ("arr", arr)), ("for", "i", P("v"), None, [("text", "["), ("out", ("filter", P("i"), "default", [L("d")], [])), ("text", "]")], None)])
    for c in prims:
        progs.append([("if", c, [("text", "T")], [("text", "F")])])
        progs.append([("unless", c, [("text", "T")], [("text", "F")])])
        progs.append([("if", ("not", c), [("text", "T")], [("text", "F")])])
        progs.append([("if", ("and", c, M), [("text", "T")], [("text", "F")])])
        progs.append([("if", ("or", c, M), [("text", "T")], [("text", "F")])])
        progs.append([("out", ("tern", P("s"), c, P("n")))])
        progs.append([("out", ("tern", M, c, P("x")))])
        progs.append([("case", c, [([L(None)], [("text", "N")]), ([M, L(1)], [("text", "M")])], [("text", "E")])])
        progs.append([("case", M, [([c], [("text", "W")])], [("text", "E")])])
        progs.append([("for", "i", c, None, [("out", P("i"))], [("text", "E")])])
        progs.append([("for", "i", P("l"), c, [("out", P("i"))], [("text", "E")])])
        progs.append([("assign", "v", c), ("text", "ok")])
        progs.append([("assign", "v", c), ("out", P("v"))])
        progs.append([("assign", "v", c), ("out", P("v", "a"))])
        progs.append([("assign", "v", c), ("out", P("v", "size"))])
        progs.append([("assign", "v", c), ("out", P("v", "first"))])
        progs.append([("assign", "v", c), ("out", P("v", 0))])
        progs.append([("assign", "v", c), ("out", P("l", P("v")))])
        progs.append([("assign", "v", c), ("out", P("d", P("v")))])
        progs.append([("capture", "cp", [("out", c)]), ("text", "ok")])
        progs.append([("echo", c)])
        progs.append([("if", P("b"), [("assign", "v", c)], None), ("text", "ok")])
        progs.append([("if", P("f"), [("out", c)], None), ("text", "ok")])
    for p in (P("d", P("m")), P("l", P("m")), P("m", P("n")), P("m", "a", "b"), P("d", "nope", "x"), P("l", 7, "x"),
              P("d", "p", "q"), P("ld", 0, "zz"), P("ld", 5, "a"), P("s", 9), P("s", "first"), P("d", "first"), P("d", "last"),
              P("el", "first"), P("el", "last"), P("n", "first"), P("z", "size"), P("l", "0"),
              P("forloop")):
        progs.append([("out", p)])
        progs.append([("out", ("filter", p, "default", [L("D")], []))])
    data = dict(BASE)
    return [(p, data) for p in progs]


DDATA = {"a": 3, "s": "ab", "n": 3, "l": [3, 1, 2], "f": False, "t": True, "z": None, "e": "", "el": [],
         "an": [None], "an2": [1, None], "af": [False], "a0": [0], "ae": [], "ans": ["", None], "x1": 7, "d": {"p": "x"}}


def directed_programs() -> list[tuple[list[tuple], dict[str, Any]]]:
    """Run in full in every tier (never sampled).

    (a) the inline conditional WITHOUT else: a false condition gives nil under
        every policy - in particular the strict policies do not raise when
        every referenced variable exists - also with tail filters applied to
        the result, a filtered / array-literal left side, and through assign,
        echo and capture;
    (b) membership and equality decided by Python == (not the Liquid _eq):
        arrays that hold nil / false / 0 searched for a missing operand, and
        array literals that contain the missing variable searched for nil."""
    progs: list[list[tuple]] = []
    T_, F_ = [("text", "T")], [("text", "F")]
    # (a)
    conds = [P("f"), P("t"), L(False), L(None), P("z"), ("cmp", "eq", P("a"), P("s")), ("not", P("t")),
             ("and", P("t"), P("f")), ("cmp", "contains", P("l"), L(9)), M, P("x1"), ("cmp", "lt", P("a"), L(1))]
    lefts = [P("s"), P("n"), P("l"), ("filter", P("s"), "upcase", [], []), ("arr", [P("n"), P("s")]), P("x1"), M]
    tails: list[list[tuple]] = [[], [("default", [L("d")], [])], [("upcase", [], [])], [("size", [], [])], [("append", [L("x")], [])],
                                [("join", [L("-")], [])], [("first", [], [])], [("plus", [L(1)], [])],
                                [("default", [L("d")], [("allow_false", L(True))])], [("size", [], []), ("plus", [P("n")], [])],
                                [("sort", [], []), ("size", [], [])], [("concat", [P("l")], []), ("size", [], [])]]
    for ci, cond in enumerate(conds):
        for li, left in enumerate(lefts):
            prog: list[tuple] = []
            for ti, tail in enumerate(tails):
                if (ci + li + ti) % 3 and not (li == 0 and ti < 4) and ti:
                    continue                   # a third of the grid, plus the bare form and a full axis
                e: tuple = ("tern", left, cond, None)
                for f, pos, kw in tail:
                    e = ("filter", e, f, pos, kw)
                prog += [("text", "["), ("out", e), ("text", "]")]
            progs.append(prog)
    for cond in conds:
        e = ("tern", P("s"), cond, None)
        progs.append([("assign", "v", e), ("text", "["), ("out", P("v")), ("text", "]"),
                      ("out", ("filter", P("v"), "default", [L("d")], [])), ("if", P("v"), T_, F_),
                      ("if", ("cmp", "eq", P("v"), L(None)), T_, F_)])
        progs.append([("assign", "v", ("filter", e, "size", [], [])), ("out", P("v")),
                      ("echo", e), ("text", "|"), ("echo", ("filter", e, "upcase", [], []))])
        progs.append([("capture", "cp", [("out", e)]), ("out", ("filter", P("cp"), "size", [], [])),
                      ("for", "i", P("l"), None, [("out", ("tern", P("i"), cond, None))], None)])
    # (b)
    arrs = [P("an"), P("an2"), P("af"), P("a0"), P("ae"), P("ans"), P("l"), P("d")]     # d: a mapping (hashes the needle)
    needles = [M, P("x1"), P("z"), L(None), L(False), L(0), P("d", "nope"), P("l")]    # l: an unhashable needle
    for arr in arrs:
        for nd in needles:
            progs.append([("if", ("cmp", "contains", arr, nd), T_, F_), ("if", ("cmp", "in", nd, arr), T_, F_),
                          ("unless", ("cmp", "contains", arr, nd), T_, F_),
                          ("out", ("tern", L("y"), ("cmp", "in", nd, arr), L("n")))])
    lits = [[P("n"), M], [P("z"), M], [P("f"), M], [M, M], [M, P("n")], [P("x1"), P("n")], [P("x1"), P("z")], [M, P("z")]]
    for lit in lits:
        for nd in [L(None), P("z"), L(False), M, P("n"), P("x1"), L(0)]:
            progs.append([("assign", "v", ("arr", lit)), ("if", ("cmp", "contains", P("v"), nd), T_, F_),
                          ("if", ("cmp", "in", nd, P("v")), T_, F_)])
        for other in ([P("n"), P("z")], [P("z"), P("z")], [P("f"), P("z")], [P("n"), M], [L(None), L(None)]):
            progs.append([("assign", "v", ("arr", lit)), ("assign", "w", ("arr", other)),
                          ("if", ("cmp", "eq", P("v"), P("w")), T_, F_), ("if", ("cmp", "ne", P("w"), P("v")), T_, F_)])
        progs.append([("assign", "v", ("arr", lit)), ("out", ("filter", ("filter", P("v"), "uniq", [], []), "size", [], [])),
                      ("out", ("filter", ("filter", P("v"), "compact", [], []), "size", [], []))])
        progs.append([("assign", "v", ("arr", lit)), ("case", L(None), [([P("v", 0), P("v", 1)], T_)], F_)])
    # (c) every modelled filter on a missing left value, and what the result is afterwards
    minimal = {"append": [L("x")], "prepend": [L("x")], "plus": [L(1)], "minus": [L(1)], "times": [L(2)], "where": [L("a")],
               "map": [L("a")], "concat": [P("l")], "slice": [L(0)], "split": [L(",")]}
    for f in FILTERS:
        e = ("filter", M, f, minimal.get(f, []), [])
        progs.append([("text", "["), ("out", ("filter", e, "default", [L("nil-or-empty")], [])), ("text", "]")])
        progs.append([("assign", "v", e), ("if", ("cmp", "eq", P("v"), L(None)), T_, F_), ("out", ("filter", P("v"), "size", [], []))])
    return [(p, DDATA) for p in progs]


def lazy_programs() -> list[tuple[list[tuple], dict[str, Any], list[tuple]]]:
    """Every short-circuit site: (program, data, references that the render must
    never reach).  The deciding value sits at each position; a deletable
    variable sits at every other position."""
    data = {"a": 3, "b": 3, "c": 4, "u1": 4, "u2": 5, "u3": 6, "t": True, "f": False, "l": [1, 2], "el": [], "s": "x"}
    U1, U2, U3, A = P("u1"), P("u2"), P("u3"), P("a")
    T, F = P("t"), P("f")
    out: list[tuple[list[tuple], dict[str, Any], list[tuple]]] = []

    def add(prog: list[tuple], unreached: list[tuple]) -> None:
        out.append((prog, data, [(x[1],) for x in unreached]))

    W = [("text", "W")]
    # case / when with several values: the values after the first match are not evaluated
    for n in (2, 3, 4):
        for pos in range(n):
            vals = [P("b") if i == pos else (U1, U2, U3)[i if i < pos else i - 1] for i in range(n)]
            unreached = [v for i, v in enumerate(vals) if i > pos]
            add([("case", A, [(vals, W)], [("text", "E")])], unreached)
            add([("case", A, [(vals, W), ([P("c")], [("text", "X")])], None)], unreached)
    # a later `when` block / the else block is not rendered
    add([("case", A, [([P("b")], W), ([P("c")], [("out", U1)])], [("out", U2)])], [U1, U2])
    add([("case", A, [([P("c")], [("out", U1)]), ([P("b")], W)], [("out", U2)])], [U1, U2])
    # and / or: the right operand after a deciding left operand
    for cond, unreached in ((("or", T, U1), [U1]), (("and", F, U1), [U1]), (("or", ("or", F, T), U1), [U1]),
                            (("and", ("and", T, F), U1), [U1]), (("or", T, ("and", U1, U2)), [U1, U2]),
                            (("and", F, ("or", U1, U2)), [U1, U2]), (("or", ("cmp", "eq", A, P("b")), ("cmp", "eq", U1, U2)), [U1, U2]),
                            (("and", ("cmp", "lt", P("c"), A), ("cmp", "contains", U1, U2)), [U1, U2]),
                            (("or", ("not", F), U1), [U1])):
        add([("if", cond, W, [("text", "E")])], unreached)
        add([("unless", cond, W, [("text", "E")])], unreached)
        add([("out", ("tern", P("s"), cond, P("c")))], unreached)
    # ternary: the branch not taken (and its filters)
    add([("out", ("tern", A, T, U1))], [U1])
    add([("out", ("tern", U1, F, A))], [U1])
    add([("out", ("tern", A, T, ("filter", U1, "append", [U2], [])))], [U1, U2])
    add([("out", ("tern", ("filter", U1, "append", [U2], []), F, A))], [U1, U2])
    add([("assign", "v", ("tern", A, T, U1)), ("out", P("v"))], [U1])
    # if / elsif / else: conditions and blocks after a true branch
    add([("if", T, W, [("out", U1)], [(U2, [("out", U3)])])], [U1, U2, U3])
    add([("if", F, [("out", U1)], [("out", U2)], [(T, W), (U3, [("text", "X")])])], [U1, U2, U3])
    add([("if", F, [("out", U1)], [("text", "E")], [(F, [("out", U2)])])], [U1, U2])
    add([("unless", F, W, [("out", U1)], [(U2, [("out", U3)])])], [U1, U2, U3])
    add([("unless", T, [("out", U1)], [("out", U2)], [(T, W), (U3, [("text", "X")])])], [U1, U2, U3])
    add([("if", T, W, [("out", U1)])], [U1])
    add([("if", F, [("out", U1)], [("text", "E")])], [U1])
    add([("unless", T, [("out", U1)], None)], [U1])
    # for ... else: the body that is not entered
    add([("for", "i", P("l"), None, [("out", P("i"))], [("out", U1)])], [U1])
    add([("for", "i", P("el"), None, [("out", U1)], [("text", "E")])], [U1])
    add([("for", "i", P("l"), L(0), [("out", U1)], [("text", "E")])], [U1])
    add([("for", "i", ("arr", [A, A]), None, [("out", P("i"))], [("out", U1)])], [U1])
    # a capture / assign that is skipped
    add([("if", F, [("assign", "v", U1), ("capture", "cp", [("out", U2)])], None), ("text", "ok")], [U1, U2])
    return out


# ---------------------------------------------------------------- kernel-level tie

def undef(pol: str, name: str = "u") -> Any:
    return _classes()[pol](name, token=None)


def dunder_cases() -> list[dict[str, Any]]:
    """poke / force_default against the three real classes."""
    ops = {
        "DStr": lambda u: str(u) == "",
        "DBool": lambda u: bool(u) is False,
        "DEq": lambda u: (u == None, u == 1),  # noqa: E711
        "DLen": lambda u: len(u) == 0,
        "DIter": lambda u: list(iter(u)) == [],
        "DContains": lambda u: (1 in u) is False,
        "DGetitem": lambda u: u["k"] is u,
        "DInt": lambda u: int(u) == 0,
        "DHash": lambda u: hash(u),
        "DReversed": lambda u: list(reversed(u)) == [],
        "DLiquid": lambda u: hasattr(u, "__liquid__") and u.__liquid__() is None,
        "DPoke": lambda u: u.poke() is True,
        "DAttr": lambda u: (u.items(), hasattr(u, "__html__")),
    }
    items = []
    for pol in "DSF":
        for d, fn in ops.items():
            try:
                v = fn(undef(pol))
                o: tuple[str, str] = ("ok", "")
                if v is False:
                    o = ("pyexc", "AssertionError")  # the documented value is wrong
            except Exception as e:  # noqa: BLE001
                o = outcome_of_exception(e)
            items.append({"case": f"agree_u (poke {CPOL[pol]} {d}) {c_outcome(o, 'tt')}",
                          "model": f"poke {CPOL[pol]} {d}",
                          "replay": {"kernel": "poke", "policy": pol, "dunder": d, "implementation": o}})
        u = undef(pol)
        force = bool(hasattr(u, "force_liquid_default") and u.force_liquid_default)
        items.append({"case": f"Bool.eqb (force_default {CPOL[pol]}) {C.cbool(force)}",
                      "model": f"force_default {CPOL[pol]}",
                      "replay": {"kernel": "force_default", "policy": pol, "implementation": force}})
    return items


VALUES: list[Any] = [None, True, False, 0, 1, 2, -1, "", "a", "ab", "b,a", "2", " 7 ", "x", "size", [], [1], [3, 1, 2],
                     ["b", "a"], [None], [False], [0], [[1, 2], [3]], [1, "a"], [True, 1, 0, False], [1, True, "a"], ["b", "a", "b"], {}, {"a": 1}, {"a": None, "c": "x"},
                     [{"a": 1}, {"a": 2, "c": 1}, {"c": 3}], {"size": 9, "first": "F"}]


def value_pool(pol: str) -> list[Any]:
    u = undef(pol)
    return VALUES + [u, [u], [1, u], [None, u], [False, u], [u, u], [{"a": 1}, u]]


def fresh(v: Any, pol: str) -> Any:
    """Rebuild [v] with distinct undefined objects (identity is not modelled)."""
    from liquid2.undefined import Undefined
    if isinstance(v, Undefined):
        return undef(pol)
    if isinstance(v, list):
        return [fresh(x, pol) for x in v]
    if isinstance(v, dict):
        return {k: fresh(x, pol) for k, x in v.items()}
    return v


def call_outcome(fn: Any, *args: Any, **kw: Any) -> tuple[str, Any]:
    try:
        return ("ok", fn(*args, **kw))
    except Exception as e:  # noqa: BLE001
        return outcome_of_exception(e)


def embeddable(v: Any) -> bool:
    from liquid2.undefined import Undefined
    if v is None or isinstance(v, (bool, int, str, Undefined)):
        return True
    if isinstance(v, list):
        return all(embeddable(x) for x in v)
    if isinstance(v, dict):
        return all(isinstance(k, str) and embeddable(x) for k, x in v.items())
    return False


def kernel_cases(r: Any, thorough: bool) -> list[dict[str, Any]]:
    from liquid2 import Environment
    from liquid2.builtin.expressions import _contains, _eq, _lt, is_truthy
    from liquid2.exceptions import LiquidTypeError
    from liquid2.stringify import to_liquid_string
    items: list[dict[str, Any]] = []

    def add(kind: str, pol: str, term: str, o: tuple[str, Any], agree: str, args: Any) -> None:
        if o[0] == "ok":
            v = o[1]
            if agree == "agree_v":
                if not embeddable(v):
                    return                      # a value outside the model's universe (tuple, _NULL, float)
                exp = f"(Ok {c_val(v)})"
            elif agree == "agree_b":
                exp = f"(Ok {C.cbool(bool(v))})"
            else:
                exp = f"(Ok {cs(v)})"
        else:
            exp = c_outcome(o)
        items.append({"case": f"{agree} ({term}) {exp}", "model": term,
                      "replay": {"kernel": kind, "policy": pol, "args": repr(args), "implementation": repr(o)}})

    for pol in "DSF":
        cp = CPOL[pol]
        pool = value_pool(pol)
        env = Environment(undefined=_classes()[pol])
        ctx = env.from_string("").render  # noqa: F841
        from liquid2 import RenderContext
        rc = RenderContext(env.from_string(""))
        for v in pool:
            add("to_liquid_string", pol, f"to_liquid_string {cp} {c_val(v)}", call_outcome(to_liquid_string, fresh(v, pol)), "agree_s", v)
            add("is_truthy", pol, f"is_truthy {cp} {c_val(v)}", call_outcome(is_truthy, fresh(v, pol)), "agree_b", v)
        pairs = list(itertools.product(pool, pool))
        if not thorough:
            pairs = [p for p in pairs if r.random() < 0.45]
        for a, b in pairs:
            add("_eq", pol, f"liq_eq {cp} {c_val(a)} {c_val(b)}", call_outcome(_eq, fresh(a, pol), fresh(b, pol)), "agree_b", (a, b))
            add("_lt", pol, f"liq_lt {cp} {c_val(a)} {c_val(b)}", call_outcome(_lt, None, fresh(a, pol), fresh(b, pol)), "agree_b", (a, b))
            add("_contains", pol, f"liq_contains {cp} {c_val(a)} {c_val(b)}", call_outcome(_contains, None, fresh(a, pol), fresh(b, pol)), "agree_b", (a, b))
            add("get_item", pol, f"get_item {cp} {c_val(a)} {c_val(b)}", call_outcome(rc.get_item, fresh(a, pol), fresh(b, pol)), "agree_v", (a, b))
        # filters, called exactly as Filter.evaluate does (TypeError -> LiquidTypeError)
        arity = {"default": [0, 1], "size": [0], "first": [0], "last": [0], "join": [0, 1], "upcase": [0], "downcase": [0],
                 "append": [1], "prepend": [1], "escape": [0], "plus": [1], "minus": [1], "times": [1], "where": [1, 2],
                 "map": [1], "sort": [0, 1], "concat": [1], "compact": [0, 1], "uniq": [0, 1], "sum": [0, 1], "slice": [1, 2],
                 "split": [1], "reverse": [0]}
        argpool = [None, True, False, 0, 1, -1, 2, "", "a", "c", ",", "2", [1], [], {"a": 1}, undef(pol)]
        for f in FILTERS:
            func = rc.filter(f, token=None)

            def call(left: Any, *args: Any, **kw: Any) -> Any:
                try:
                    return func(left, *args, **kw)
                except (TypeError, ValueError, ArithmeticError) as err:  # as Filter.evaluate does
                    raise LiquidTypeError(str(err), token=None) from err
            for left in pool:
                for n in arity[f]:
                    combos = list(itertools.product(argpool, repeat=n))
                    if n == 2:
                        combos = [c for c in combos if r.random() < (0.3 if thorough else 0.06)]
                    elif n == 1 and not thorough:
                        combos = [c for c in combos if r.random() < 0.6]
                    for args in combos:
                        term = (f"wrap_type_error (apply_filter {cp} {CFILTER[f]} {c_val(left)} "
                                + C.clist((c_val(a) for a in args), "val") + " ([]:list (str * val)))")
                        add("filter:" + f, pol, term, call_outcome(call, fresh(left, pol), *[fresh(a, pol) for a in args]), "agree_v", (left, args))
                if f == "default":
                    for af in (True, False, None, 1, undef(pol)):
                        term = (f"wrap_type_error (apply_filter {cp} FDefault {c_val(left)} [VStr {cs('d')}] "
                                f"[({cs('allow_false')}, {c_val(af)})])")
                        add("filter:default", pol, term, call_outcome(call, fresh(left, pol), "d", allow_false=fresh(af, pol)), "agree_v", (left, af))
    return items


# ---------------------------------------------------------------- oracle on arbitrary source

def _unrepr(text: str) -> str:
    return text.replace("FalsyStrictUndefined(", "Undefined(").replace("StrictUndefined(", "Undefined(")


# Known finding repr-of-undefined-in-container, re-observed on every run.
REPR_WITNESS = ("{{ s, missing | date: missing }}", {"s": "ab"})   # date with an undefined format returns str(left)


def oracle(chk: C.Check, src: str, data: dict[str, Any], outs: dict[str, tuple[str, str]], *, complete: bool,
           auto_escape: bool = False, what: str = "") -> str | None:
    """The property evaluated on the implementation's outcomes of one
    (template, data).  [complete]: every reference of the template resolves in
    [data].  Returns the signature of the first failure (also filed)."""
    d, p = outs["D"], outs["P"]
    rep = {"source": src, "data": data, "auto_escape": auto_escape, "outcomes": outs,
           "how": "Environment(undefined=U, auto_escape=...).from_string(source).render(**data) for U in Undefined, StrictUndefined, FalsyStrictUndefined, probe"}
    sig = None
    for k, nm in (("S", "StrictUndefined"), ("F", "FalsyStrictUndefined")):
        o = outs[k]
        if o[0] == "ok" and o != d:
            if d[0] == "ok" and _unrepr(o[1]) == d[1]:
                # known finding: Python str()/repr() of a container prints the class name of an undefined inside it
                sig = "repr-of-undefined-in-container"
                chk.finding(sig, f"{nm} prints {o[1]!r}, the default policy {d[1]!r} (Python repr of a list that contains an undefined): {src!r}", rep)
            else:
                sig = f"refinement:{nm}"
                chk.finding(sig, f"{nm} render succeeded with {o[1]!r} but the default policy gives {d!r}: {src!r}", rep)
        if o == ("lerr", "UndefinedError") and p[0] != "miss":
            sig = f"raises-without-missing:{nm}"
            chk.finding(sig, f"{nm} raised UndefinedError although no lookup failed (probe: {p!r}): {src!r}", rep)
        if o == ("lerr", "UndefinedError") and complete:
            sig = f"raises-on-complete-data:{nm}"
            chk.finding(sig, f"{nm} raised UndefinedError on data in which every reference resolves: {src!r}", rep)
        if p[0] != "miss" and o != p:
            sig = f"policies-differ-without-missing:{nm}"
            chk.finding(sig, f"no lookup failed (probe {p!r}) but {nm} gives {o!r}: {src!r}", rep)
    if d == ("lerr", "UndefinedError"):
        sig = "default-raises-UndefinedError"
        chk.finding(sig, f"the default policy raised UndefinedError: {src!r}", rep)
    if p[0] != "miss" and d != p:
        sig = "policies-differ-without-missing:Undefined"
        chk.finding(sig, f"no lookup failed (probe {p!r}) but the default policy gives {d!r}: {src!r}", rep)
    return sig


def all_filter_sources() -> list[tuple[str, dict[str, Any], bool]]:
    """Beyond the model: every registered filter with a missing variable as
    the left value and as each argument."""
    from liquid2 import Environment
    data = {"s": "a,b c", "n": 3, "l": [3, 1, 2], "d": {"a": 1, "b": None}, "ld": [{"a": 1, "b": 2}, {"a": None}, {"b": 3}],
            "t": True, "f": False, "z": None, "e": "", "el": [], "dt": "2001-02-03"}
    lefts = ["missing", "s", "n", "l", "d", "ld", "z", "dt", "l[9]", "d.zz", "ld[0].q", "s, missing", "z, missing", "f, missing", "missing, missing"]
    argsets = [[], ["missing"], ["'a'"], ["1"], ["missing", "missing"], ["'a'", "missing"], ["missing", "1"], ["1", "missing"],
               ["l"], ["x => x.a"], ["x => x.zz"], ["x => x.a == missing"], ["'%Y'"], ["'a'", "'b'", "missing"]]
    out = []
    for f in sorted(Environment().filters):
        for left in lefts:
            for args in argsets:
                body = left + " | " + f + (": " + ", ".join(args) if args else "")
                miss = any(t in body for t in ("missing", "[9]", "zz", ".q"))
                out.append(("{{ " + body + " }}", data, not miss))
                out.append(("{{ " + body + " | json }}", data, not miss))
    extra = [
        "{% for i in (1..missing) %}{{ i }}{% endfor %}", "{{ (1..missing) | join: ',' }}", "{{ (missing..3) | size }}",
        "{% for i in l offset: missing %}{{ i }}{% endfor %}", "{% for i in l reversed limit: missing %}{{ i }}{% endfor %}",
        "{% for i in l %}{{ forloop.parentloop }}{% endfor %}", "{% for i in l %}{{ forloop.parentloop.index }}|{% endfor %}",
        "{% tablerow i in missing %}{{ i }}{% endtablerow %}", "{% tablerow i in l cols: missing %}{{ i }}{% endtablerow %}",
        "{% cycle missing, 'a' %}", "{% cycle missing: 'a', 'b' %}", "{% increment missing %}", "{% decrement missing %}",
        "{% with a: missing %}{{ a | default: 'd' }}{% endwith %}", "{% with a: missing %}{{ a }}{% endwith %}",
        "{% macro f, a, b: missing %}[{{ a | default: 'A' }}{{ b | default: 'B' }}]{% endmacro %}{% call f %}{% call f, 1 %}{% call f, missing, missing %}",
        "{% macro f, a %}{{ a }}{% endmacro %}{% call f %}", "{% call nosuchmacro, 1 %}",
        "{{ missing == empty }}", "{% if missing == empty %}T{% else %}F{% endif %}", "{% if missing == blank %}T{% else %}F{% endif %}",
        "{% if missing != blank %}T{% else %}F{% endif %}", "{% if missing <> nil %}T{% else %}F{% endif %}",
        "{{ \"a${missing}b\" }}", "{{ \"a${s}b\" }}", "{{ missing | json }}", "{% assign x = missing | json %}",
        "{% liquid\nassign x = missing\necho x | default: 'd'\n%}", "{% raw %}{{ missing }}{% endraw %}", "{% comment %}{{ missing }}{% endcomment %}",
        "{% if missing.size > 0 %}T{% else %}F{% endif %}", "{% if l.size > missing %}T{% else %}F{% endif %}",
        "{% unless missing %}U{% endunless %}", "{% if missing %}A{% elsif missing2 %}B{% else %}C{% endif %}",
        "{% case missing %}{% when missing2 %}A{% else %}B{% endcase %}",
        "{{ l | map: 'zz' | join: ',' }}", "{{ ld | map: 'q' | compact | size }}", "{{ ld | where: 'q' | size }}", "{{ ld | sort: 'q' | size }}",
        "{{ ld | map: x => x.q | size }}", "{{ ld | where: x => x.q | size }}", "{{ ld | reject: x => x.q | size }}", "{{ ld | find: x => x.q }}",
        "{{ ld | sum: x => x.q }}", "{{ ld | uniq: x => x.q | size }}", "{{ ld | compact: x => x.q | size }}", "{{ ld | sort: x => x.q | size }}",
        "{{ ld | has: x => x.q }}", "{{ ld | find_index: x => x.q }}", "{{ ld | sort_natural: x => x.q | size }}", "{{ ld | sort_numeric: x => x.q | size }}",
    ]
    for s in extra:
        miss = "missing" in s or ".q" in s or "zz" in s or "nosuch" in s or "parentloop" in s or "{% call f %}" in s
        out.append((s, data, not miss))
    return out


def partial_sources() -> list[tuple[str, dict[str, str], dict[str, Any], bool]]:
    """include / render arguments."""
    parts = {"p": "[{{ a | default: 'A' }}|{{ b | default: 'B' }}]", "q": "[{{ a }}]", "r": "{% for x in a %}{{ x }}{% else %}E{% endfor %}"}
    data = {"n": 3, "l": [1, 2], "d": {"a": 1}}
    out = []
    for tag in ("include", "render"):
        for name in ("p", "q", "r"):
            for args in ("", ", a: missing", ", a: n, b: missing", " with missing as a", " for missing as a", " with d.zz as a", ", a: l", " for l as a", ", a: n"):
                src = "{% " + tag + " '" + name + "'" + args + " %}"
                out.append((src, parts, data, False))
    out.append(("{% include missing %}", parts, data, False))
    out.append(("{% render 'p', a: missing %}{% include 'q', a: n %}", parts, data, False))
    return out


def render_partial(src: str, parts: dict[str, str], data: dict[str, Any], pol: str) -> tuple[str, str]:
    from liquid2 import DictLoader, Environment
    del _TOUCHED[:]
    try:
        env = Environment(undefined=_classes()[pol], loader=DictLoader(parts))
        o = ("ok", env.from_string(src).render(**data))
    except Exception as e:  # noqa: BLE001
        o = outcome_of_exception(e)
    return _probe_outcome(o) if pol == "P" else o


def render_env(src: str, parts: dict[str, str], data: dict[str, Any], pol: str, asynchronous: bool = False,
               env_globals: dict[str, Any] | None = None, tmpl_globals: dict[str, Any] | None = None) -> tuple[str, str]:
    """Render with the Shopify-compatible environment (adds tablerow) and a DictLoader."""
    from liquid2 import DictLoader
    from liquid2.shopify.environment import Environment as ShopifyEnvironment
    import asyncio
    del _TOUCHED[:]
    try:
        env = ShopifyEnvironment(undefined=_classes()[pol], loader=DictLoader(parts), globals=env_globals)
        t = env.from_string(src, globals=tmpl_globals)
        if asynchronous:
            if not _LOOP:
                _LOOP.append(asyncio.new_event_loop())
            o = ("ok", _LOOP[0].run_until_complete(t.render_async(**data)))
        else:
            o = ("ok", t.render(**data))
    except Exception as e:  # noqa: BLE001
        o = outcome_of_exception(e)
    return _probe_outcome(o) if pol == "P" else o


class IntDrop:
    """docs/variables_and_drops.md: a data object that acts as an array index
    and compares like a number through the __liquid__ hook."""

    def __init__(self, val: int, text: str = "drop"):
        self.val = val
        self.text = text

    def __int__(self) -> int:
        return self.val

    def __str__(self) -> str:
        return self.text

    def __liquid__(self) -> int:
        return self.val


class KeyDrop:
    """A data object that converts itself to a string key."""

    def __init__(self, key: str):
        self.key = key

    def __str__(self) -> str:
        return self.key

    def __liquid__(self) -> str:
        return self.key


class NilDrop:
    """A data object whose Liquid value is nil."""

    def __str__(self) -> str:
        return ""

    def __liquid__(self) -> None:
        return None


def beyond_directed() -> list[tuple]:
    """Outside the modelled fragment, never sampled: (source, partials, data,
    every reference resolves, equivalent source without the boundary | None).

    (a) tags that convert an argument to a number with a 'not a number ->
        default' fallback - translate count, for limit / offset, tablerow
        cols / limit / offset, cycle - and translate message variables, with
        the argument present (several types), nil, and MISSING: a strict
        render either raises or prints exactly what the default policy prints;
    (b) context-aware (lambda) filters across an isolation boundary: the same
        filter name used in the outer template and inside a render / include /
        macro whose arrow function reads a render / call ARGUMENT: with all
        data present no policy raises and the result equals the same body
        evaluated without the boundary;
    (c) values that are PRESENT but nil at every binding site (macro call
        arguments - positional, keyword, with and without parameter defaults -,
        with, render / include arguments, with ... as, for ... as, assign, for
        items, lambda parameters, case / translate / cycle / ternary operands,
        environment and template globals): nil is a value, nothing is missing,
        no policy raises, and every policy prints the stated text (the
        'equivalent source' is then the literal expected output);
    (d) data objects that implement the documented drop hook __liquid__ (an
        int index, a str key, nil): bracketed path segments over lists, hashes
        and strings, nested, through every boundary, and where a number or a
        key is expected (comparisons, case, range bounds, for limit / offset,
        filter arguments, tablerow, cycle, translate count);
    (e) the round-8 reviewer observations: forloop.parentloop of a for inside a
        block inside a for of a base template rendered through extends; macros
        calling macros and themselves; json / uniq: key / compact: key with a
        missing variable behaving as with nil under the default policy."""
    out: list[tuple] = []
    base = {"l": [1, 2, 3, 4], "n": 2, "s": "ab", "who": "W",
            "ld": [{"a": 1, "c": "x"}, {"a": 2, "c": "y"}, {"a": 1, "c": "z"}], "d": {"k": 2}}
    # (a)
    conv = [
        "{% translate count: @X@ %}one{% plural %}many{% endtranslate %}",
        "{% translate count: @X@, w: who %}one {{ w }}{% plural %}many {{ w }} {{ count }}{% endtranslate %}",
        "{% translate w: @X@ %}hello {{ w }}{% endtranslate %}",
        "{% translate w: @X@, count: n %}one {{ w }}{% plural %}many {{ w }}{% endtranslate %}",
        "{% translate context: @X@ %}hello{% endtranslate %}",
        "{{ 'hello %(w)s' | t: w: @X@ }}", "{{ 'one' | ngettext: 'many', @X@ }}", "{{ 'one' | t: plural: 'many', count: @X@ }}",
        "{% for i in l limit: @X@ %}{{ i }}{% else %}E{% endfor %}",
        "{% for i in l offset: @X@ %}{{ i }}{% else %}E{% endfor %}",
        "{% for i in l limit: @X@ offset: n %}{{ i }}{% else %}E{% endfor %}",
        "{% for i in l reversed limit: @X@ %}{{ i }}{% else %}E{% endfor %}",
        "{% for i in (1..@X@) %}{{ i }}{% else %}E{% endfor %}", "{% for i in (@X@..3) %}{{ i }}{% else %}E{% endfor %}",
        "{{ (1..@X@) | size }}",
        "{% tablerow i in l cols: @X@ %}{{ i }}{% endtablerow %}",
        "{% tablerow i in l limit: @X@ %}{{ i }}{% endtablerow %}",
        "{% tablerow i in l offset: @X@ %}{{ i }}{% endtablerow %}",
        "{% tablerow i in l cols: n limit: @X@ %}{{ i }}{% endtablerow %}",
        "{% cycle @X@: 'a', 'b' %}{% cycle @X@: 'a', 'b' %}", "{% cycle @X@, 'b' %}{% cycle @X@, 'b' %}{% cycle @X@, 'b' %}",
        "{% cycle 'a', @X@ %}{% cycle 'a', @X@ %}",
        "{% increment @X@ %}{% increment @X@ %}", "{% decrement @X@ %}",
        "{{ s | truncate: @X@ }}", "{{ s | truncatewords: @X@ }}", "{{ l | slice: @X@ }}", "{{ l | slice: 0, @X@ }}",
        "{{ n | round: @X@ }}", "{{ n | at_least: @X@ }}", "{{ n | at_most: @X@ }}", "{{ n | divided_by: @X@ }}", "{{ n | modulo: @X@ }}",
        "{{ l | json: @X@ }}", "{{ n | decimal: @X@ }}",
    ]
    for src in conv:
        for name, val in (("present", 2), ("present", "2"), ("present", 0), ("present", "abc"), ("present", None),
                          ("present", True), ("present", -1), ("missing", None)):
            data = dict(base)
            if name == "present":
                data["x"] = val
            out.append((src.replace("@X@", "x"), {}, data, name == "present", None))
        out.append((src.replace("@X@", "d.zz"), {}, dict(base), False, None))
    # (b)
    body_p = "{{ items | where: i => i.a == k | map: i => i.c | join: ',' }}|{{ items | find: i => i.a == k | json }}|{{ items | has: i => i.a == k }}"
    body_q = "{{ items | reject: i => i.a == k | size }}|{{ items | find_index: i => i.a == k }}|{{ items | sum: i => i.a }}|{{ items | sort: i => i.c | first | json }}"
    body_r = "{% for it in items %}{{ items | where: i => i.a == it.a | size }}{% endfor %}|{{ items | uniq: i => i.a | size }}|{{ items | compact: i => i.c | size }}"
    parts = {"p": body_p, "q": body_q, "r": body_r,
             "nest": "{{ items | map: i => i.a | join: '' }}{% render 'p', items: items, k: k %}"}
    outer_uses = ["", "{{ ld | where: i => i.a == n | size }}", "{{ ld | map: i => i.c | join: '' }}",
                  "{{ ld | find: i => i.a == n | json }}{{ ld | has: i => i.a == n }}{{ ld | reject: i => i.a == n | size }}"
                  "{{ ld | find_index: i => i.a == n }}{{ ld | sum: i => i.a }}{{ ld | sort: i => i.c | size }}{{ ld | uniq: i => i.a | size }}"
                  "{{ ld | compact: i => i.c | size }}"]
    for name, body in (("p", body_p), ("q", body_q), ("r", body_r)):
        equiv = "{% assign k = 1 %}{% assign items = ld %}" + body
        for outer in outer_uses:
            for call in ("{% render '" + name + "', k: 1, items: ld %}", "{% include '" + name + "', k: 1, items: ld %}",
                         "{% render '" + name + "', items: ld, k: 1 %}",
                         "{% macro f, items, k %}" + body + "{% endmacro %}{% call f, ld, 1 %}",
                         "{% macro f, items, k %}" + body + "{% endmacro %}{% call f, k: 1, items: ld %}",
                         "{% with k: 1, items: ld %}" + body + "{% endwith %}"):
                out.append((outer + call, parts, dict(base), True, outer + equiv))
                out.append((call + outer, parts, dict(base), True, equiv + outer))
                out.append((outer + call + call, parts, dict(base), True, outer + equiv + equiv))
    out.append(("{{ ld | map: i => i.a | join: '' }}{% render 'nest', items: ld, k: 1 %}", parts, dict(base), True,
                "{{ ld | map: i => i.a | join: '' }}{% assign k = 1 %}{% assign items = ld %}{{ items | map: i => i.a | join: '' }}" + body_p))
    out.append(("{% for x in l %}{% render 'p', items: ld, k: x %};{% endfor %}", parts, dict(base), True,
                "{% assign items = ld %}{% for k in l %}" + body_p + ";{% endfor %}"))
    out.append(("{% render 'p' for l as k, items: ld %}", parts, dict(base), True, None))
    out.append(("{% render 'p' with n as k, items: ld %}", parts, dict(base), True, "{% assign k = n %}{% assign items = ld %}" + body_p))
    # an argument that IS missing is seen as missing inside the boundary, under every name
    out.append(("{{ ld | where: i => i.a == n | size }}{% render 'p', items: ld %}", parts, dict(base), False, None))
    out.append(("{{ ld | where: i => i.a == n | size }}{% render 'p', k: 1 %}", parts, dict(base), False, None))
    out.append(("{% assign k = 1 %}{% assign items = ld %}{% render 'p' %}", parts, dict(base), False, None))
    # (c) PRESENT-but-nil values at every binding site: nil is a value, nothing is missing,
    # so no policy raises and every policy prints the expected text
    B = ("[{{ x }}|{{ x | default: 'd' }}|{{ x | size }}|{% if x == nil %}N{% else %}V{% endif %}|{% if x %}T{% else %}F{% endif %}"
         "|{{ x | append: 's' }}|{{ x | plus: 1 }}|{{ x | upcase }}]")
    NIL, ONE, DEF = "[|d|0|N|F|s|1|]", "[1|1|0|V|T|1s|2|1]", "[B|B|1|V|T|Bs|1|B]"
    nparts = {"p": B, "pp": "{% render 'p', x: x %}{% include 'p' %}"}
    nd = {"title": "T", "sub": None, "l": [1, None], "ln": [None], "d": {"k": None}, "ld": [{"a": 1, "c": None}, {"a": None, "c": "y"}]}
    nil_args = ["sub", "nil", "d.k", "l[1]", "ln[0]", "ln.first", "l.last"]
    for a in nil_args:
        for mac, calls in (("{% macro row, t, x %}" + B + "{% endmacro %}", ["{% call row, title, @A@ %}", "{% call row, t: title, x: @A@ %}",
                                                                              "{% call row, x: @A@ %}", "{% call row, @A@, @A@ %}"]),
                           ("{% macro row, t, x: 'B' %}" + B + "{% endmacro %}", ["{% call row, title, @A@ %}", "{% call row, t: title, x: @A@ %}",
                                                                                   "{% call row, x: @A@, t: @A@ %}"]),
                           ("{% macro row, x: 'B', t: 'C' %}" + B + "{% endmacro %}", ["{% call row, @A@ %}", "{% call row, @A@, @A@ %}", "{% call row, x: @A@ %}"]),
                           ("{% macro row, x %}" + B + "{% endmacro %}", ["{% call row, @A@ %}", "{% call row, x: @A@ %}"])):
            for c in calls:
                out.append((mac + c.replace("@A@", a), nparts, dict(nd), True, NIL))
                out.append((mac + c.replace("@A@", a) + c.replace("@A@", a), nparts, dict(nd), True, NIL + NIL))
        for form in ("{% with x: @A@ %}" + B + "{% endwith %}", "{% with t: title, x: @A@ %}" + B + "{% endwith %}",
                     "{% render 'p', x: @A@ %}", "{% render 'p', t: title, x: @A@ %}", "{% include 'p', x: @A@ %}",
                     "{% include 'p' with @A@ as x %}", "{% render 'p' with @A@ as x %}", "{% render 'p' with @A@ as x, t: title %}",
                     "{% assign x = @A@ %}" + B, "{% assign y = @A@ %}{% assign x = y %}" + B, "{% include 'pp', x: @A@ %}"):
            exp = NIL + NIL if "'pp'" in form else NIL
            out.append((form.replace("@A@", a), nparts, dict(nd), True, exp))
    out.append(("{% macro row, t, x: 'B' %}" + B + "{% endmacro %}{% call row, title %}{% call row, title, sub %}", nparts, dict(nd), True, DEF + NIL))
    for form, exp in (("{% render 'p' for ln as x %}", NIL), ("{% include 'p' for ln as x %}", NIL), ("{% render 'p' for l as x %}", ONE + NIL),
                      ("{% include 'p' for l as x %}", ONE + NIL), ("{% for x in ln %}" + B + "{% endfor %}", NIL),
                      ("{% for x in l %}" + B + "{% endfor %}", ONE + NIL), ("{% for x in sub, 1 %}" + B + "{% endfor %}", NIL + ONE),
                      ("{% for x in l reversed %}" + B + "{% endfor %}", NIL + ONE), ("{% for x in l offset: 1 %}" + B + "{% endfor %}", NIL),
                      ("{% for y in l %}{% assign x = y %}{% endfor %}" + B, NIL),
                      ("{% tablerow x in ln %}" + B + "{% endtablerow %}", None),
                      ("{{ l | map: x => x | join: ',' }}|{{ l | where: x => x == nil | size }}|{{ l | compact: x => x | size }}|"
                       "{{ l | find_index: x => x == nil }}|{{ l | reject: x => x | size }}|{{ l | find: x => x == nil | default: 'd' }}|"
                       "{{ l | has: x => x == nil }}|{{ l | uniq: x => x | size }}|{{ l | sum: x => x }}", "1,|1|1|1|1|d|true|2|1"),
                      ("{{ ld | map: i => i.c | join: ',' }}|{{ ld | where: i => i.a == nil | size }}|{{ ld | map: 'c' | compact | size }}|"
                       "{{ ld | where: 'c' | size }}|{{ ld | where: 'a', nil | size }}|{{ ld | sum: 'a' }}|{{ ld | compact: 'a' | size }}", None),
                      ("{% case sub %}{% when nil %}N{% else %}E{% endcase %}{% case 1 %}{% when sub, 1 %}W{% endcase %}", "NW"),
                      ("{% translate w: sub %}hi {{ w }}|{% endtranslate %}{% echo sub %}{{ sub if true }}{{ 1 if sub else 2 }}"
                       "{% cycle sub, 'a' %}{% cycle sub, 'a' %}", "hi |2a"),
                      ("{% if sub %}T{% elsif d.k %}U{% else %}F{% endif %}{% unless sub %}U{% endunless %}{{ sub | default: title }}"
                       "{{ title | default: sub }}{{ title | append: sub }}", None),
                      ("{% capture x %}{% endcapture %}{{ x | default: 'd' }}{% assign x = sub | default: nil %}" + B, "d" + NIL)):
        out.append((form, nparts, dict(nd), True, exp))
    # (d) data objects with the documented drop hook __liquid__ as bracketed path segments
    # (int index, str key), nested, and where a number / key is expected elsewhere
    dd = {"arr": [10, 20, 30], "h": {"k": "v", "size": 9, "n": {"m": 5}, "first": "F"}, "idx": {"k": IntDrop(2)},
          "lh": [{"k": 1}, {"k": None}, {"j": 2}], "i0": IntDrop(0), "i1": IntDrop(1), "im": IntDrop(-1), "i9": IntDrop(9),
          "ks": KeyDrop("k"), "kn": KeyDrop("n"), "km": KeyDrop("m"), "kz": KeyDrop("zz"), "ksize": KeyDrop("size"),
          "kfirst": KeyDrop("first"), "klast": KeyDrop("last"), "nd": NilDrop(), "s": "hello"}
    dparts = {"p": "{{ h[k] }}|{{ arr[i] }}", "lp": "{{ a[i] }};"}
    for src, exp in (
            ("{{ arr[i1] }}", "20"), ("{{ arr[i0] }}|{{ arr[im] }}", "10|30"), ("{{ h[ks] }}", "v"), ("{{ h[kn][km] }}|{{ h[kn].m }}", "5|5"),
            ("{{ arr[idx[ks]] }}|{{ arr[idx.k] }}", "30|30"), ("{{ arr[ksize] }}|{{ h[ksize] }}|{{ s[ksize] }}", "3|9|5"),
            ("{{ arr[kfirst] }}|{{ arr[klast] }}|{{ h[kfirst] }}", "10|30|F"), ("{{ s[i1] }}|{{ s[im] }}", "e|o"),
            ("{{ lh[i0][ks] }}|{{ lh[i0].k }}|{{ lh[i1][ks] | default: 'd' }}", "1|1|d"),
            ("{% assign v = arr[i1] %}{{ v | plus: 1 }}|{% if arr[i1] == 20 %}T{% else %}F{% endif %}|{{ arr[i1] | default: 'd' }}", "21|T|20"),
            ("{% for x in arr %}{{ arr[i1] }}{{ h[ks] }};{% endfor %}", "20v;20v;20v;"),
            ("{% for x in lh %}{{ x[ks] | default: '-' }}{% endfor %}", "1--"),
            ("{{ arr[i1] | append: h[ks] }}|{{ 'x' if h[ks] == 'v' else 'y' }}|{% case arr[i0] %}{% when 10 %}ten{% endcase %}", "20v|x|ten"),
            ("{% render 'p', h: h, arr: arr, k: ks, i: i1 %}", "v|20"), ("{% include 'p', k: kn, i: im %}", None),
            ("{% render 'lp' for arr as x, a: arr, i: i1 %}", "20;20;20;"),
            ("{% macro f, a, i %}{{ a[i] }}{% endmacro %}{% call f, arr, i1 %}|{% call f, a: h, i: ks %}", "20|v"),
            ("{% with i: i1, k: ks %}{{ arr[i] }}{{ h[k] }}{% endwith %}", "20v"),
            ("{% capture c %}{{ arr[i1] }}{% endcapture %}{{ c }}|{% echo h[ks] %}", "20|v"),
            ("{{ arr | map: x => arr[i1] | join: ',' }}|{{ lh | where: x => x[ks] | size }}|{{ lh | map: x => x[ks] | compact | size }}", "20,20,20|1|1"),
            ("{% tablerow x in arr %}{{ arr[i0] }}{% endtablerow %}", None),
            # the drop where a number is expected: comparisons, range bounds, loop arguments, filter arguments
            ("{% if i1 < 10 %}lt{% endif %}|{% if i1 == 1 %}eq{% endif %}|{% if i1 >= i0 %}ge{% endif %}|{% if i1 %}T{% endif %}", "lt|eq|ge|T"),
            ("{% if nd == nil %}N{% else %}V{% endif %}|{% if nd %}T{% else %}F{% endif %}|{{ nd | default: 'd' }}|{% unless nd %}U{% endunless %}", "N|F|d|U"),
            ("{% case i1 %}{% when 1 %}one{% else %}other{% endcase %}|{% case 1 %}{% when i0, i1 %}hit{% endcase %}", "one|hit"),
            ("{% for x in (i1..3) %}{{ x }}{% endfor %}|{% for x in (0..i1) %}{{ x }}{% endfor %}|{{ (i0..i1) | size }}", "123|01|2"),
            ("{% for x in arr limit: i1 %}{{ x }}{% endfor %}|{% for x in arr offset: i1 %}{{ x }}{% endfor %}|"
             "{% for x in arr limit: i1 offset: i1 %}{{ x }}{% endfor %}", "10|2030|20"),
            ("{{ arr | slice: i1 | join: ',' }}|{{ arr | slice: i0, i1 | join: ',' }}|{{ s | slice: i1, i1 }}|{{ s | truncate: i1, '' }}", None),
            ("{{ 5 | plus: i1 }}|{{ 5 | times: i1 }}|{{ 5 | at_least: i9 }}|{{ 7 | round: i1 }}|{{ s | truncatewords: i1 }}", None),
            ("{{ arr | join: ks }}|{{ 'a' | append: ks }}|{{ 'a' | prepend: ks }}", "10k20k30|ak|ka"),
            ("{{ lh | map: ks | join: ',' }}", None), ("{{ lh | where: ks | size }}", None), ("{{ lh | sum: ks }}", None),
            ("{{ lh | sort: ks | size }}", None), ("{{ lh | compact: ks | size }}", None), ("{{ lh | find: ks | json }}", None),
            ("{% tablerow x in arr cols: i1 %}{{ x }}{% endtablerow %}", None), ("{% tablerow x in arr limit: i1 %}{{ x }}{% endtablerow %}", None),
            ("{% cycle i1: 'a', 'b' %}{% cycle i1: 'a', 'b' %}|{% cycle ks, 'b' %}", None),
            ("{% translate count: i1 %}one{% plural %}many{% endtranslate %}|{% translate count: i0 %}one{% plural %}many{% endtranslate %}", None),
            ("{{ i1 }}|{{ ks }}|{{ nd }}|{{ i1 | size }}|{{ ks | upcase }}", "drop|k||0|K"), ("{{ i1 | json }}", None)):
        # x[ks] over lh meets hashes without the key: a genuine (tolerated) miss, the probe aborts there
        out.append((src, dparts, dict(dd), "x[ks]" not in src, exp))
    # an index / key that really is out of range or absent: missing, under every hook
    for src in ("{{ arr[i9] }}", "{{ h[kz] }}", "{{ h[kn][kz] }}", "{{ arr[idx[kz]] }}", "{{ lh[i9][ks] }}", "{{ h[nd] }}", "{{ arr[nd] }}",
                "{{ arr[i9] | default: 'd' }}|{{ h[kz] | default: 'd' }}", "{% render 'p', h: h, arr: arr, k: kz, i: i9 %}",
                "{% if arr[i9] %}T{% else %}F{% endif %}|{% if h[kz] == nil %}N{% endif %}"):
        out.append((src, dparts, dict(dd), False, None))
    # (e) round-8 reviewer observations on the clean tree
    eparts = {"base": "{% for a in (1..2) %}{% block b %}{% for c in (1..2) %}{{ forloop.parentloop.index }}.{{ forloop.index }} "
                      "{% endfor %}{% endblock %}{% endfor %}",
              "mid": "{% extends 'base' %}"}
    # a for inside a block inside a for of the base template keeps its parentloop through {% extends %}
    out.append(("{% extends 'base' %}", eparts, {}, True, "1.1 1.2 2.1 2.2 "))
    out.append(("{% extends 'mid' %}", eparts, {}, True, "1.1 1.2 2.1 2.2 "))
    out.append(("{% extends 'base' %}{% block b %}{% for c in (1..2) %}{{ forloop.parentloop.index }}-{{ forloop.index }} {% endfor %}{% endblock %}",
                eparts, {}, True, "1-1 1-2 2-1 2-2 "))
    out.append((eparts["base"], eparts, {}, True, "1.1 1.2 2.1 2.2 "))
    # a macro may call another macro, or itself
    out.append(("{% macro cell, v %}<td>{{ v }}</td>{% endmacro %}{% macro row, a, b %}<tr>{% call cell, a %}{% call cell, b %}</tr>{% endmacro %}"
                "{% call row, 1, 2 %}", {}, {}, True, "<tr><td>1</td><td>2</td></tr>"))
    out.append(("{% macro row, a %}<tr>{% call cell, a %}</tr>{% endmacro %}{% macro cell, v %}<td>{{ v }}</td>{% endmacro %}{% call row, n %}",
                {}, {"n": 7}, True, "<tr><td>7</td></tr>"))
    out.append(("{% macro f, n %}{{ n }}{% if n > 0 %}{% assign m = n | minus: 1 %}{% call f, m %}{% endif %}{% endmacro %}{% call f, 3 %}",
                {}, {}, True, "3210"))
    out.append(("{% macro f %}x{% call f %}{% endmacro %}{% call f %}", {}, {}, True, None))        # bounded: ContextDepthError
    out.append(("{% macro row %}{% call nosuch %}{% endmacro %}{% call row %}", {}, {}, False, None))   # a macro that does not exist IS missing
    # under the default policy a missing variable behaves as nil: json, and the key argument of uniq / compact
    jd = {"a": 1, "arr": ["a", "b", "a", None], "ld": [{"k": 1}, {"k": None}]}
    for miss, nil_, only in (("{{ m | json }}", "{{ nil | json }}", "D"), ("{{ a, m | json }}", "{{ a, nil | json }}", "D"),
                             ("{{ d.zz | json }}", "{{ nil | json }}", "D"), ("{% assign v = a, m %}{{ v | json: 1 }}", "{% assign v = a, nil %}{{ v | json: 1 }}", "D"),
                             ("{{ arr | uniq: m | join: ',' }}", "{{ arr | uniq: nil | join: ',' }}", "DSF"),
                             ("{{ arr | compact: m | join: ',' }}", "{{ arr | compact: nil | join: ',' }}", "DSF"),
                             ("{{ arr | uniq: d.zz | size }}", "{{ arr | uniq | size }}", "DSF"),
                             ("{{ ld | compact: m | size }}|{{ ld | uniq: m | size }}|{{ ld | sum: m }}", "{{ ld | compact | size }}|{{ ld | uniq | size }}|{{ ld | sum }}", "DSF")):
        out.append((miss, {}, dict(jd), False, nil_, {"_only": only}))
    # environment and template globals that hold None
    G = "{{ g }}|{{ g | default: 'd' }}|{% if g == nil %}N{% else %}V{% endif %}|{{ g | size }}|{{ g | upcase }}"
    for opts in ({"env_globals": {"g": None}}, {"tmpl_globals": {"g": None}}, {"env_globals": {"g": 1}, "tmpl_globals": {"g": None}},
                 {"env_globals": {"x": None}, "tmpl_globals": {"g": None}}):
        out.append((G, nparts, dict(nd), True, "|d|N|0|", opts))
        out.append(("{% render 'p', x: g %}|{% with x: g %}" + B + "{% endwith %}", nparts, dict(nd), True, NIL + "|" + NIL, opts))
    out.append((G, nparts, dict(nd, g=None), True, "|d|N|0|", {"env_globals": {"g": 1}, "tmpl_globals": {"g": 2}}))
    out.append((B, nparts, dict(nd), True, NIL, {"env_globals": {"x": None}}))
    out.append((B, nparts, dict(nd), True, NIL, {"tmpl_globals": {"x": None}}))
    out.append(("{% render 'p' %}", nparts, dict(nd), True, NIL, {"env_globals": {"x": None}}))
    return out


HIST_TEMPLATES = {
    "t": "{{ user }}|{{ user.name | default: 'anon' }}|{% if user %}Y{% else %}N{% endif %}|{{ n | plus: 1 }}",
    "u": "{% for x in items %}{{ x }}{% else %}E{% endfor %}|{{ title | upcase }}",
    "w": "{% include 'part' %}|{{ user | default: 'd' }}",
    "part": "[{{ user }}{{ n }}]",
    "v": "{% assign user = user | default: 'local' %}{{ user }}|{{ n }}",
}


def history_scripts() -> list[tuple[str, list[tuple[dict[str, Any] | None, dict[str, Any] | None]]]]:
    """(template name, steps); a step is (globals passed to get_template | None,
    keyword arguments passed to render | None = none)."""
    U1, U2 = {"user": "u1", "n": 1}, {"user": {"name": "N2"}, "n": 2}
    scripts: list[tuple[str, list[tuple[dict[str, Any] | None, dict[str, Any] | None]]]] = []
    seqs = [
        [({}, None), (U1, None)], [(U1, None), ({}, None)], [(U1, None), (U2, None)], [(None, None), (U1, None)],
        [(U1, None), (None, None)], [({"n": 1}, None), ({"user": "u"}, None)], [({"user": "u"}, None), ({"n": 5}, None)],
        [({}, None), (U1, None), ({}, None)], [(U1, None), ({}, None), (U2, None)],
        [({}, {"user": "arg"}), (U1, None)], [(U1, None), ({}, {"user": "arg", "n": 9})], [({}, {"user": "arg", "n": 9}), ({}, None)],
        [(U1, {"user": "arg"}), (U2, None), (U2, {"n": 7})], [(U1, None), (U1, None)], [({}, None), ({}, None), (U2, None)],
    ]
    for name in ("t", "w", "v"):
        for seq in seqs:
            scripts.append((name, seq))
    I1, I2 = {"items": [1, 2], "title": "a"}, {"items": [], "title": "b"}
    for seq in ([({}, None), (I1, None)], [(I1, None), ({}, None)], [(I1, None), (I2, None)], [({"items": [3]}, None), ({"title": "t"}, None)],
                [({}, {"title": "arg"}), (I1, None)], [(I2, None), ({}, None), (I1, None)]):
        scripts.append(("u", seq))
    return scripts


def run_history(kind: str, pol: str, asynchronous: bool, name: str,
                steps: list[tuple[dict[str, Any] | None, dict[str, Any] | None]], root: Any) -> list[tuple[tuple[str, str], tuple[str, str]]]:
    """Per step: (outcome on ONE environment and loader kept across the steps,
    outcome of the same call on fresh objects)."""
    import asyncio
    from liquid2 import CachingDictLoader, CachingFileSystemLoader, DictLoader, Environment

    def mk() -> Any:
        if kind == "cdict":
            ld: Any = CachingDictLoader(dict(HIST_TEMPLATES))
        elif kind == "cdict-noreload":
            ld = CachingDictLoader(dict(HIST_TEMPLATES), auto_reload=False)
        elif kind == "cfs":
            ld = CachingFileSystemLoader(root)
        elif kind == "cfs-noreload":
            ld = CachingFileSystemLoader(root, auto_reload=False)
        else:
            ld = DictLoader(dict(HIST_TEMPLATES))
        return Environment(undefined=_classes()[pol], loader=ld)

    if not _LOOP:
        _LOOP.append(asyncio.new_event_loop())

    def one(env: Any, g: dict[str, Any] | None, args: dict[str, Any] | None) -> tuple[str, str]:
        del _TOUCHED[:]
        try:
            if asynchronous:
                t = _LOOP[0].run_until_complete(env.get_template_async(name, globals=g))
                o = ("ok", _LOOP[0].run_until_complete(t.render_async(**(args or {}))))
            else:
                t = env.get_template(name, globals=g)
                o = ("ok", t.render(**(args or {})))
        except Exception as e:  # noqa: BLE001
            o = outcome_of_exception(e)
        return _probe_outcome(o) if pol == "P" else o

    kept = mk()
    return [(one(kept, g, args), one(mk(), g, args)) for g, args in steps]


# ---------------------------------------------------------------- main

_orig_coqc_cases = C._coqc_cases


def _coqc_cases_retry(path: Any) -> tuple[int, str]:
    """A coqc process killed from outside (memory pressure on a shared machine:
    non-zero status, no output) is re-run; a real error is reported as is."""
    rc, out = _orig_coqc_cases(path)
    for _ in range(2):
        if rc == 0 or out.strip():
            break
        time.sleep(2)
        rc, out = _orig_coqc_cases(path)
    return rc, out


def main(chk: C.Check, build: C.Build) -> None:
    warnings.simplefilter("ignore")
    C._coqc_cases = _coqc_cases_retry
    t0 = time.time()
    phase: dict[str, float] = {}
    proofs_ok = C.proof_stage(chk, build, NEEDED)
    phase["proof_audit"] = round(time.time() - t0, 1)
    thorough = chk.tier == "thorough"
    r = C.rng("c16")

    # 1. programs of the modelled fragment x data x deleted subsets
    cases: list[tuple[list[tuple], dict[str, Any], tuple, bool]] = []
    site = site_programs()
    site = [x for x in site if r.random() < (0.5 if thorough else 0.01)]
    for prog, data in site:
        for sub, d in deletions(prog, data, r, 2, 2):
            cases.append((prog, d, sub, False))
    nprog = 450 if thorough else 35
    for i in range(nprog):
        prog = gen_block(r, [], depth=3 if thorough else 2, n=r.choice([1, 2, 2, 3]))
        dels = deletions(prog, BASE, r, 4, 12 if thorough else 3)
        if not thorough and len(dels) > 8:
            dels = dels[:1] + r.sample(dels[1:], 7)
        for sub, d in dels:
            cases.append((prog, d, sub, False))
    # directed programs, never sampled: else-less inline conditionals; Python-== membership
    directed = directed_programs()
    for prog, data in directed:
        for sub, d in deletions(prog, data, r, 4 if thorough else 0, 0):
            cases.append((prog, d, sub, False))
    # every short-circuit site, with every subset of its references deleted
    lazy = lazy_programs()
    unreached_of: dict[str, tuple[set, dict]] = {}
    for prog, data, unreached in lazy:
        unreached_of[p_block(prog)] = (set(unreached), {})
        # quick: all subsets up to 4 references; beyond, the base data, every single deletion and 4 seeded subsets
        for sub, d in deletions(prog, data, r, 8 if thorough else 4, 4):
            cases.append((prog, d, sub, True))

    items = []
    dist = {"programs": len(site) + nprog + len(lazy) + len(directed), "ok": 0, "UndefinedError": 0, "other_error": 0, "miss": 0,
            "strict_ok_with_missing": 0, "falsy_ok_strict_raises": 0}
    nontrivial = set()
    samples = []
    for prog, data, sub, is_lazy in cases:
        src = p_block(prog)
        outs = {pol: render_impl(src, data, pol) for pol in POLS}
        outs_a = {pol: render_impl_async(src, data, pol) for pol in POLS}
        acc: list[tuple] = []
        refs_of_block(prog, acc)
        complete = all(resolves(data, x) for x in acc)
        oracle(chk, src, data, outs, complete=complete)
        if outs_a != outs:
            oracle(chk, src, data, outs_a, complete=complete, what="async")
            chk.finding("sync-async-differ", f"render and render_async differ: {outs!r} vs {outs_a!r}: {src!r}",
                        {"source": src, "data": data, "sync": outs, "async": outs_a})
        if is_lazy:
            unreached, seen_outs = unreached_of[src]
            seen_outs[frozenset(sub)] = (outs, outs_a)
        # a variable the program never mentions is invisible (all policies)
        if "qq_unused" not in src:
            for pol in ("S", "D") if not thorough else POLS:
                o2 = render_impl(src, {**data, "qq_unused": [1]}, pol)
                if o2 != outs[pol]:
                    chk.finding("unused-variable-visible", f"adding the unmentioned variable qq_unused changed the outcome {outs[pol]!r} -> {o2!r}: {src!r}",
                                {"source": src, "data": data, "policy": pol, "without": outs[pol], "with": o2})
        for pol in POLS:
            o = outs[pol]
            dist["ok" if o[0] == "ok" else "miss" if o[0] == "miss" else "UndefinedError" if o[1] == "UndefinedError" else "other_error"] += 1
        if outs["P"][0] == "miss":
            if outs["S"][0] == "ok":
                dist["strict_ok_with_missing"] += 1
            if outs["F"][0] == "ok" and outs["S"] == ("lerr", "UndefinedError"):
                dist["falsy_ok_strict_raises"] += 1
            nontrivial.add(src + repr(data))
        cp, cd = c_block(prog), c_data(data)
        checks = " && ".join(f"agree_s (render {CPOL[pol]} {FUEL}%nat p d) {c_outcome(outs[pol])}" for pol in POLS)
        for pol in POLS:          # the async twin must agree with the model too
            if outs_a[pol] != outs[pol]:
                checks += f" && agree_s (render {CPOL[pol]} {FUEL}%nat p d) {c_outcome(outs_a[pol])}"
        items.append({"case": f"(let p := {cp} in let d := {cd} in {checks})",
                      "model": f"(let p := {cp} in let d := {cd} in map (fun pol => render pol {FUEL}%nat p d) [PDefault; PStrict; PFalsy; PProbe])",
                      "inside": f"(let p := {cp} in let d := {cd} in forallb (fun pol => inside_s (render pol {FUEL}%nat p d)) [PDefault; PStrict; PFalsy; PProbe])",
                      "replay": {"source": src, "data": data, "deleted": [list(x) for x in sub], "implementation": outs}})
        if outs["P"][0] == "miss" and len(src) < 120 and (len(samples) < 2 or (len(samples) < 6 and r.random() < 0.01)):
            samples.append({"source": src, "deleted": [list(x) for x in sub], "data_keys": sorted(data), "outcomes": outs})

    # directed oracle for laziness (independent of the model): deleting variables that
    # the render must never reach changes nothing, under every policy, sync and async
    nlazy = 0
    for src, (unreached, seen_outs) in unreached_of.items():
        for sub, got in seen_outs.items():
            # only when nothing that IS reached has been deleted (otherwise another
            # value decides and the "unreached" ones may be reached)
            base = frozenset()
            if not sub or not set(sub) <= unreached or base not in seen_outs:
                continue
            nlazy += 1
            if seen_outs[base] != got:
                gone = sorted(x[0] for x in sub if x in unreached)
                for mode, i in (("render", 0), ("render_async", 1)):
                    for pol in POLS:
                        if seen_outs[base][i][pol] != got[i][pol]:
                            nm = {"D": "Undefined", "S": "StrictUndefined", "F": "FalsyStrictUndefined", "P": "probe"}[pol]
                            chk.finding(f"unreached-variable-evaluated:{nm}",
                                        f"{mode} under {nm}: deleting {gone}, which the render must not reach, changed "
                                        f"{seen_outs[base][i][pol]!r} into {got[i][pol]!r}: {src!r}",
                                        {"source": src, "deleted_unreached": gone, "also_deleted": sorted(x[0] for x in base),
                                         "mode": mode, "policy": nm, "with": seen_outs[base][i][pol], "without": got[i][pol]})
    phase["template_runs"] = round(time.time() - t0, 1)
    # 1b. roots_b (the vocabulary of c16_render_depends_only_on_mentioned_roots) against the
    # engine's own static analysis: the root names of Template.analyze().variables
    ritems = []
    seen_src: set[str] = set()
    for prog, _d, _s, _ in cases:
        src = p_block(prog)
        if src in seen_src or (not thorough and len(seen_src) >= 250) or (thorough and len(seen_src) >= 2500):
            continue
        seen_src.add(src)
        try:
            an = _env("D").from_string(src).analyze()
            names = sorted({str(v).split(".")[0].split("[")[0] for v in an.variables})
        except Exception as e:  # noqa: BLE001
            names = ["<analysis failed: " + type(e).__name__ + ">"]
        cn = C.clist((cs(n) for n in names), "str")
        ritems.append({"case": f"(let rs := roots_b {c_block(prog)} in let ns := {cn} in "
                               "forallb (fun x => mem_str x ns) rs && forallb (fun x => mem_str x rs) ns)",
                       "model": f"roots_b {c_block(prog)}",
                       "replay": {"source": src, "analysis_root_names": names}})

    # 2. kernel-level tie
    kitems = dunder_cases()
    kall = kernel_cases(r, thorough)
    def must(k: dict[str, Any]) -> bool:
        # Python == between an undefined and nil / false, in every policy: never sampled away
        a = k["replay"]["args"]
        if k["replay"]["kernel"].startswith("filter:") and a.startswith(("(Undefined(", "(StrictUndefined(")) and a.endswith(", ())"):
            return True                   # every filter on an undefined left value, without arguments
        return k["replay"]["kernel"] in ("_eq", "_contains") and "Undefined(" in a and ("None" in a or "False" in a)
    kitems += [k for k in kall if must(k) or r.random() < (0.3 if thorough else 0.03)]

    # 3. oracle beyond the model
    nbeyond = 0
    for src, data, complete in all_filter_sources():
        if not thorough and r.random() > 0.06:
            continue
        for ae in (False, True):
            outs = {pol: render_impl(src, data, pol, ae) for pol in POLS}
            oracle(chk, src, data, outs, complete=complete, auto_escape=ae)
            nbeyond += 1
    for src, parts, data, complete in partial_sources():
        outs = {pol: render_partial(src, parts, data, pol) for pol in POLS}
        oracle(chk, src, {"data": data, "partials": parts}, outs, complete=complete)
        nbeyond += 1
    # directed sources beyond the model, never sampled, sync and async
    nbd = 0
    for src, parts, data, complete, equiv, *rest in beyond_directed():
        opts = dict(rest[0]) if rest else {}
        only = opts.pop("_only", "DSFP")          # the policies whose outcome must equal the equivalent source's
        both = []
        for asy in (False, True):
            outs = {pol: render_env(src, parts, data, pol, asy, **opts) for pol in POLS}
            both.append(outs)
            oracle(chk, src, {"data": data, "partials": parts, "async": asy}, outs, complete=complete)
            nbeyond += 1
            nbd += 1
            if equiv is not None:
                for pol in only:
                    o2 = ("ok", equiv) if "{" not in equiv else render_env(equiv, parts, data, pol, asy, **opts)
                    if o2 != outs[pol]:
                        nm = {"D": "Undefined", "S": "StrictUndefined", "F": "FalsyStrictUndefined", "P": "probe"}[pol]
                        if "{" not in equiv:
                            if pol == "P" and not complete and outs[pol][0] == "miss":
                                continue
                            chk.finding(f"expected-output:{nm}",
                                        f"{'render_async' if asy else 'render'} under {nm} gives {outs[pol]!r}; the documented result is "
                                        f"{equiv!r} under every policy (nothing is missing): {src!r}",
                                        {"source": src, "expected": equiv, "partials": parts, "data": repr(data), "policy": nm,
                                         "async": asy, "got": outs[pol]})
                            continue
                        chk.finding(f"boundary-changes-result:{nm}",
                                    f"{'render_async' if asy else 'render'} under {nm}: {outs[pol]!r} across the render/include/call boundary, "
                                    f"{o2!r} for the same body without it: {src!r}",
                                    {"source": src, "equivalent": equiv, "partials": parts, "data": data, "policy": nm,
                                     "async": asy, "with_boundary": outs[pol], "without": o2})
        if both[0] != both[1]:
            chk.finding("sync-async-differ", f"render and render_async differ: {both[0]!r} vs {both[1]!r}: {src!r}",
                        {"source": src, "partials": parts, "data": data, "sync": both[0], "async": both[1]})
    # directed histories: the same template fetched again from a caching loader with
    # other per-call globals; each render compared with the same call on fresh objects
    import os
    import shutil
    import tempfile
    from pathlib import Path
    hroot = Path(tempfile.mkdtemp(prefix="c16_", dir=os.environ.get("VERIF_SCRATCH", "/var/tmp")))
    nhist = 0
    try:
        for tn, text in HIST_TEMPLATES.items():
            (hroot / tn).write_text(text)
        for name, steps in history_scripts():
            for kind in (("cdict", "cdict-noreload", "cfs", "cfs-noreload", "dict") if thorough else ("cdict", "cfs", "cfs-noreload")):
                for asy in (False, True):
                    per_pol = {pol: run_history(kind, pol, asy, name, steps, hroot) for pol in POLS}
                    for i, (g, args) in enumerate(steps):
                        nhist += 1
                        kept = {pol: per_pol[pol][i][0] for pol in POLS}
                        fresh_o = {pol: per_pol[pol][i][1] for pol in POLS}
                        rep = {"template": name, "source": HIST_TEMPLATES[name], "loader": kind, "async": asy,
                               "steps": [{"globals": a, "render_args": b} for a, b in steps], "step": i}
                        for pol in POLS:
                            if kept[pol] != fresh_o[pol]:
                                nm = {"D": "Undefined", "S": "StrictUndefined", "F": "FalsyStrictUndefined", "P": "probe"}[pol]
                                chk.finding(f"history-changes-result:{nm}",
                                            f"{kind} loader, {'async' if asy else 'sync'}, {nm}: step {i} of "
                                            f"{[(a, b) for a, b in steps]!r} on template {name!r} gives {kept[pol]!r}; the same "
                                            f"get_template(globals=...)/render(...) on fresh objects gives {fresh_o[pol]!r}",
                                            dict(rep, policy=nm, kept=kept[pol], fresh=fresh_o[pol]))
                        oracle(chk, f"<history {name} {kind} step {i}> " + HIST_TEMPLATES[name], rep, kept, complete=False)
    finally:
        shutil.rmtree(hroot, ignore_errors=True)
    outs = {pol: render_impl(REPR_WITNESS[0], REPR_WITNESS[1], pol) for pol in POLS}
    oracle(chk, REPR_WITNESS[0], REPR_WITNESS[1], outs, complete=False)

    phase["kernel_and_oracle_runs"] = round(time.time() - t0, 1)
    defs = str_defs() + DEFS_CASE
    C.correspond(chk, "c16r", IMPORTS, defs, ritems, what="roots_b", shard=300)
    C.correspond(chk, "c16k", IMPORTS, defs, kitems, what="Undefined primitives", shard=200)
    C.correspond(chk, "c16", IMPORTS, defs, items, what="Undefined.render", shard=150)
    # how many template cases did the model decide (not [outside])?  measured on
    # a seeded sample
    probe = [it for it in items if r.random() < (0.2 if thorough else 0.12)]
    rc = C.run_cases("c16in", IMPORTS, defs, [it["inside"] for it in probe], shard=150)
    inside = len(probe) - len(rc["bad"])
    for e in rc["errors"]:
        chk.notes.append("coq case error (verdict probe): " + e[:300])
    phase["coq_cases"] = round(time.time() - t0, 1)
    C.proofs_verdict(chk, proofs_ok)

    chk.coverage.update({
        "evaluations": len(cases) * 4 + len(kitems) + len(ritems) + nbeyond * 4,
        "distinct_nontrivial": len(nontrivial),
        "rule": ("(template, data) pairs of the modelled fragment: every modelled use site with a missing value (each modelled filter x "
                 "left value x argument, each comparison operator x operand pair, truthiness / ternary / case / for iterable / for limit / "
                 "assign / capture / nested path segment) plus seeded random programs (depth <= "
                 f"{3 if thorough else 2}); for each, the base data and the data with every subset of the resolvable references deleted "
                 f"(exhaustive for <= 4 references in random programs, <= 2 in site programs, seeded beyond); each pair rendered under Undefined, "
                 "StrictUndefined, FalsyStrictUndefined and the probe. non-trivial = the probe saw a failed lookup (some policy had to handle an undefined)"),
        "samples": samples,
        "distribution": dist,
        "template_cases": len(cases),
        "template_cases_probed_for_verdict": len(probe),
        "template_cases_decided_by_model": inside,
        "phase_end_s": phase,
        "kernel_cases": len(kitems),
        "roots_cases": len(ritems),
        "lazy_site_programs": len(lazy),
        "directed_programs": len(directed),
        "directed_sources_beyond_model": nbd,
        "history_steps": nhist,
        "lazy_deletion_comparisons": nlazy,
        "oracle_only_sources": nbeyond,
        "exhaustive": False,
        "tier_proved": "interpreter of the C16 fragment (all programs, data and fuel)",
    })
    chk.assumptions += [
        "one render uses one undefined class (Environment.undefined); caller data contain no Undefined objects",
        "auto_escape off in the model (the oracle also runs with auto_escape on); DebugUndefined and user subclasses are outside",
        "outside the model (PyExc OtherPyError, compared as 'no verdict'): str(dict), tuples from dict iteration and dict.first, floats and "
        "float-like strings, keyed sort / uniq, non-ASCII case mapping, the forloop object, now / today, "
        "object identity of two undefineds compared under StrictUndefined",
        "lambdas, ranges, template strings, tablerow, macros, with, include / render arguments, cycle, increment: oracle only",
    ]
